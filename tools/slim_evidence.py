#!/usr/bin/env python3
"""slim_evidence.py <in> <out>: copy of an evidence file without the bulky sample lists (snapshot of a thorough run)."""
import json, sys
e = json.load(open(sys.argv[1]))
c = e.get("coverage", {})
for k in list(c):
    if isinstance(c[k], list) and len(json.dumps(c[k])) > 4000:
        c[k] = c[k][:3]
json.dump(e, open(sys.argv[2], "w"), indent=1)
