#!/usr/bin/env python3
"""integrate_findings.py <cNN> [key=commit ...] [key=known:<why> ...]
Merges harness/checks/<cNN>/findings_proposed.json into known_findings.json; keys given with a commit
become status=fixed, others stay known. Existing keys are replaced."""
import json, sys
chk = sys.argv[1]; spec = dict(a.split('=', 1) for a in sys.argv[2:])
kf = '/verif/known_findings.json'
d = json.load(open(kf))
prop = json.load(open('/verif/harness/checks/%s/findings_proposed.json' % chk))['findings']
for f in prop:
    d['findings'] = [x for x in d['findings'] if not (x['property'] == f['property'] and x['key'] == f['key'])]
    v = spec.get(f['key'])
    if v and not v.startswith('known:'):
        f['status'] = 'fixed'; f['commit'] = v
        f['line'] = "fixed: property=%s %s %s" % (f['property'], v, f['what_fails'])
    else:
        f['status'] = 'known'
        if v: f['why_not_fixed'] = v[6:]
        f.pop('line', None)
    d['findings'].append(f)
    print(f['property'], f['key'], f['status'], f.get('commit', ''))
json.dump(d, open(kf, 'w'), indent=1)
