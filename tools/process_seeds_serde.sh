#!/usr/bin/env bash
# tools/process_seeds_serde.sh <Cxx> <slug1> <slug2>: like process_seeds.sh for seeds whose demo needs the crate's
# `serde` feature and a dev-dependency (demo_cargo_toml.diff). env SEED_PREFIX / SEED_ROUND as in process_seeds.sh.
set -u
P="$1"; shift
VR="$(cd "$(dirname "$0")/.." && pwd)"
W=/tmp/${SEED_PREFIX:-seed}-$P
export CARGO_NET_OFFLINE=true CARGO_TARGET_DIR=$W/target
i=0
for slug in "$@"; do
  i=$((i+1)); ch=$W/out/change$i; f=$ch/demo.rs
  cd "$W" || exit 2
  dest=$(grep -m1 -i 'where to put' $f | sed 's/.*[Ww]here to put it: *//' | awk '{print $1}' | tr -d '`')
  run=$(grep -m1 -o 'cargo test --offline -p .*' $f | tr -d '`'); crate=$(echo $run | grep -o -- '-p [a-z-]*' | head -1 | awk '{print $2}')
  git checkout -q -- .; git clean -qfd -e out -e target -e PROPERTY.md
  git apply $ch/patch.diff || { echo "SEED $P change$i: patch does not apply"; continue; }
  # the demo's crate plus every crate the patch touches (the root crate is `linfa`)
  crates="$crate $(grep '^+++ b/' $ch/patch.diff | sed 's|^+++ b/||' | awk -F/ '{ if ($1=="algorithms") print $2; else print "linfa" }' | sort -u | tr '\n' ' ')"
  crates=$(echo $crates | tr ' ' '\n' | sort -u | tr '\n' ' ')
  pk=""; ft=""; for c in $crates; do pk="$pk -p $c"; ft="$ft $c/serde"; done
  c1=RED; cargo test --offline $pk > $ch/suite_with.log 2>&1 && c1="green ($(grep -c '\.\.\. ok$' $ch/suite_with.log) ok: $crates)"
  c2=RED; cargo test --offline $pk --features "$ft" > $ch/suite_with_serde.log 2>&1 && c2="green ($(grep -c '\.\.\. ok$' $ch/suite_with_serde.log) ok)"
  [ -f $ch/demo_cargo_toml.diff ] && git apply $ch/demo_cargo_toml.diff
  mkdir -p $(dirname $dest); cp $f $dest
  c3="PASS (unexpected)"; $run > $ch/demo_with.log 2>&1 || c3="fail (expected)"
  git apply -R $ch/patch.diff
  c4="FAIL (unexpected)"; $run > $ch/demo_without.log 2>&1 && c4="pass (expected)"
  rm -f $dest; git checkout -q -- .; git clean -qfd -e out -e target -e PROPERTY.md
  conf="suite-with-change=$c1; with serde feature=$c2; demo-with-change=$c3; demo-without-change=$c4"
  d="$VR/seeded/$P-$slug"; mkdir -p "$d"; cp $ch/patch.diff $ch/demo.rs $ch/notes.md "$d/"; [ -f $ch/demo_cargo_toml.diff ] && cp $ch/demo_cargo_toml.diff "$d/"
  out=$("$VR/tools/mutant_run.sh" $P "$d/patch.diff" quick 2>&1)
  res=$(echo "$out" | grep -o "rc=[0-9]* ([A-Za-z-]*)" | tail -1)
  sigs=$(echo "$out" | grep -o "sig=[^ ]*" | sort -u | head -4 | tr '\n' ' ')
  verdict="detected"; echo "$res" | grep -q "rc=1" || verdict="missed"
  python3 - "$d" "$P" "$slug" "$verdict" "$sigs" "$conf" "${SEED_ROUND:-2}" <<'PY'
import json, sys
d, P, slug, verdict, sigs, conf, rnd = sys.argv[1:8]
json.dump({"property": P, "round": int(rnd), "origin": "independent sub-agent given only the property record and a scratch worktree of /repo (no access to /verif)",
  "breaks": slug.replace('-', ' '), "needs_to_manifest": "see notes.md",
  "confirmed": conf, "check_result_first_run": verdict, "signatures": sigs.strip(),
  "how_to_run": "tools/mutant_run.sh %s seeded/%s-%s/patch.diff quick" % (P, P, slug)}, open(d + "/meta.json", "w"), indent=1)
PY
  echo "SEED $P-$slug: [$conf] check=$res $sigs"
done
