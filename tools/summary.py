#!/usr/bin/env python3
"""Regenerates the at-a-glance block at the top of DESIGN.md section 10 from the committed artefacts."""
import json, glob, os, subprocess, re
ROOT = os.path.dirname(os.path.dirname(os.path.abspath(__file__)))
kf = json.load(open(os.path.join(ROOT, "known_findings.json")))["findings"]
known = [f for f in kf if f["status"] == "known"]; fixed = [f for f in kf if f["status"] == "fixed"]
fixes = subprocess.run(["git", "-C", "/repo", "log", "--oneline"], capture_output=True, text=True).stdout.splitlines()
nfix = sum(1 for l in fixes if re.match(r"^[0-9a-f]+ fix:", l))
head = fixes[0].split()[0] if fixes else "?"
design = open(os.path.join(ROOT, "DESIGN.md")).read()
ndef = max(int(x) for x in re.findall(r"(?m)^\| (\d+) \| C\d\d", design))
seeds = glob.glob(os.path.join(ROOT, "seeded", "*", "meta.json"))
rounds = sorted(set(json.load(open(m)).get("round", 1) for m in seeds))
nmut = 0
for mf in glob.glob(os.path.join(ROOT, "mutants", "C*", "manifest.json")):
    nmut += sum(1 for e in json.load(open(mf)) if isinstance(e, dict) and "patch" in e)
st = None
try: st = json.load(open(os.path.join(ROOT, "evidence", "selftest.json")))
except Exception: pass
th = []
for i in range(1, 21):
    try: th.append(json.load(open(os.path.join(ROOT, "evidence", "thorough", "C%02d.json" % i))))
    except Exception: pass
ev_th = sum(e["coverage"].get("evaluations", 0) for e in th)
lines = [
 "* 20 of 20 properties have a registered check (`not_applicable` is empty); on /repo `%s` every quick and every thorough run is quiet apart from the %d listed known findings, exhaustive within its stated bounds (%d thorough snapshots, %s comparisons of the implementation with a reference model in total)." % (head, len(known), len(th), format(ev_th, ",")),
 "* %d genuine defects were found on the pinned tree (table in 10.2): %d `fix:` commits in /repo (%d entries recorded as fixed), %d known findings kept where the repair is not small and safe; the repository's own suite passes unedited with all fixes (456 passed, 0 failed, last run on the final tree)." % (ndef, nfix, len(fixed), len(known)),
 "* %d independently seeded property-breaking changes in %d rounds and %d own mutants (suite-green detected ones, suite-red ones that do not count, neutral ones that must stay silent) are kept under `seeded/` and `mutants/`." % (len(seeds), len(rounds), nmut),
]
if st:
    res = st["results"]; sd = [r for r in res if r["kind"] == "seeded"]; mu = [r for r in res if r["kind"] == "mutant"]
    lines.append("* Last `./selftest` (%s tier): %d runs, %d unexpected; seeded changes detected %d of %d (%d deliberately not claimed); mutants as expected %d of %d (neutral ones stay undetected: %d of %d)." % (
        st.get("tier"), st["mutants_run"], st["unexpected"], sum(1 for r in sd if r["rc"] == 1), len(sd), sum(1 for r in sd if r.get("not_claimed")),
        sum(1 for r in mu if r["as_expected"]), len(mu), sum(1 for r in mu if r["neutral"] and r["rc"] == 0), sum(1 for r in mu if r["neutral"])))
block = "\n".join(lines) + "\n"
a, b = "<!-- SUMMARY-BEGIN -->", "<!-- SUMMARY-END -->"
if a in design:
    design = design[:design.index(a) + len(a)] + "\n" + block + design[design.index(b):]
    open(os.path.join(ROOT, "DESIGN.md"), "w").write(design); print("summary updated")
else:
    print(block)
