#!/usr/bin/env bash
# tools/run_some.sh <quick|thorough> <Cxx>...: like run_all.sh for the listed checks only
cd "$(dirname "$0")/.."
tier="$1"; shift
for id in "$@"; do
  s=$(date +%s); out=$(./check $id $tier 2>&1); rc=$?; e=$(date +%s)
  echo "$id rc=$rc wall=$((e-s))s $(echo "$out" | grep -E '^SUMMARY' | cut -c1-220)"
  echo "$out" | grep -E '^(VIOLATION|MACHINERY)' | head -3 | cut -c1-300
  if [ "$tier" = thorough ]; then mkdir -p evidence/thorough; python3 tools/slim_evidence.py evidence/$id.json evidence/thorough/$id.json; fi
done
