#!/usr/bin/env python3
"""Regenerates the as-built counts table of DESIGN.md (between the ASBUILT-TABLE markers) from evidence/*.json
(quick tier, as last run) and evidence/thorough/*.json (snapshots written by tools/run_all.sh thorough)."""
import json, os, glob
ROOT = os.path.dirname(os.path.dirname(os.path.abspath(__file__)))
def load(p):
    try: return json.load(open(p))
    except Exception: return None
def cell(e):
    if not e: return "-"
    c = e["coverage"]
    s = "%s eval" % format(c.get("evaluations", 0), ",")
    if c.get("states"): s += ", %s states / %s trans." % (format(c["states"], ","), format(c.get("transitions", 0), ","))
    s += ", %.0f s" % e.get("wall_s", 0)
    if c.get("known_finding_cases"): s += ", %s known-finding cases" % format(c["known_finding_cases"], ",")
    if not c.get("exhaustive", True): s += ", CAPPED"
    return s
rows = []
for i in range(1, 21):
    pid = "C%02d" % i
    q = load(os.path.join(ROOT, "evidence", pid + ".json")); t = load(os.path.join(ROOT, "evidence", "thorough", pid + ".json"))
    if q and q.get("tier", "").lower() != "quick": q = None
    rows.append("| %s | %s | %s | %s |" % (pid, (q or t or {}).get("level", "?"), cell(q), cell(t)))
table = "| property | level | quick tier (last run) | thorough tier (last snapshot) |\n|---|---|---|---|\n" + "\n".join(rows) + "\n"
p = os.path.join(ROOT, "DESIGN.md"); s = open(p).read()
a, b = "<!-- ASBUILT-TABLE-BEGIN -->", "<!-- ASBUILT-TABLE-END -->"
if a in s:
    s = s[:s.index(a) + len(a)] + "\n" + table + s[s.index(b):]
    open(p, "w").write(s); print("as-built table updated")
else:
    print(table)
