#!/usr/bin/env python3
"""Generates /verif/MANIFEST.json from the table below and validates it against the schema."""
import json, subprocess, sys, os
ROOT = os.path.dirname(os.path.dirname(os.path.abspath(__file__)))

ALL = ["C%02d" % i for i in range(1, 21)]

# property -> (category, technique, text, note, design_ref)
CHECKS = {
 "C12": ("exploration",
   "bounded exhaustive enumeration of every labeling of a small lattice (binary: every labeling with both classes; multinomial: every partition into 2..4 classes) x the full configuration grid, and every target vector over a small in-support alphabet for the Tweedie GLM, against an own f64 gradient of the documented objective cross-checked by an own Newton solve",
   "Binary: 6/8 lattice points (1-D, duplicated 1-D, 2-D) x every labeling with both classes present (weakly separable ones out of domain at alpha = 0 by an exact integer cone test) x 3 sample orders x feature scales {1,10,100} x alpha {0,.01,1,100} x intercept x initial parameters x label types bool / usize / &str / String with both namings. Multinomial: every partition of 6/7 lattice points into 2, 3, 4 classes x the same grid. Tweedie: power {0,1,1.5,2,3} x link {identity, log, logit} x alpha {0,.1,1} x intercept x every target vector over a 3-letter in-support alphabet, plus single-position out-of-support targets (must be errors). Oracle: gradient norm of the documented objective (sum, alpha/2, intercept unpenalised; Tweedie: 1/2 (deviance + alpha |w|^2)) <= 10 x tolerance, cross-checked by an own damped Newton solve (a case is a violation only if both disagree); trained class set reported; probabilities in [0,1], finite, rows summing to one also for |x.w| up to 1e3; decision == the one the probabilities and the threshold imply outside a 1e-9 margin. Each Tweedie fit runs in a child process with a CPU-time limit so that a non-terminating fit is a reported violation.",
   "Bounded: n <= 8 points, <= 4 classes. Label-type variants are cycled over the enumeration in quick (all run in thorough). For the identity link with power >= 1 an honest Err is accepted (the objective is undefined for mu <= 0). The +1 / -1 coding rule is not judged (rustdoc and tests contradict each other); only the class set is.",
   "DESIGN.md 4/C12"),
 "C13": ("exploration",
   "exhaustive run of an enumerated finite catalogue of datasets x the full configuration grid (kernels, C / nu / eps, solver tolerance, shrinking off and on, f32 / f64, six problem types), each published solution checked against dual feasibility and KKT recomputed with an own kernel function",
   "9 lattice-based dataset families (separable, overlapping with conflicting duplicates, imbalanced 1:4, outliers, exact / noisy lines, curves, duplicate abscissae; n in {8,12,20,40} quick, up to 200 thorough so that shrinking triggers) x 5 kernels x C with three weightings / nu / eps_loss grids x solver eps {1e-3, 1e-7} x shrinking {off, on} x f32 / f64 x {C-SVC, nu-SVC, eps-SVR, nu-SVR, one-class, Pr-calibrated}; 14,246 / 21,196 fits, all must terminate. From the published alpha and rho and an own kernel function: box bounds per class weight, equality constraints, KKT sign conditions with tau = 2 x solver eps + rounding, weighted_sum(x) == sum_j alpha_j K(x_j, x) on training and new x, label == sign, Pr monotone in the decision value, nsupport == #{|alpha| > 100 eps}, consistent exit reason; shrinking on / off compared through the same KKT oracle plus a closed-form permutation test.",
   "A bounded claim over the catalogue x grid. Solver tolerances below the float resolution (f32 x 1e-7, large C*K) can only stop at the 10^7-iteration cap and are excluded by an explicit counted predicate in quick. Samples whose tau is too large are indeterminate. Platt's A, B are private: Pr is checked for range, monotonicity and identity of the underlying solution.",
   "DESIGN.md 4/C13"),
 "C11": ("exploration",
   "exhaustive run of an enumerated finite catalogue of designs x column images x the full parameter grid, against the statement's own perturbation / duality-gap formulation and exact coordinate minimisers",
   "24 lattice designs (full and fractional factorials, n in {4,6,9,12}, p in {1,2,3}, full column rank of [X | 1] verified by own elimination) x column offsets {0, 5, -100} x scales {1e-3, 1, 1e3}, constant- and duplicated-column variants (judged only with a strictly convex penalty), 1..3 targets, f32 and f64 x OLS (intercept on / off), ElasticNet and MultiTaskElasticNet over penalty {0,.01,.1,1,10} x l1_ratio {0,.5,1} x intercept x tolerance: no perturbation of any coefficient (ladder 1e-6..1 and the exact coordinate / block soft-threshold minimiser) or of the intercept lowers the documented objective by more than gap/n; gap >= 0; global check against the harness's own optimum; coefficients under the l1 threshold exactly 0; predict == Xw + b; OLS residual orthogonal to every column and to the constant column.",
   "A bounded claim over the catalogue x grid. Runs that end on the iteration cap are counted, not judged (fits without an l1 part never close the solver's gap on noisy targets, so ridge / unpenalised fits are run but effectively never judged). f32 gap comparisons carry slack scaled by the operand magnitude.",
   "DESIGN.md 4/C11"),
 "C19": ("exploration",
   "exhaustive over the type registry: a run-time scanner lists every serde derive site in the repository and fails the run if one is unregistered; every registered type x instances x lossless formats is round-tripped and compared behaviourally",
   "95 derive / impl sites found by scanning /repo at run time (81 registered directly, 5 through their containing public type, 1 private and unreachable, 8 in dead source whose deadness is verified) - an unregistered site is a machinery error, so a newly serialisable type cannot be silently uncovered. 83 registry entries x fitted instances in f32 and f64 where generic, every parameter set at default / non-default valid / invalid points, every enum variant, OPTICS results, kernels, vectorisers with regex and function tokenisers x {bincode, MessagePack compact and named, CBOR} (+ JSON for float-free types): restored == original where PartialEq is reflexive, identical Debug, every public accessor and every prediction / transform on a query pool bit-identical, same check() verdict, refit bit-identical, continuing fit_with from the restored state identical, ser(de(ser(x))) == ser(x) (skipped with a stated reason for map-holding types), documented tokenizer guard.",
   "Types holding a HashMap are compared behaviourally, never by bytes. Models named in the quantifier that have no serde derive (Platt, DiffusionMap, hierarchical, t-SNE) offer no serialisation and are outside the property.",
   "DESIGN.md 4/C19"),
 "C16": ("exploration",
   "bounded exhaustive enumeration of every small matrix over a value alphabet x 16 scaler / whitener configurations, every (train, unseen) pair of a pool with all row permutations and selections compared bitwise",
   "Every n x p matrix (n 1..4, p 1..3, n*p <= 8/9) over {0, 1, -2, 1001, 1e-3} (constant, all-zero, offset and badly scaled columns, all-zero rows), a tiny-spread family (1e-12, 1e-18, 2^-52), f32 and f64, through standard / no-mean / no-std / neither, min-max with four ranges + a flipped one, max-abs, norm l1 / l2 / max and PCA / ZCA / Cholesky whitening: the post-conditions of the statement on the training matrix, the fitted transform equal to the affine map built from offsets()/scales() resp. transformation_matrix()/mean(), and for every (train A, unseen B) pair transform(B) row i == transform(B[i..i+1]) and commutation with EVERY permutation and EVERY subset of B's rows, bit for bit; whitening on a 702-member full-rank catalogue incl. global scales 1e-10 and 1e9; 384 dataset forms (targets, weights, names pass through unchanged); empty training data and flipped ranges are errors.",
   "Whitening tolerance is condition-scaled (1e-8 + 64 eps cond(cov)); cases above 0.05 are indeterminate. Whiteners are never fitted on rank-deficient data (linfa-linalg's SVD does not terminate on NaN input; a watchdog turns a hang into a machinery error).",
   "DESIGN.md 4/C16"),
 "C18": ("exploration",
   "exhaustive run of an enumerated finite catalogue of matrices x every embedding size (incl. the error sizes) x whitening, against an own Jacobi eigen-decomposition of the sample covariance",
   "164 / 2488 catalogue matrices (n in {6,9,12,20} / 6..20, p in {1,2,3,5}: rank-1 lattices, exactly isotropic sets, axis scales 1:10:100 plain and rotated, low-rank + jitter, offsets 1e3, column scales 1e-3 / 1e3) x every k in 0..=p+1 x whitening off / on, plus empty data. Oracle (own cyclic Jacobi on the n-1 covariance, residual verified per matrix): components orthonormal, singular values non-increasing, each axis aligned with its eigenvector (degenerate blocks compared by projector), variances of the projected data == explained_variance == sigma^2/(n-1) == eigenvalue, retained variance == sum of the k largest eigenvalues (Ky Fan), whitened covariance == I, inverse_transform(transform(X)) == orthogonal projection about the mean, ratios finite and proportional, errors for empty data and sizes outside 1..p, predict == transform.",
   "A bounded claim over the catalogue, not over all matrices. Tolerance 1e-6 for everything that goes through LOBPCG (its documented accuracy; measured maxima of passing fits are 4e-7..9.5e-7), 1e-9 for formulas recomputed from the model's own numbers. (matrix, k) pairs whose k-th eigenvalue is below 100x the solver's null-space cut-off are out of domain; eigenvalue blocks straddling the cut are not aligned with anything.",
   "DESIGN.md 4/C18"),
 "C04": ("exploration",
   "bounded exhaustive enumeration: the full Cartesian product of boundary values of every parameter of every builder, checked against documented predicates transcribed with their source lines",
   "31 builder variants (every builder of the statement; SVM in six variants; the three blanket impls of param_guard.rs through a counting mock) x per-parameter boundary tables (far below, just below, -0.0, +0.0, just inside, inside, far inside, just below / at / just above the upper bound, far above) in f32 and f64, full product per builder (48,256 grid points). Per point: check() and check_ref() give the same verdict and error, the builder is unchanged by check_ref, the verdict equals the documented predicate, an invalid point makes every fit / fit_with / transform form on the unchecked builder return that same error without panicking or training, a valid point behaves like its checked form (fingerprint of the fitted model).",
   "Documented predicates are transcribed by hand from setter rustdoc, range tables and error texts (sources cited per entry in the evidence). Points where those sources contradict each other or a pinning test (listed in the evidence, e.g. GMM reg_covar = 0, SVM nu = 0, Platt minstep = 0, tree min_impurity_decrease in (0, eps)) are consistency-only. Non-finite values are outside the property. A few pathological training calls (solver can only stop at its 10^7 cap) get the verdict oracles only.",
   "DESIGN.md 4/C04"),
 "C06": ("exploration",
   "bounded exhaustive enumeration of record matrices x kernel methods x dense / every sparse k x the three neighbour indices, and of linkage x every cluster count x boundary / midpoint thresholds, against an own kernel function and a tie-exploring Lance-Williams reference",
   "Every subset of 2..5/6 points of the 3x3 lattice (plus generic-position images), 1-D multisets with duplicates, a 3-feature pool, and structured sets above the index leaf size; Linear / Gaussian / Polynomial kernels in f64 and f32; Dense and Sparse(k) for every 0<k<n with each neighbour index, owned kernels and views: every stored cell against the own kernel function, symmetry, Gaussian unit diagonal and PSD (Jacobi), sparse pattern squeezed between 'stored under every tie-break' and 'under some tie-break' of a brute-force ranking (exact on generic sets), size / sum / column / diagonal / upper triangle / dot against the stored matrix, documented panics. Clustering: 7 linkages x NumClusters(1..n+1) x thresholds exactly at and between every dissimilarity: label count == min(c, n), partition reachable by the reference agglomeration (ties followed exhaustively), single linkage == connected components of {d < t}.",
   "Bounded: n <= 6 in the exhaustive families. Heights within rounding of a threshold, Centroid / Median dendrograms with inversions and reference-budget overflows on the large sets are counted indeterminate. The threshold convention follows the statement (merges strictly below the threshold), not the rustdoc wording.",
   "DESIGN.md 4/C06"),
 "C10": ("exploration",
   "exhaustive run of an enumerated finite catalogue of datasets x the full configuration grid x a query menu reaching 1e6 standard deviations, against mixture validity conditions recomputed in plain f64",
   "60/120 deterministic blob datasets (separated, overlapping, anisotropic, far apart, degenerate; 1-3/6 features) x components 1..3 x {KMeans, Random} init x seeds 0..3/15 x reg_covar x tolerance x n_runs x iteration caps; per fitted model: weights > 0 summing to 1, means in the bounding box, covariances symmetric / positive definite (own Cholesky) with the regularised diagonal, precisions x covariances == I within a condition-scaled bound, the M-step moment identities, and for every training row, every component mean and every point at exact Mahalanobis distance {10, 38, 39, 100, 1e3, 1e6} along every axis and diagonal: predict_proba finite, non-negative, summing to one, equal to the posterior of the published parameters; predict in the tie set. An Err from fit is accepted, a panic or a non-finite model is not.",
   "A bounded claim over the catalogue x grid, not over all real matrices. f64 only. 'Failure to converge is an error' is checked as 'Ok implies a valid finite model' (no lock-step reference EM).",
   "DESIGN.md 4/C10"),
 "C14": ("exploration",
   "bounded exhaustive enumeration of every small labelled dataset (all value sequences x all labelings up to renaming) x the full hyper-parameter grid, each fitted tree walked and re-derived from the routed training rows",
   "Every value sequence of n <= 5/6 rows over 1-feature alphabets {0,1,2} / {0..3}, 2-feature lattices, adjacent-float families (f32 at 2^24 and 256, f64 at 2^53 and 2^40) and 1e-5-spaced values x every labeling up to class renaming (up to 6 classes; duplicates with conflicting labels, constant features) x label types usize / bool / String x f32 / f64 x sample weights {none, 1,2,1,2.., 0.5} x {Gini, Entropy} x max_depth {None,0,1,2} x min_weight_split x min_weight_leaf x min_impurity_decrease (144 configurations). Oracle (no linfa code): walk the public tree API, route the training rows with the documented <= rule, and recompute depth limits, child structure, split row counts, side weights, impurity decreases (f64), leaf weighted modes (any tied mode accepted), predict == routed leaf, importances, and the agreement of iter_nodes / max_depth / num_leaves with the walk. The subject runs in worker processes so that a stack overflow of fit is reported instead of killing the check; hash-map order is a controlled input of each case.",
   "Bounded: n <= 6 rows. Impurity decreases are compared with 5e-6 tolerance (f32 arithmetic in the subject); results within that band of min_impurity_decrease are indeterminate. No optimality claim about the chosen split is checked (the statement makes none).",
   "DESIGN.md 4/C14"),
 "C03": ("exploration",
   "bounded exhaustive enumeration of all batches (ordered selections of a 6-row query pool) x memory layouts x calling forms for a registry of every predictor type, against the model applied to each row alone",
   "28 predictor entries (k-means, GMM, OLS, isotonic, Tweedie, elastic net single / multi-task, PLS x3, logistic binary / multinomial, six SVM variants, decision tree, two naive Bayes, FTRL, PCA, FastICA, MultiTargetModel, MultiClassModel incl. a twin member for exact ties, Platt over two inner models) x 3 fitted instances x every ordered selection of 0..3 (quick) / 0..6 (thorough: all 1957 arrangements) pool rows incl. the empty batch x {standard, column-major, every-second-row view, reversed rows} x nine calling forms (owned / borrowed arrays, views, owned / borrowed datasets, predict_inplace into fresh and into dirty targets). Oracle: row i of every batch == the single-row prediction (labels exact, floats within the worst-case gap of two summation orders), records handed back bitwise, wrong-length targets panic with the documented message, composite rules for MultiTarget / MultiClass / Platt.",
   "No f32 predictors in the registry; Platt and FastICA admit owned arrays only (their view forms do not exist). Fitted instances come from fixed deterministic data.",
   "DESIGN.md 4/C03"),
 "C15": ("model_checking",
   "explicit-state exploration of batch histories: every composition of a dataset into ordered batches (prefix-sharing state graph), every batch sequence for mini-batch k-means and FTRL, each real fit_with call stepped in lock-step with a plain-f64 reference recurrence",
   "Naive Bayes (Gaussian, multinomial): every multiset of <=5/6 labelled rows over a 4-value feature alphabet and 3 classes, 1/3 row orders, EVERY composition into ordered non-empty batches (class-incomplete and single-row batches included), three smoothing values; state = sufficient statistics read through the serde image, bit-identical states merged; incremental vs single fit vs textbook estimates, predictions == arg-max of the reference posterior outside a 1e-6 margin. Mini-batch k-means: every sequence of <=3/4 batches from 4 pools x 99 initialisation / tolerance configurations against the running-mean recurrence with cumulative counts, Ok iff shift < tolerance. FTRL: every sequence of <=3/4 batches x 162 hyper-parameter / initial-z configurations against the per-coordinate FTRL-proximal recurrence; weights exactly 0 wherever |z| <= l1 (boundary states reached through a scripted RNG).",
   "Bounded: n <= 6 rows, histories <= 4 batches. Gaussian NB with var_smoothing 1e-3 is measured, not judged, for batch == incremental equality (design decision: the smoothing term is batch-local by construction).",
   "DESIGN.md 3.2, 4/C15"),
 "C09": ("model_checking",
   "bounded exhaustive enumeration of datasets x every data-derived initialisation x iteration budgets, the real fit stepped in lock-step with a reference Lloyd (m_k-means) state graph whose ties branch; exhaustive restart / seed / budget grids",
   "Every 1-D multiset of <=5/8 points of {0..4} and every subset of <=4/6 points of the 3x3 lattice (affine images, f32/f64, L1/L2), k <= 3/4, every k-sub-multiset of the data (plus off-data starts) as Precomputed initialisation, every budget m = 1..6/12: the returned centroids must be a state the reference m_k-means step reaches after m updates (tie resolutions branch in the reference state graph; states/transitions reported), cost never increases with the budget (L2); Random / k-means++ / k-means|| x seeds x caps x restarts: inertia never rises with more restarts from the same seed; every fitted model: shape, finiteness, bounding box, predict / transform against an independent arg-min scan with tie sets on training, lattice, half-lattice and far queries; reported inertia and cluster_count must describe the returned centroids.",
   "Bounded: n <= 8 points. Seeded initialisers are not observable (pub(crate)), so those fits get the structural / restart / describes-returned checks only. Cases whose tie branching exceeds 4096 branches per step are counted indeterminate.",
   "DESIGN.md 4/C09"),
 "C17": ("exploration",
   "bounded exhaustive enumeration of corpora over a small token alphabet x the full settings grid against an own tokeniser + n-gram window + recount",
   "Every token sequence of length 0..3 over a 6-word alphabet (mixed case, combining characters, separators, noise tokens) as documents, every single document and every ordered pair / triple of short documents as corpora; lower-casing x normalisation x 5 tokenisers (regexes and functions) x 6 n-gram ranges; the filtering grid: stop-word sets x all 15 document-frequency windows over {0,.25,.5,.75,1} (products exact) x feature caps; fixed vocabularies incl. duplicates; the three idf methods; every fitted vocabulary applied to unseen corpora. Oracle: own NFKD / lower-case tables, tokenisers, n-gram window and BTreeMap recount; vocabulary compared as a set and as word -> column map; tf-idf == count x documented idf of the transformed corpus.",
   "Feature cap: any top-k by DOCUMENT frequency is accepted (the anchored mechanism ranks by the stored document frequency; the rustdoc of max_features says 'term frequency' - a documentation / code contradiction recorded in DESIGN.md, not judged). fit_files / transform_files are not exercised.",
   "DESIGN.md 4/C17"),
 "C01": ("model_checking",
   "bounded exhaustive exploration of every (n, k, features, target shape, storage kind) with iter_fold stepped as a state machine in lock-step with a reference k-fold on a Vec of tagged rows; fault enumeration over every (model, fold) fit / eval error",
   "Every n <= 12/30 with every 2 <= k <= n, 1-3 features, 1-d and 2-d (1-3 column) targets, owned / view / strided / column-major storage, f64 and f32/u32: fold() pairs against the reference blocks and complements; iter_fold observed through the closure's training view, the yielded validation view and the final buffer at every step (reference buffer permuted in lock-step; dataset must be bit-identical afterwards, also when the iterator is dropped early); cross_validate / cross_validate_single with 1-3 mock models implementing the real Fit / PredictInplace traits, four evaluation closures and an injected fit or eval error at every (model, fold): scores == hand-rolled mean over the reference folds, errors surface as themselves, dataset restored in every outcome.",
   "Bounded: n <= 30. The order of fold()'s training rows is counted, not judged (the statement fixes only the multiset). Degenerate k (0, 1, > n) is recorded without verdict beyond the documented panics.",
   "DESIGN.md 3.2, 4/C01"),
 "C08": ("exploration",
   "bounded exhaustive enumeration of point sets x min_points x boundary / midpoint tolerances x metrics x the three neighbour indices against the DBSCAN / OPTICS definitions",
   "Every row order of every 1-D multiset (<=5/6 values), every subset and ordered selection of 3x3-lattice points, generic-position images, 2x2 duplicates, cube corners, sets above the default leaf size (n = 17..20), bridge families and zero-feature matrices; min_points 2..5; tolerances at every midpoint between distinct inter-point distances (class A) and exactly at each distance (class B, decided only where exact arithmetic decides it); L1/L2/Linf; all three indices compared bit-for-bit. Oracle: core / border / noise / component structure recomputed from an f64 distance table with the open ball, OPTICS permutation + core-distance + reachability-explanation conditions of the statement.",
   "Bounded: n <= 8 points in the exhaustive families (<= 20 in the structured ones). Zero-feature matrices are checked against the deliberate 'nothing clusters' behaviour. OPTICS reachability is checked as the statement words it (some earlier core point explains it), not for minimality.",
   "DESIGN.md 4/C08"),
 "C05": ("exploration",
   "bounded exhaustive enumeration of all (prediction, truth) vectors over small alphabets against definitions recomputed from first principles",
   "Every pair of label vectors (bool n<=6/8; usize and String n<=4/6 over up to 4 symbols, label sets differing between the sides), every score vector over {0,.25,.5,.75,1} (plus clip-boundary values) against every truth vector with both classes, every pair of real vectors over a 6-value alphabet with non-constant truth (f32 and f64, 1 and 2 target columns), every labelled 1-D / 3x3-lattice point set for the silhouette and every small matrix for Pearson; each case re-run under permutations of both sides and through every calling form. Oracles are the documented cell formulas / textbook definitions in plain f64 (Mann-Whitney for AUC, clipped NLL for log-loss).",
   "Follows the cell layout the rustdoc and test_confusion_matrix document (predictions on rows). Scores closer than the implementation's 1e-10 tie tolerance are outside the alphabets; Pearson p-values (unseeded) are not part of the statement.",
   "DESIGN.md 4/C05"),
 "C02": ("model_checking",
   "explicit-state breadth-first exploration of dataset operation histories, real DatasetBase API stepped in lock-step with a Vec<TaggedRow> reference model",
   "States are identity-tagged datasets (record tag, target tag, weight, names, layout flag); every action of the listed alphabet (ratio splits of owned data and views for 6 ratios, shuffle, the three bootstraps, with_labels for every label subset, one_vs_all, map_targets, to_owned, view, into_single_target, chunking, the three iterators, fold) is applied through the real API to the owned value and to its view, every returned dataset is observed through the public accessors and compared with the same operation on the reference rows; successors are canonicalised and de-duplicated; random choices (shuffle permutations, bootstrap index vectors) are enumerated through a scripted RNG. Depth 2 (quick) / 3-4 (thorough) from 132/148 seed datasets, all histories - so non-initial states are covered.",
   "Bounded: n <= 6 samples, depth <= 4; randomised operations are judged on their contract only; live ndarray views exist within one transition (results are materialised between steps).",
   "DESIGN.md 3.2, 4/C02"),
 "C07": ("exploration",
   "bounded exhaustive enumeration of point sets x queries x k x boundary radii against a brute-force reference",
   "Every multiset of <=5 points of a 1-D lattice, every subset of <=5/6 points of the 3x3 lattice (plus generic-position images and a dimension sweep to d=16), every lattice / half-lattice query, every k in 0..n+2, every radius that is exactly an inter-point distance or a midpoint between two, all leaf sizes, five metrics, f32 and f64, all three index kinds: answers compared with a brute-force distance table, and the three kinds compared with each other on points lying exactly on the radius. Exhaustive within those bounds, so tie handling and boundary behaviour are decided, not sampled.",
   "Reference distances are recomputed in f64 from the coordinates as rounded to the subject's float type; points within 1e-11 (f64) / 2e-5 (f32) of a radius that are not exactly on it are indeterminate. Bounded claim: n <= 6 points.",
   "DESIGN.md 4/C07"),
 "C20": ("model_checking",
   "stateless exploration of the real code under controlled nondeterminism: depth-first enumeration of all fork-join scheduling scripts under a stand-in rayon-core, enumeration of per-process hash seeds through an LD_PRELOAD getrandom seam with hook-measured order coverage, all pool sizes 1..16",
   "Owns the three nondeterminism sources of the statement. (1) Schedules: real rayon + ndarray::parallel + linfa k-means closures run on a stand-in rayon-core whose join/join_context decisions (branch order, steal flag) come from a script; every script is enumerated depth-first (all scripts for short seams, all scripts with <= 3/4 non-default decisions for longer ones) for predict / transform / 1-2 Lloyd iterations / k-means++ on 4..8 rows and T = 1..4; the outcome must be bit-identical to the default schedule's. (2) Hash-map order: 40 estimator fits (every family of the statement, tie datasets) run in child processes whose RandomState keys are fixed by a getrandom shim; seeds are enumerated until observation hooks in linfa report every key order (<= 3 keys) at every order-sensitive site. (3) Pool sizes: RAYON_NUM_THREADS = 1..16, plus unsalted process re-runs and 3 in-process repetitions. One fingerprint per estimator is demanded across all of it.",
   "Schedule space = series-parallel linearisations + steal patterns of the join tree (leaves contain no synchronisation), not arbitrary cross-subtree interleavings; fingerprints cover what the public API exposes; 64-bit hash collisions ignored; k-means||, t-SNE, unseeded FastICA, permutation p-values excluded by the statement.",
   "DESIGN.md 3.3, 3.4, 4/C20"),
}


# Dimensions added after the first version of each check (rounds 3-4 of the independently seeded changes showed the
# same blind spots in several checks: memory layout, size thresholds, f32, builder histories, stale buffers, extremes).
# Appended to the level text; the authoritative, generated description of what a run covered is the `rule` field of
# each evidence file.
ADDENDA = {
 "C01": "Added later: storage layouts (column-major, transposed, reversed, sliced-out-of-a-larger-allocation owned arrays with sliced weights), the size family n in {1025, 4097} x k in {2,3,7,1024,n}, mock models that write only part of the prediction buffer and have their own default_target (the predictions seen by the evaluation closure must equal model_j.predict recomputed by the harness).",
 "C02": "Added later: a hidden memory layout per container (standard, column-major, sliced, reversed, every-second-row with poison outside), label types bool / &str / String / i64 next to usize, single transitions on 1025- / 4097-row datasets incl. chunk sizes {1, 1024, 1025, n}.",
 "C03": "Added later: batches of 1025 / 4097 rows x five memory layouts x ten calling forms for 21 predictors (9 also in f32), rows {0,1,1023,1024,n-1} (thorough: all) against single-row prediction, fit-side layouts for the deterministic fits, extreme-magnitude query rows, single-member composing wrappers, reused output buffers from a different batch.",
 "C04": "Added later: builder histories (every rebuilding / type-changing setter before and after the value setters, valid-invalid-moved sequences: parameters, verdicts and first training form must equal the freshly built set), valid extremes (largest finite float, u32::MAX counts, array-valued logistic initial_params at MAX / MIN_POSITIVE / subnormal / -0.0 must be accepted).",
 "C05": "Added later: non-standard layouts of every prediction / truth / record argument (reversed, stepped, column-major, transposed views of poisoned parents), vectors replicated to n in {1025, 4097} with closed-form values, f32 silhouette, scaled copies for the scale-invariant / -equivariant metrics.",
 "C06": "Added later: records in five memory layouts for every kernel kind and index (k-d tree contiguity panic accepted and counted), layouts of the dot right-hand side and of the dense inner matrix, a 1025-record family, builder histories for kernel and clustering parameters (all setter orders, overwrites, defaults).",
 "C07": "Added later: column-major and reversed-row batches, deep trees (4x4 lattice minus <= 1/2 points, 5x5 lattice with duplicates, 34/70 1-D points, 3x3x3 lattice, fixed generic-position scatters of 40/100 points in 2-D / 3-D / 8-D in three input orders) with leaf sizes {default via from_batch, 1, 4, 16, ...}.",
 "C08": "Added later: five record layouts for array and dataset forms (bit-identical to the standard layout; k-d tree contiguity panic accepted), 1025-point sets, f32 at that size, builder histories (three constructors x every sequence of <= 3 tolerance / nn_algo / dist_fn writes with decoys).",
 "C09": "Added later: layout sweep (fit, batch / single-row predict, transform bit-identical to the standard layout), replicated families n in {1024, 1025, 2049, 3000, 4097}, wide features d in {16, 17, 33, 40}, f32 at size, Linf / Lp metrics.",
 "C10": "Added later: f32 sweep, budget ladder for convergence reporting, five record layouts for fit / predict / predict_proba, datasets of 1025 / 4097 rows, builder histories (all 720 setter orders incl. with_rng + decoy writes: getters and fits must equal the canonical order).",
 "C11": "Added later: record / target layouts for fit and predict, replicated designs with n in {1025, 4097}.",
 "C12": "Added later: five record layouts, lattices cycled to 1025 / 4097 rows, f32 models (in a CPU-limited child process), builder histories (120 / 720 setter orders, decoy writes, every constructor), predict_inplace into poisoned / reused buffers and through MultiTargetModel.",
 "C13": "Added later: five record layouts for fit / predict / weighted_sum (bit-identical), n = 1025 members, f32 layouts.",
 "C14": "Added later: five record layouts for fit and predict (trees bit-identical), datasets cycled to 1025 / 4097 rows, all 120 orders of the five setters with decoy writes.",
 "C15": "Added later: every batch of a history in its own memory layout (all 5^L assignments), batches of 1025 / 4097 rows, f32 learners, builder histories of the incremental learners' parameter types, verdicts judged exactly only when the reference arithmetic is exact.",
 "C16": "Added later: four memory layouts for fit and transform, an extreme-magnitude family (subnormal .. 1e300 / 1e38), long matrices with 1025 / 4097 rows.",
 "C17": "Added later: seven document-array layouts for fit and transform independently, builder histories (every ordered pair of 12 settings, same object and clone, fit and check_ref first steps).",
 "C18": "Added later: four record layouts for fit / predict / transform, n in {1024, 1025, 1500, 2048, 4097}, single-row vs batch projection, predict_inplace buffer re-use.",
 "C19": "Added later: boundary values of every parameter type (None / Some(0) / Some(1) / huge for optional fields, every enum variant, zeros and extremes), one fitted instance per reachable state of Result / Option-typed model fields (error kinds compared), a field audit that reports optional fields never seen at Some(0).",
 "C20": "Added later: hard inputs where fallback / retry / error paths run (non-converging diffusion map, PCA where LOBPCG breaks down, iterative fits stopped by their budget, empty clusters), 5000-row GMM / k-means, non-dyadic weighted multi-class trees.",
}


# second batch (rounds 4-6 of the seeded changes: builder histories, stale buffers, cross-crate routes, scale / subtle changes)
ADDENDA2 = {
 "C01": "Rounds 4-6: unchecked hyper-parameter mocks that reach Fit only through the blanket ParamGuard impl (the typed check error must come back unchanged), empty candidate slices, feature counts 4-9, reversed feature axis.",
 "C02": "Rounds 4-7: scripted random generator with lock-step comparison against rand's own gen_range / shuffle and index coverage, weight vectors with exact zeros / a whole class at zero / all ones, label accessors (`labels()`, `label_set()`, `label_frequencies()`) checked on every returned dataset through method-call syntax.",
 "C03": "Rounds 4-7: definitional sigmoid oracle in log space with decision-value ladders, near-tied / tiny / repeated-label members for MultiClassModel, extreme-magnitude query rows in every pool, single-member composing wrappers and 0-3 row batches with shape checks, poisoned / foreign-batch output buffers for every predict_inplace.",
 "C04": "Rounds 4-6: structural error oracle (documented wrapping variant per calling form, not `E::from`), whole-result comparison (records, targets, weights, names) of unchecked vs checked dataset forms.",
 "C05": "Rounds 4-7: translated copies (offsets up to 1e9, non-dyadic steps) next to scaled ones, target-container family (views, datasets, CountedTargets from with_labels with present / absent / subset labels, one_vs_all, map_targets, into_single_target) for confusion matrix, silhouette, roc / log_loss; scaled copies with purely relative tolerances.",
 "C06": "Rounds 4-6: sub-unit scales on more than 16 records, feature counts 4-9 in generic position, reversed feature axis.",
 "C07": "Rounds 4-6: feature counts not a multiple of 4 (4,5,6,7,9,17), reversed feature axis for batch rows and query points, layouts for every metric in the dimension sweep.",
 "C08": "Rounds 4-6: multisets embedded in 4-9 features with the deciding coordinate cycling through every index, Lp(3), 0.1 / 0.125-scaled families with tolerances below 1 and more than 16 points per index, reversed feature axis.",
 "C09": "Rounds 4-6: builder histories (24 setter orders + decoys, three constructors), predict_inplace into stale buffers, reversed feature axis (views and owned), wide family d in {4..40} at scale 1 and 0.125 with every metric, fit / predict calling forms incl. one-row batches.",
 "C10": "Rounds 4-6: every calling form of predict (arrays, datasets, views, in-place, single- and two-member MultiTargetModel) against the arg-max of predict_proba on full / one-row / two-row batches, reversed feature axis.",
 "C11": "Rounds 4-7: documented stopping rule as an oracle (gap <= tol*||y_c||^2), equivariance under target scaling, builder / constructor family (120 setter orders, new / default / params / ridge / lasso), predict_inplace on stale buffers, correlated and suppressor designs, `iteration_cap_on_easy_problem` judged against the harness's own coordinate descent, target scales and the documented gap stopping rule.",
 "C12": "Rounds 4-6: unset-parameter subsets against the documented defaults (default link per power), target layouts, label naming through map_targets, every predict calling form incl. one-row batches, feature scale 0.125 and 4-9 features, reversed feature axis.",
 "C13": "Rounds 4-6: builder histories over all SvmParams setters with decoys, stale buffers, feature counts 4-9 at sub-unit pitch, sparse Gaussian kernels, calling-form family for fit (target containers and layouts) and predict, class-ratio family with judged Platt failures.",
 "C14": "Rounds 4-6: six layouts of records x target views x weight layouts, predict / fit calling forms and core helpers (map_targets, into_single_target, with_labels), wide family with 4-9 features, weight vectors with exact zeros.",
 "C15": "Rounds 4-6: L1 / LInf / Lp(3) mini-batch k-means, feature counts 1-9 at scales 1 and 0.125, reversed feature axis, seven fit_with calling forms per batch (all 7^L assignments), every predict calling form.",
 "C16": "Rounds 4-6: constructor / setter histories, no-state-leak sequences (fit A, B, A; transform A, B, A), wide family with 4-9 features, dataset:core family (target / weight layouts, both constructors), owned arrays sliced in place at the front, all-ones / all-zeros weights compared with the array originally given.",
 "C17": "Rounds 4-6: (no further dimension needed: the round-5 and round-6 seeds were detected at first run).",
 "C18": "Rounds 4-6: call-history cases (builder forms, same params fitted A-B-A, same model used A-B-A, poisoned / reused predict_inplace buffers, calling forms of fit / predict / transform incl. weighted datasets and to_owned() of every layout), p in {1..9}, reversed feature axis.",
 "C19": "Rounds 4-7: instances with generic floats (not f32-representable, sums a few ulp off) and audits for them, generation histories over {round trip, repair, use} for types with a repair API, mutation histories for incremental models, memory layout as state (column-major data variant of every case, column-major Precomputed centroids / initial_params / hyperplanes, layout audit).",
 "C20": "Rounds 4-7: seed values 0 / 1 / MAX for every seeded estimator, PLS-SVD, L1 f32 k-means, sparse kernels with every index on a lattice, f32 SVM / logistic, a 20000-row k-means entry (size-gated parallel paths), every public accessor of every fitted model in the fingerprints (accessor audit) plus key-sorted serde forms for learned quantities without accessors, unbalanced naive-Bayes classes, one-vs-all with saturated probability ties, bit-for-bit tied candidate splits, an in-place refit history entry (`history_dependence.*`).",
}

def main():
    checks = []
    for pid in ALL:
        if pid not in CHECKS:
            continue
        cat, tech, text, note, ref = CHECKS[pid]
        checks.append({
            "property_id": pid,
            "quick_cmd": "./check %s quick" % pid,
            "thorough_cmd": "./check %s thorough" % pid,
            "evidence_file": "/verif/evidence/%s.json" % pid,
            "replay_cmd_template": "./check %s --replay {path}" % pid,
            "engine": "lvmc",
            "level_claimed": {"category": cat, "text": text + (" " + ADDENDA[pid] if pid in ADDENDA else "") + (" " + ADDENDA2[pid] if pid in ADDENDA2 else ""), "design_ref": ref},
            "level_note": note,
            "technique": tech,
        })
    na = [{"property_id": p, "reason": "check not built yet (work in progress; planned in DESIGN.md section 4) - not claimed until its check exists and is quiet on the unchanged tree"}
          for p in ALL if p not in CHECKS]  # empty once every property has a check: nothing is declared not applicable
    hooks_commits = []
    hf = os.path.join(ROOT, "tools", "hook_commits.txt")
    if os.path.exists(hf):
        hooks_commits = [l.strip() for l in open(hf) if l.strip()]
    m = {
        "version": 1,
        "setup_cmd": "./setup.sh",
        "hooks": {
            "guard": "--cfg linfa_verif",
            "enable": "RUSTFLAGS='--cfg linfa_verif' via /verif/harness/.cargo/config.toml; check crates depend on /repo crates by path, so every check rebuilds from /repo's working tree",
            "baseline_off_cmd": "cd /repo && cargo test --workspace --no-fail-fast --offline",
            "source_commits": hooks_commits,
            "add_only": True,
        },
        "engines": [
            {"name": "lvmc", "path": "/verif/harness", "serves_properties": [c["property_id"] for c in checks],
             "kind_free_text": "own bounded-exhaustive enumerators + explicit-state lock-step explorer (implementation vs reference model), running the real linfa code; see DESIGN.md section 3"},
            {"name": "sched", "path": "/verif/harness-sched", "serves_properties": ["C20"],
             "kind_free_text": "controlled fork-join scheduler: crates.io rayon-core patched by a script-driven stand-in; depth-first enumeration of scheduling scripts over the real rayon / ndarray / linfa code"},
            {"name": "hashseed", "path": "/verif/preload/getrandom_shim.c", "serves_properties": ["C20"],
             "kind_free_text": "LD_PRELOAD getrandom seam that makes the per-process HashMap seed an enumerated, replayable input"},
        ],
        "checks": checks,
        "notes": "Driver: ./check <Cxx> quick|thorough|--replay <file>. known_findings.json lists genuine defects (fixed ones suppress nothing).",
        "not_applicable": na,
    }
    out = os.path.join(ROOT, "MANIFEST.json")
    json.dump(m, open(out, "w"), indent=1)
    try:
        import jsonschema
        jsonschema.validate(m, json.load(open("/root/.vp/MANIFEST.schema.json")))
        print("MANIFEST.json valid,", len(checks), "checks,", len(na), "not claimed")
    except ImportError:
        print("jsonschema not importable; wrote without validation")

if __name__ == "__main__":
    main()
