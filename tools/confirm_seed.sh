#!/usr/bin/env bash
# tools/confirm_seed.sh <worktree> <change-dir> <demo-dest-relative> <crate> <test-name> [extra crates for suite]
# Confirms a seeded change: suite green WITH the change, demo fails WITH it, demo passes WITHOUT it.
set -u
WT="$1"; CH="$(readlink -f "$2")"; DEST="$3"; CRATE="$4"; TNAME="$5"; shift 5
export CARGO_NET_OFFLINE=true CARGO_TARGET_DIR="$WT/target"
cd "$WT" || exit 2
git checkout -q -- . ; git clean -qfd -e out -e target
git apply "$CH/patch.diff" || { echo "CONFIRM patch does not apply"; exit 2; }
pk="-p $CRATE"; for c in "$@"; do pk="$pk -p $c"; done
if cargo test --offline $pk >"$CH/suite_with_change.log" 2>&1; then echo "CONFIRM suite-with-change=green ($(grep -c '\.\.\. ok$' "$CH/suite_with_change.log") ok)"; else echo "CONFIRM suite-with-change=RED"; grep -E "FAILED|panicked" "$CH/suite_with_change.log" | head -5; fi
mkdir -p "$(dirname "$DEST")"; cp "$CH/demo.rs" "$DEST"
if cargo test --offline -p "$CRATE" --test "$TNAME" >"$CH/demo_with_change.log" 2>&1; then echo "CONFIRM demo-with-change=PASS (unexpected)"; else echo "CONFIRM demo-with-change=fail (expected) : $(grep -E '^test result' "$CH/demo_with_change.log" | head -1)"; fi
git checkout -q -- .
if cargo test --offline -p "$CRATE" --test "$TNAME" >"$CH/demo_without_change.log" 2>&1; then echo "CONFIRM demo-without-change=pass (expected) : $(grep -E '^test result' "$CH/demo_without_change.log" | head -1)"; else echo "CONFIRM demo-without-change=FAIL (unexpected)"; fi
rm -f "$DEST"; git checkout -q -- . ; git clean -qfd -e out -e target
