#!/usr/bin/env bash
# tools/run_all.sh <quick|thorough>: runs every registered check once, prints one line per check.
cd "$(dirname "$0")/.."
tier="${1:-quick}"
for id in $(python3 -c "import json; print(' '.join(c['property_id'] for c in json.load(open('MANIFEST.json'))['checks']))"); do
  s=$(date +%s); out=$(./check $id $tier 2>&1); rc=$?; e=$(date +%s)
  echo "$id rc=$rc wall=$((e-s))s $(echo "$out" | grep -E '^SUMMARY' | cut -c1-220)"
  echo "$out" | grep -E '^(VIOLATION|MACHINERY)' | head -3 | cut -c1-300
  # keep a snapshot of the thorough-tier evidence (evidence/<id>.json is rewritten by every run)
  if [ "$tier" = thorough ]; then mkdir -p evidence/thorough; python3 tools/slim_evidence.py evidence/$id.json evidence/thorough/$id.json; fi
done
