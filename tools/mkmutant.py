#!/usr/bin/env python3
"""mkmutant.py <Cxx> <name> <repo-relative-file> <old> <new>  -> writes /verif/mutants/<Cxx>/<name>.diff
Creates the diff by editing a scratch copy of the file from /repo HEAD (never touches /repo)."""
import sys, subprocess, os, tempfile
cid, name, rel, old, new = sys.argv[1:6]
src = subprocess.check_output(["git", "-C", "/repo", "show", "HEAD:" + rel]).decode()
if src.count(old) != 1:
    sys.exit("pattern occurs %d times in %s" % (src.count(old), rel))
mut = src.replace(old, new)
d = tempfile.mkdtemp()
a = os.path.join(d, "a"); b = os.path.join(d, "b")
os.makedirs(os.path.dirname(os.path.join(a, rel))); os.makedirs(os.path.dirname(os.path.join(b, rel)))
open(os.path.join(a, rel), "w").write(src); open(os.path.join(b, rel), "w").write(mut)
p = subprocess.run(["diff", "-u", os.path.join("a", rel), os.path.join("b", rel)], cwd=d, capture_output=True, text=True)
out = "/verif/mutants/%s/%s.diff" % (cid, name)
os.makedirs(os.path.dirname(out), exist_ok=True)
lines = p.stdout.splitlines(True)
lines[0] = "--- a/%s\n" % rel; lines[1] = "+++ b/%s\n" % rel
open(out, "w").write("".join(lines))
print("wrote", out)
