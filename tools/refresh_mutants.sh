#!/usr/bin/env bash
# tools/refresh_mutants.sh [Cxx ...]: re-bases every mutants/Cxx/*.diff (and seeded/*/patch.diff) that no
# longer applies to /repo HEAD, using reduced-context / fuzzy application in a scratch worktree, and
# rewrites the diff from the result. Reports what it did; never touches /repo's working tree.
set -u
VR="$(cd "$(dirname "$0")/.." && pwd)"
WT=/tmp/lvmc-refresh-wt
git -C /repo worktree remove --force "$WT" >/dev/null 2>&1; rm -rf "$WT"
git -C /repo worktree add --detach "$WT" HEAD >/dev/null 2>&1 || exit 2
trap 'git -C /repo worktree remove --force "$WT" >/dev/null 2>&1; git -C /repo worktree prune' EXIT
list=$(ls "$VR"/mutants/C*/*.diff "$VR"/seeded/*/patch.diff)
for p in $list; do
  if [ $# -gt 0 ]; then ok=0; for c in "$@"; do case "$p" in */$c/*|*/$c-*) ok=1;; esac; done; [ $ok = 1 ] || continue; fi
  git -C "$WT" checkout -q -- . ; git -C "$WT" clean -qfd
  if git -C "$WT" apply --check "$p" 2>/dev/null; then continue; fi
  if git -C "$WT" apply -C1 --recount "$p" 2>/dev/null || (cd "$WT" && patch -p1 -F3 -s --no-backup-if-mismatch < "$p" >/dev/null 2>&1); then
    find "$WT" -name '*.orig' -o -name '*.rej' | xargs -r rm -f
    git -C "$WT" diff > "$p.new"
    if [ -s "$p.new" ]; then mv "$p.new" "$p"; echo "REBASED $p"; else rm -f "$p.new"; echo "EMPTY-AFTER-REBASE $p (already in the tree?)"; fi
  else
    echo "CANNOT-REBASE $p"
  fi
done
