#!/usr/bin/env bash
# tools/process_seeds.sh <Cxx> <slug1> <slug2>
# env SEED_PREFIX (default seed), SEED_ROUND (default 2). For /tmp/<prefix>-Cxx/out/change{1,2}: confirm (suite green with change, demo fails with / passes without),
# ingest into /verif/seeded/Cxx-<slug>/, run the quick check on it, write meta.json (breaks / needs are
# taken from the first lines of notes.md; edit afterwards if needed). Prints one summary line per change.
set -u
P="$1"; shift
VR="$(cd "$(dirname "$0")/.." && pwd)"
i=0
for slug in "$@"; do
  i=$((i+1)); ch=/tmp/${SEED_PREFIX:-seed}-$P/out/change$i; f=$ch/demo.rs
  [ -f "$ch/patch.diff" ] || { echo "SEED $P change$i: no patch"; continue; }
  dest=$(grep -m1 -i 'where to put' $f | sed 's/.*[Ww]here to put it: *//' | awk '{print $1}' | tr -d '`')
  spec=$(grep -m1 -o -- '-p [a-z-]* --test [a-zA-Z0-9_]*' $f); crate=$(echo $spec | awk '{print $2}'); tn=$(echo $spec | awk '{print $4}')
  extra=$(grep -m1 -i 'crates whose tests must stay green:' $f | sed 's/.*green: *//' | tr -d '`,' | tr ' ' '\n' | grep -v "^$crate\$" | tr '\n' ' ')
  conf=$("$VR/tools/confirm_seed.sh" /tmp/${SEED_PREFIX:-seed}-$P $ch "$dest" "$crate" "$tn" $extra 2>&1 | grep CONFIRM | sed 's/CONFIRM //' | cut -c1-60 | tr '\n' ';')
  d="$VR/seeded/$P-$slug"; mkdir -p "$d"; cp $ch/patch.diff $ch/demo.rs $ch/notes.md "$d/"; [ -f $ch/demo_cargo_toml.diff ] && cp $ch/demo_cargo_toml.diff "$d/"
  out=$("$VR/tools/mutant_run.sh" $P "$d/patch.diff" quick 2>&1)
  res=$(echo "$out" | grep -o "rc=[0-9]* ([A-Za-z-]*)" | tail -1)
  sigs=$(echo "$out" | grep -o "sig=[^ ]*" | sort -u | head -4 | tr '\n' ' ')
  verdict="detected"; echo "$res" | grep -q "rc=1" || verdict="missed"
  python3 - "$d" "$P" "$slug" "$verdict" "$sigs" "$conf" "${SEED_ROUND:-2}" <<'PY'
import json, sys
d, P, slug, verdict, sigs, conf, rnd = sys.argv[1:8]
json.dump({"property": P, "round": int(rnd), "origin": "independent sub-agent given only the property record and a scratch worktree of /repo (no access to /verif)",
  "breaks": slug.replace('-', ' '), "needs_to_manifest": "see notes.md",
  "confirmed": conf, "check_result_first_run": verdict, "signatures": sigs.strip(),
  "how_to_run": "tools/mutant_run.sh %s seeded/%s-%s/patch.diff quick" % (P, P, slug)}, open(d + "/meta.json", "w"), indent=1)
PY
  echo "SEED $P-$slug: [$conf] check=$res $sigs"
done
