#!/usr/bin/env python3
"""Regenerates the seeded-change table of DESIGN.md (between the SEED-TABLE markers) from seeded/*/meta.json."""
import json, glob, os, re
ROOT = os.path.dirname(os.path.dirname(os.path.abspath(__file__)))
st = {}
try:
    for r in json.load(open(os.path.join(ROOT, "evidence", "selftest.json")))["results"]:
        if r["kind"] == "seeded": st[r["patch"].split("/")[1]] = r
except Exception:
    pass
rows = []
for mf in sorted(glob.glob(os.path.join(ROOT, "seeded", "*", "meta.json"))):
    m = json.load(open(mf)); name = os.path.basename(os.path.dirname(mf))
    first = m.get("check_result_first_run", "?")
    first = "**missed**" if first.startswith("missed") else "detected"
    now = m.get("now") or ("detected" if first == "detected" else m.get("signatures", ""))
    if first != "detected" and not m.get("now"):
        now = "detected after strengthening (" + m.get("signatures", "").strip("() ") + ")"
    r = st.get(name)
    if r and not str(m.get("now", "")).startswith("NOT claimed"):
        # the last ./selftest run is the authority for the "now" column
        now = ("detected: " + ", ".join(r["signatures"][:3]) + (" ..." if len(r["signatures"]) > 3 else "")) if r["rc"] == 1 else ("NOT DETECTED in the last selftest" if r["rc"] == 0 else "machinery error in the last selftest")
    needs = m.get("needs_to_manifest", "")
    if needs == "see notes.md":
        needs = "(see seeded/%s/notes.md)" % name
    rows.append("| %s | %s | %s | %s | %s |" % (name, m.get("breaks", "").replace("|", "/"), needs.replace("|", "/"), first, now.replace("|", "/")))
table = "| seeded change (directory under seeded/) | what it does | needs to manifest | first run | now |\n|---|---|---|---|---|\n" + "\n".join(rows)
n = len(rows); missed = sum(1 for r in rows if "**missed**" in r)
nc = [os.path.basename(os.path.dirname(mf)) for mf in glob.glob(os.path.join(ROOT, "seeded", "*", "meta.json")) if str(json.load(open(mf)).get("now", "")).startswith("NOT claimed")]
if st:
    undet = sorted(k for k, r in st.items() if r["rc"] != 1 and k not in nc)
    now_sentence = "In the last `./selftest` run (%d seeded changes re-run against the current checks) %d are detected by the quick tier, %d deliberately not claimed (%s)%s." % (
        len(st), sum(1 for r in st.values() if r["rc"] == 1), len(nc), ", ".join(nc) or "-",
        ("; NOT detected: " + ", ".join(undet)) if undet else "; none is undetected - every first-run miss was closed by widening the enumerated space (column `now`)")
else:
    now_sentence = "Every first-run miss was closed by widening the enumerated space (column `now`)."
import collections
per = collections.OrderedDict()
for mf in sorted(glob.glob(os.path.join(ROOT, "seeded", "*", "meta.json"))):
    m = json.load(open(mf)); r = m.get("round", 1)
    a = per.setdefault(r, [0, 0]); a[0] += 1
    if m.get("check_result_first_run", "").startswith("missed"): a[1] += 1
table += "\n\n%d seeded changes in %d rounds (each later round was told what the earlier ones had used and asked for a different kind of hiding place); first-run result of the quick tier per round: %s. %d were missed at first run in total. %s\n" % (
    n, len(per), "; ".join("round %s: %d of %d detected" % (r, a[0] - a[1], a[0]) for r, a in sorted(per.items())), missed, now_sentence)
p = os.path.join(ROOT, "DESIGN.md"); s = open(p).read()
a, b = "<!-- SEED-TABLE-BEGIN -->", "<!-- SEED-TABLE-END -->"
if a in s:
    s = s[:s.index(a) + len(a)] + "\n" + table + s[s.index(b):]
    open(p, "w").write(s); print("table updated:", n, "rows,", missed, "first-run misses")
else:
    print(table)
