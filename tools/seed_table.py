#!/usr/bin/env python3
"""Regenerates the seeded-change table of DESIGN.md (between the SEED-TABLE markers) from seeded/*/meta.json."""
import json, glob, os, re
ROOT = os.path.dirname(os.path.dirname(os.path.abspath(__file__)))
rows = []
for mf in sorted(glob.glob(os.path.join(ROOT, "seeded", "*", "meta.json"))):
    m = json.load(open(mf)); name = os.path.basename(os.path.dirname(mf))
    first = m.get("check_result_first_run", "?")
    first = "**missed**" if first.startswith("missed") else "detected"
    now = m.get("now") or ("detected" if first == "detected" else m.get("signatures", ""))
    if first != "detected" and not m.get("now"):
        now = "detected after strengthening (" + m.get("signatures", "").strip("() ") + ")"
    needs = m.get("needs_to_manifest", "")
    if needs == "see notes.md":
        needs = "(see seeded/%s/notes.md)" % name
    rows.append("| %s | %s | %s | %s | %s |" % (name, m.get("breaks", "").replace("|", "/"), needs.replace("|", "/"), first, now.replace("|", "/")))
table = "| seeded change (directory under seeded/) | what it does | needs to manifest | first run | now |\n|---|---|---|---|---|\n" + "\n".join(rows)
n = len(rows); missed = sum(1 for r in rows if "**missed**" in r)
import collections
per = collections.OrderedDict()
for mf in sorted(glob.glob(os.path.join(ROOT, "seeded", "*", "meta.json"))):
    m = json.load(open(mf)); r = m.get("round", 1)
    a = per.setdefault(r, [0, 0]); a[0] += 1
    if m.get("check_result_first_run", "").startswith("missed"): a[1] += 1
table += "\n\n%d seeded changes in %d rounds (each later round was told what the earlier ones had used and asked for a different kind of hiding place); first-run result of the quick tier per round: %s. %d were missed at first run in total; every one of them is detected now, after the enumerated space was widened (column `now`).\n" % (
    n, len(per), "; ".join("round %s: %d of %d detected" % (r, a[0] - a[1], a[0]) for r, a in sorted(per.items())), missed)
p = os.path.join(ROOT, "DESIGN.md"); s = open(p).read()
a, b = "<!-- SEED-TABLE-BEGIN -->", "<!-- SEED-TABLE-END -->"
if a in s:
    s = s[:s.index(a) + len(a)] + "\n" + table + s[s.index(b):]
    open(p, "w").write(s); print("table updated:", n, "rows,", missed, "first-run misses")
else:
    print(table)
