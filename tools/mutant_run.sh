#!/usr/bin/env bash
# Isolated mutant run:  tools/mutant_run.sh <Cxx> <patch.diff> [quick|thorough] [--tests <crate>[,<crate>..]]
# Applies the patch to a scratch git worktree of /repo (never to /repo), points a scratch copy of
# the harness at it, runs the check, prints its verdict lines and "MUTANT-RESULT ... rc=<n>".
# With --tests, also runs `cargo test -p <crate>` in the worktree first (existing suite must stay green).
# Build output is cached per property under /tmp/lvmc-mt/<Cxx> (remove it when done: tools/mutant_run.sh --clean <Cxx>).
set -u
if [ "${1:-}" = "--clean" ]; then rm -rf "/tmp/lvmc-mt/$2"; exit 0; fi
ID="$1"; PATCH="$(readlink -f "$2")"; TIER="${3:-quick}"
TESTS=""
if [ "${4:-}" = "--tests" ]; then TESTS="${5:-}"; fi
pkg="$(echo "$ID" | tr 'A-Z' 'a-z')"
VR="$(cd "$(dirname "$0")/.." && pwd)"
BASE="/tmp/lvmc-mt/$ID"
WT="$BASE/repo"; HC="$BASE/harness"; OUT="$BASE/verif"
mkdir -p "$BASE" "$OUT/evidence/replay"
export CARGO_NET_OFFLINE=true
cleanup() { git -C /repo worktree remove --force "$WT" >/dev/null 2>&1; rm -rf "$WT"; git -C /repo worktree prune >/dev/null 2>&1; }
cleanup
git -C /repo worktree add --detach "$WT" HEAD >/dev/null 2>&1 || { echo "MUTANT-RESULT property=$ID error=worktree"; exit 2; }
trap cleanup EXIT
if ! git -C "$WT" apply "$PATCH"; then echo "MUTANT-RESULT property=$ID patch=$(basename "$PATCH") error=patch-does-not-apply"; exit 2; fi
if [ -n "$TESTS" ]; then
  args=""; for c in $(echo "$TESTS" | tr ',' ' '); do args="$args -p $c"; done
  if (cd "$WT" && CARGO_TARGET_DIR="$BASE/target-tests" cargo test --offline $args >"$BASE/tests.log" 2>&1); then
    echo "MUTANT-TESTS property=$ID patch=$(basename "$PATCH") suite=green ($(grep -c '^test .* ok$' "$BASE/tests.log") tests ok)"
  else
    echo "MUTANT-TESTS property=$ID patch=$(basename "$PATCH") suite=RED (mutant is killed by the existing tests; see $BASE/tests.log)"
    grep -E "^test .* FAILED|panicked at" "$BASE/tests.log" | head -5
  fi
fi
# scratch harness copy pointing at the worktree
mkdir -p "$HC"
rsync -a --delete --exclude target "$VR/harness/" "$HC/"
grep -rl '"/repo' "$HC" --include Cargo.toml | xargs sed -i "s#\"/repo#\"$WT#g"
cp "$VR/known_findings.json" "$OUT/known_findings.json"
if ! (cd "$HC" && CARGO_TARGET_DIR="$BASE/target" cargo build --release --offline -p "$pkg" >"$BASE/build.log" 2>&1); then
  echo "MUTANT-RESULT property=$ID patch=$(basename "$PATCH") error=build-failed (see $BASE/build.log)"; grep -E "^error" -A6 "$BASE/build.log" | head -20; exit 2
fi
if [ "$pkg" = "c20" ]; then
  HS="$BASE/harness-sched"; mkdir -p "$HS"
  rsync -a --delete --exclude target "$VR/harness-sched/" "$HS/"
  grep -rl '"/repo' "$HS" --include Cargo.toml | xargs sed -i "s#\"/repo#\"$WT#g"
  if ! (cd "$HS" && CARGO_TARGET_DIR="$BASE/target-sched" cargo build --release --offline -p c20s >"$BASE/build-sched.log" 2>&1); then
    echo "MUTANT-RESULT property=$ID patch=$(basename "$PATCH") error=build-failed (see $BASE/build-sched.log)"; grep -E "^error" -A6 "$BASE/build-sched.log" | head -20; exit 2
  fi
  export VERIF_C20S_BIN="$BASE/target-sched/release/c20s"
  mkdir -p "$OUT/preload"; gcc -O2 -shared -fPIC -o "$OUT/preload/getrandom_shim.so" "$VR/preload/getrandom_shim.c"
fi
VERIF_ROOT="$OUT" VERIF_TIER="$TIER" "$BASE/target/release/$pkg" | grep -E "^(VIOLATION|KNOWN-FINDING|SUMMARY|MACHINERY-ERROR|NOTE)" | cut -c1-600
rc=${PIPESTATUS[0]}
echo "MUTANT-RESULT property=$ID patch=$(basename "$PATCH") tier=$TIER rc=$rc ($([ $rc -eq 1 ] && echo DETECTED || ([ $rc -eq 0 ] && echo not-detected || echo machinery-error)))"
exit $rc
