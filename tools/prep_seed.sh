#!/usr/bin/env bash
# tools/prep_seed.sh <Cxx> [dir-prefix]  -> scratch worktree /tmp/<prefix>-Cxx of /repo HEAD with PROPERTY.md
# (the property record + one-line list of the changes earlier rounds already used; nothing else from /verif)
set -eu
P="$1"; PRE="${2:-seed}"; W=/tmp/$PRE-$P
VR="$(cd "$(dirname "$0")/.." && pwd)"
[ -d "$W" ] && { git -C /repo worktree remove --force "$W" 2>/dev/null || true; rm -rf "$W"; }
git -C /repo worktree prune
git -C /repo worktree add -q --detach "$W" HEAD
{
  jq -r --arg id "$P" 'select(.id==$id) | "# Property \(.id): \(.title)\n\n## Statement\n\(.statement)\n\n## Quantified over\n\(.quantifier | tostring)\n\n## Anchored in\n\(.anchors | tojson)\n"' "$VR/properties.jsonl"
  echo "## Changes that earlier rounds already used (do NOT repeat these or close variants)"
  for m in "$VR"/seeded/$P-*/meta.json; do jq -r '"* " + .breaks' "$m"; done
} > "$W/PROPERTY.md"
echo "$W"
