/* LD_PRELOAD seam for the per-process hash seed (DESIGN.md 3.4).
 * std obtains RandomState keys through the weak libc symbol `getrandom`; this shim answers every
 * request with the same byte stream derived from VERIF_HASH_SEED, so HashMap iteration order becomes
 * a controlled, replayable input of the process. Every call returns the SAME stream (not a counter
 * based one) so that the keys do not depend on which thread asks first. */
#define _GNU_SOURCE
#include <stddef.h>
#include <stdlib.h>
#include <sys/types.h>

static unsigned long long splitmix(unsigned long long *s) {
    unsigned long long z = (*s += 0x9E3779B97F4A7C15ULL);
    z = (z ^ (z >> 30)) * 0xBF58476D1CE4E5B9ULL;
    z = (z ^ (z >> 27)) * 0x94D049BB133111EBULL;
    return z ^ (z >> 31);
}

ssize_t getrandom(void *buf, size_t buflen, unsigned int flags) {
    (void)flags;
    const char *e = getenv("VERIF_HASH_SEED");
    unsigned long long s = e ? strtoull(e, NULL, 10) : 0ULL;
    s = s * 0x2545F4914F6CDD1DULL + 0x1234567ULL;
    unsigned char *p = (unsigned char *)buf;
    size_t i = 0;
    while (i < buflen) {
        unsigned long long v = splitmix(&s);
        for (int k = 0; k < 8 && i < buflen; k++, i++) {
            p[i] = (unsigned char)(v >> (8 * k));
        }
    }
    return (ssize_t)buflen;
}
