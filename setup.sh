#!/usr/bin/env bash
# setup_cmd: builds the framework offline from files on disk (harness workspaces + preload shim).
# Only the packages of the checks registered in MANIFEST.json are built (each check's own command
# rebuilds incrementally from /repo's working tree anyway).
set -e
cd "$(dirname "$0")"
export CARGO_NET_OFFLINE=true
mkdir -p evidence/replay logs
gcc -O2 -shared -fPIC -o preload/getrandom_shim.so preload/getrandom_shim.c
pkgs=$(python3 -c "import json; print(' '.join('-p '+c['property_id'].lower() for c in json.load(open('MANIFEST.json'))['checks']))")
(cd harness && cargo build --release --offline $pkgs 2>&1 | tail -3)
(cd harness-sched && cargo build --release --offline -p c20s 2>&1 | tail -3)
echo "setup done"
