#!/usr/bin/env bash
# setup_cmd: builds the framework offline from files on disk (harness workspaces + preload shim).
set -e
cd "$(dirname "$0")"
export CARGO_NET_OFFLINE=true
mkdir -p evidence/replay logs
if [ -f preload/getrandom_shim.c ]; then
  gcc -O2 -shared -fPIC -o preload/getrandom_shim.so preload/getrandom_shim.c
fi
(cd harness && cargo build --release --offline --workspace 2>&1 | tail -3)
if [ -d harness-sched ]; then
  (cd harness-sched && cargo build --release --offline --workspace 2>&1 | tail -3)
fi
echo "setup done"
