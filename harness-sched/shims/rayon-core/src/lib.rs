//! Stand-in for `rayon-core` 1.13 used by the C20 schedule exploration.
//!
//! Everything runs on the calling thread. `join_context(a, b)` asks the installed choice script
//! for one of four decisions: a-then-b or b-then-a, each with b reported as `migrated()` = false or
//! true (a "steal", which makes rayon's adaptive splitter split deeper). `join(a, b)` has the two
//! order decisions. `current_num_threads()` is a script parameter. Every decision point is
//! recorded so that the explorer can enumerate all scripts depth-first.
//!
//! Only what `rayon` 1.12 re-exports is provided; what it never calls is a stub that panics.

use std::cell::RefCell;
use std::marker::PhantomData;

pub mod verif {
    use super::*;

    #[derive(Default)]
    pub(crate) struct State {
        pub script: Vec<u8>,
        pub pos: usize,
        /// number of options at each decision point met so far
        pub trace: Vec<u8>,
        /// decision actually taken at each point
        pub taken: Vec<u8>,
        pub threads: usize,
        pub diverged: Option<String>,
    }
    thread_local! {
        pub(crate) static STATE: RefCell<State> = RefCell::new(State { threads: 1, ..Default::default() });
    }

    /// Installs a script (decisions for the first `script.len()` points; 0 afterwards).
    pub fn install(script: &[u8], threads: usize) {
        STATE.with(|s| {
            *s.borrow_mut() = State { script: script.to_vec(), pos: 0, trace: vec![], taken: vec![], threads: threads.max(1), diverged: None };
        });
    }

    /// (options per decision point, decision taken per point, divergence message if a scripted
    /// decision was out of range for its point).
    pub fn finish() -> (Vec<u8>, Vec<u8>, Option<String>) {
        STATE.with(|s| {
            let mut st = s.borrow_mut();
            let r = (std::mem::take(&mut st.trace), std::mem::take(&mut st.taken), st.diverged.take());
            st.script.clear();
            st.pos = 0;
            r
        })
    }

    pub(crate) fn decide(options: u8) -> u8 {
        STATE.with(|s| {
            let mut st = s.borrow_mut();
            let i = st.pos;
            st.pos += 1;
            let d = if i < st.script.len() { st.script[i] } else { 0 };
            if d >= options {
                st.diverged = Some(format!("decision {} at point {} out of range (options {})", d, i, options));
            }
            let d = d.min(options - 1);
            st.trace.push(options);
            st.taken.push(d);
            d
        })
    }

    pub(crate) fn threads() -> usize {
        STATE.with(|s| s.borrow().threads)
    }
}

pub struct FnContext {
    migrated: bool,
    _marker: PhantomData<*mut ()>,
}
impl FnContext {
    fn new(migrated: bool) -> Self {
        FnContext { migrated, _marker: PhantomData }
    }
    pub fn migrated(&self) -> bool {
        self.migrated
    }
}

pub fn join<A, B, RA, RB>(oper_a: A, oper_b: B) -> (RA, RB)
where
    A: FnOnce() -> RA + Send,
    B: FnOnce() -> RB + Send,
    RA: Send,
    RB: Send,
{
    match verif::decide(2) {
        0 => {
            let ra = oper_a();
            let rb = oper_b();
            (ra, rb)
        }
        _ => {
            let rb = oper_b();
            let ra = oper_a();
            (ra, rb)
        }
    }
}

pub fn join_context<A, B, RA, RB>(oper_a: A, oper_b: B) -> (RA, RB)
where
    A: FnOnce(FnContext) -> RA + Send,
    B: FnOnce(FnContext) -> RB + Send,
    RA: Send,
    RB: Send,
{
    let d = verif::decide(4);
    let stolen = d == 1 || d == 3;
    if d < 2 {
        let ra = oper_a(FnContext::new(false));
        let rb = oper_b(FnContext::new(stolen));
        (ra, rb)
    } else {
        let rb = oper_b(FnContext::new(stolen));
        let ra = oper_a(FnContext::new(false));
        (ra, rb)
    }
}

pub fn current_num_threads() -> usize {
    verif::threads()
}
pub fn current_thread_index() -> Option<usize> {
    Some(0)
}
pub fn max_num_threads() -> usize {
    1 << 16
}

// ---------------- scopes: spawned bodies run after the scope body, in spawn order ----------------
type Job<'scope, S> = Box<dyn FnOnce(&S) + Send + 'scope>;

pub struct Scope<'scope> {
    jobs: std::sync::Mutex<Vec<Job<'scope, Scope<'scope>>>>,
}
impl<'scope> Scope<'scope> {
    pub fn spawn<BODY>(&self, body: BODY)
    where
        BODY: FnOnce(&Scope<'scope>) + Send + 'scope,
    {
        self.jobs.lock().unwrap().push(Box::new(body));
    }
    pub fn spawn_broadcast<BODY>(&self, _body: BODY)
    where
        BODY: Fn(&Scope<'scope>, BroadcastContext<'_>) + Send + Sync + 'scope,
    {
        unimplemented!("rayon-core stand-in: spawn_broadcast")
    }
    fn drain(&self) {
        loop {
            let job = {
                let mut j = self.jobs.lock().unwrap();
                if j.is_empty() {
                    break;
                }
                j.remove(0)
            };
            job(self);
        }
    }
}
pub fn scope<'scope, OP, R>(op: OP) -> R
where
    OP: FnOnce(&Scope<'scope>) -> R + Send,
    R: Send,
{
    in_place_scope(op)
}
pub fn in_place_scope<'scope, OP, R>(op: OP) -> R
where
    OP: FnOnce(&Scope<'scope>) -> R,
{
    let s = Scope { jobs: std::sync::Mutex::new(Vec::new()) };
    let r = op(&s);
    s.drain();
    r
}

pub struct ScopeFifo<'scope> {
    jobs: std::sync::Mutex<Vec<Job<'scope, ScopeFifo<'scope>>>>,
}
impl<'scope> ScopeFifo<'scope> {
    pub fn spawn_fifo<BODY>(&self, body: BODY)
    where
        BODY: FnOnce(&ScopeFifo<'scope>) + Send + 'scope,
    {
        self.jobs.lock().unwrap().push(Box::new(body));
    }
    pub fn spawn_broadcast<BODY>(&self, _body: BODY)
    where
        BODY: Fn(&ScopeFifo<'scope>, BroadcastContext<'_>) + Send + Sync + 'scope,
    {
        unimplemented!("rayon-core stand-in: spawn_broadcast")
    }
}
pub fn scope_fifo<'scope, OP, R>(op: OP) -> R
where
    OP: FnOnce(&ScopeFifo<'scope>) -> R + Send,
    R: Send,
{
    in_place_scope_fifo(op)
}
pub fn in_place_scope_fifo<'scope, OP, R>(op: OP) -> R
where
    OP: FnOnce(&ScopeFifo<'scope>) -> R,
{
    let s = ScopeFifo { jobs: std::sync::Mutex::new(Vec::new()) };
    let r = op(&s);
    loop {
        let job = {
            let mut j = s.jobs.lock().unwrap();
            if j.is_empty() {
                break;
            }
            j.remove(0)
        };
        job(&s);
    }
    r
}

pub fn spawn<F>(func: F)
where
    F: FnOnce() + Send + 'static,
{
    func()
}
pub fn spawn_fifo<F>(func: F)
where
    F: FnOnce() + Send + 'static,
{
    func()
}

pub struct BroadcastContext<'a> {
    _marker: PhantomData<&'a mut dyn FnMut()>,
}
impl<'a> BroadcastContext<'a> {
    pub fn index(&self) -> usize {
        0
    }
    pub fn num_threads(&self) -> usize {
        verif::threads()
    }
}
pub fn broadcast<OP, R>(op: OP) -> Vec<R>
where
    OP: Fn(BroadcastContext<'_>) -> R + Sync,
    R: Send,
{
    vec![op(BroadcastContext { _marker: PhantomData })]
}
pub fn spawn_broadcast<OP>(op: OP)
where
    OP: Fn(BroadcastContext<'_>) + Send + Sync + 'static,
{
    op(BroadcastContext { _marker: PhantomData })
}

#[derive(Clone, Copy, Debug, PartialEq, Eq)]
pub enum Yield {
    Executed,
    Idle,
}
pub fn yield_now() -> Option<Yield> {
    Some(Yield::Idle)
}
pub fn yield_local() -> Option<Yield> {
    Some(Yield::Idle)
}

// ---------------- pool types: present for the re-exports, never driven by the seams ----------------
#[derive(Debug)]
pub struct ThreadPoolBuildError;
impl std::fmt::Display for ThreadPoolBuildError {
    fn fmt(&self, f: &mut std::fmt::Formatter<'_>) -> std::fmt::Result {
        write!(f, "rayon-core stand-in: thread pools are not available")
    }
}
impl std::error::Error for ThreadPoolBuildError {}

pub struct ThreadBuilder;
pub struct DefaultSpawn;
pub struct ThreadPoolBuilder<S = DefaultSpawn> {
    threads: usize,
    _s: PhantomData<S>,
}
impl Default for ThreadPoolBuilder {
    fn default() -> Self {
        ThreadPoolBuilder { threads: 0, _s: PhantomData }
    }
}
impl ThreadPoolBuilder {
    pub fn new() -> Self {
        Self::default()
    }
}
impl<S> ThreadPoolBuilder<S> {
    pub fn num_threads(mut self, n: usize) -> Self {
        self.threads = n;
        self
    }
    pub fn build(self) -> Result<ThreadPool, ThreadPoolBuildError> {
        Ok(ThreadPool { threads: self.threads.max(1) })
    }
    pub fn build_global(self) -> Result<(), ThreadPoolBuildError> {
        Ok(())
    }
}
#[derive(Debug)]
pub struct ThreadPool {
    threads: usize,
}
impl ThreadPool {
    pub fn install<OP, R>(&self, op: OP) -> R
    where
        OP: FnOnce() -> R + Send,
        R: Send,
    {
        op()
    }
    pub fn current_num_threads(&self) -> usize {
        self.threads
    }
    pub fn current_thread_index(&self) -> Option<usize> {
        Some(0)
    }
}
