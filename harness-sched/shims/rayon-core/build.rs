fn main() {}
