//! C20 / E4 — stateless exploration of the real k-means code under a controlled fork-join
//! scheduler (the rayon-core stand-in of this workspace). For each seam x row count x thread count:
//! depth-first enumeration of all decision scripts (full, or deviation-bounded for long seams),
//! fingerprint of the outcome compared with the default schedule's.
//!
//! CLI:  c20s explore <quick|thorough>        -> JSON report on stdout
//!       c20s one <seam> <n> <T> <d0,d1,...>  -> JSON {fp, default_fp, points}

use linfa::prelude::*;
use linfa::Dataset;
use linfa_clustering::{KMeans, KMeansInit};
use linfa_nn::distance::Distance;
use ndarray::{Array2, ArrayView, Dimension};
use rand_xoshiro::rand_core::SeedableRng;
use rand_xoshiro::Xoshiro256Plus;
use serde_json::json;
use std::cell::RefCell;
use std::collections::BTreeSet;

thread_local! {
    static ORDER: RefCell<Vec<u64>> = RefCell::new(Vec::new());
}

/// L2 distance that also logs, on the harness side, which (centroid, observation) pair is being
/// evaluated — the sequence is the leaf execution order actually produced by the schedule.
#[derive(Clone, Debug, PartialEq)]
struct LoggingL2;
impl Distance<f64> for LoggingL2 {
    fn distance<D: Dimension>(&self, a: ArrayView<f64, D>, b: ArrayView<f64, D>) -> f64 {
        self.rdistance(a, b).sqrt()
    }
    fn rdistance<D: Dimension>(&self, a: ArrayView<f64, D>, b: ArrayView<f64, D>) -> f64 {
        let fa = a.iter().next().cloned().unwrap_or(0.0);
        let fb = b.iter().next().cloned().unwrap_or(0.0);
        ORDER.with(|o| o.borrow_mut().push(fa.to_bits() ^ fb.to_bits().rotate_left(17)));
        a.iter().zip(b.iter()).map(|(x, y)| (x - y) * (x - y)).sum()
    }
    fn rdist_to_dist(&self, r: f64) -> f64 {
        r.sqrt()
    }
    fn dist_to_rdist(&self, d: f64) -> f64 {
        d * d
    }
}

fn data(n: usize) -> Array2<f64> {
    // distinct first coordinates (row identity for the order log), two groups, one exact tie row
    let base: [[f64; 2]; 8] = [[0.0, 0.0], [1.0, 0.25], [0.5, 1.0], [5.0, 5.0], [6.0, 5.5], [5.5, 6.0], [3.0, 3.0], [2.75, 2.5]];
    Array2::from_shape_fn((n, 2), |(i, j)| base[i][j])
}

fn fnv(v: &[u64]) -> u64 {
    let mut h: u64 = 0xcbf29ce484222325;
    for x in v {
        for b in x.to_le_bytes() {
            h ^= b as u64;
            h = h.wrapping_mul(0x100000001b3);
        }
    }
    h
}

const SEAMS: [&str; 5] = ["predict", "transform", "fit_1iter", "fit_2iter", "kmeanspp_fit"];

/// Runs the seam under the installed script; returns the fingerprint (bit patterns).
fn run_seam(seam: &str, n: usize, model: &KMeans<f64, LoggingL2>) -> Vec<u64> {
    let x = data(n);
    let ds = Dataset::from(x.clone());
    let init = ndarray::array![[0.0, 0.0], [5.0, 5.0]];
    let mut fp = Vec::new();
    let push_model = |fp: &mut Vec<u64>, m: &KMeans<f64, LoggingL2>| {
        fp.extend(m.centroids().iter().map(|v| v.to_bits()));
        fp.extend(m.cluster_count().iter().map(|v| v.to_bits()));
        fp.push(m.inertia().to_bits());
    };
    match seam {
        "predict" => {
            let p = model.predict(&x);
            fp.extend(p.iter().map(|&v| v as u64));
        }
        "transform" => {
            let t = model.transform(&x);
            fp.extend(t.iter().map(|v| v.to_bits()));
        }
        "fit_1iter" | "fit_2iter" => {
            let it = if seam == "fit_1iter" { 1 } else { 2 };
            let m = KMeans::params_with(2, Xoshiro256Plus::seed_from_u64(1), LoggingL2)
                .init_method(KMeansInit::Precomputed(init))
                .max_n_iterations(it)
                .n_runs(1)
                .tolerance(1e-12)
                .fit(&ds);
            match m {
                Ok(m) => push_model(&mut fp, &m),
                Err(e) => fp.extend(format!("{:?}", e).bytes().map(|b| b as u64)),
            }
        }
        "kmeanspp_fit" => {
            let m = KMeans::params_with(2, Xoshiro256Plus::seed_from_u64(5), LoggingL2)
                .init_method(KMeansInit::KMeansPlusPlus)
                .max_n_iterations(1)
                .n_runs(1)
                .fit(&ds);
            match m {
                Ok(m) => push_model(&mut fp, &m),
                Err(e) => fp.extend(format!("{:?}", e).bytes().map(|b| b as u64)),
            }
        }
        _ => panic!("unknown seam"),
    }
    fp
}

struct Exec {
    fp: u64,
    options: Vec<u8>,
    taken: Vec<u8>,
    order: u64,
}

fn execute(seam: &str, n: usize, t: usize, script: &[u8], model: &KMeans<f64, LoggingL2>) -> Exec {
    ORDER.with(|o| o.borrow_mut().clear());
    rayon_core::verif::install(script, t);
    let fp = run_seam(seam, n, model);
    let (options, taken, div) = rayon_core::verif::finish();
    if let Some(d) = div {
        println!("{}", json!({"machinery_error": format!("script diverged: {}", d)}));
        std::process::exit(2);
    }
    if taken.len() < script.len() || taken[..script.len()] != script[..] {
        println!("{}", json!({"machinery_error": "replayed prefix was not followed"}));
        std::process::exit(2);
    }
    let order = ORDER.with(|o| fnv(&o.borrow()));
    Exec { fp: fnv(&fp), options, taken, order }
}

struct Explorer<'a> {
    seam: &'a str,
    n: usize,
    t: usize,
    model: &'a KMeans<f64, LoggingL2>,
    bound: Option<usize>,
    cap: u64,
    schedules: u64,
    transitions: u64,
    fps: BTreeSet<u64>,
    orders: BTreeSet<u64>,
    max_points: usize,
    capped: bool,
    default_fp: u64,
    bad: Vec<serde_json::Value>,
}

impl<'a> Explorer<'a> {
    fn explore(&mut self, prefix: Vec<u8>, deviations: usize) {
        if self.schedules >= self.cap {
            self.capped = true;
            return;
        }
        let x = execute(self.seam, self.n, self.t, &prefix, self.model);
        self.schedules += 1;
        self.transitions += x.options.len() as u64;
        self.fps.insert(x.fp);
        self.orders.insert(x.order);
        self.max_points = self.max_points.max(x.options.len());
        if self.schedules == 1 {
            self.default_fp = x.fp;
        } else if x.fp != self.default_fp && self.bad.len() < 5 {
            self.bad.push(json!({"seam": self.seam, "n": self.n, "threads": self.t, "script": x.taken, "fp": format!("{:016x}", x.fp), "default_fp": format!("{:016x}", self.default_fp)}));
        }
        if let Some(b) = self.bound {
            if deviations >= b {
                return;
            }
        }
        for i in prefix.len()..x.options.len() {
            for alt in 1..x.options[i] {
                let mut p = x.taken[..i].to_vec();
                p.push(alt);
                self.explore(p, deviations + 1);
            }
        }
    }
}

fn fitted_model(n: usize) -> KMeans<f64, LoggingL2> {
    rayon_core::verif::install(&[], 1);
    let ds = Dataset::from(data(n));
    let m = KMeans::params_with(2, Xoshiro256Plus::seed_from_u64(1), LoggingL2)
        .init_method(KMeansInit::Precomputed(ndarray::array![[0.0, 0.0], [5.0, 5.0]]))
        .max_n_iterations(3)
        .n_runs(1)
        .fit(&ds)
        .expect("fixture model fits");
    let _ = rayon_core::verif::finish();
    m
}

fn main() {
    let args: Vec<String> = std::env::args().collect();
    if args.len() >= 6 && args[1] == "one" {
        let seam = args[2].as_str();
        let n: usize = args[3].parse().unwrap();
        let t: usize = args[4].parse().unwrap();
        let script: Vec<u8> = if args[5].is_empty() { vec![] } else { args[5].split(',').map(|s| s.parse().unwrap()).collect() };
        let model = fitted_model(n);
        let d = execute(seam, n, t, &[], &model);
        let x = execute(seam, n, t, &script, &model);
        println!("{}", json!({"fp": format!("{:016x}", x.fp), "default_fp": format!("{:016x}", d.fp), "points": x.options.len()}));
        return;
    }
    let thorough = args.get(2).map(|s| s == "thorough").unwrap_or(false);
    let rows: &[usize] = if thorough { &[4, 5, 6, 7, 8] } else { &[4, 6, 8] };
    let mut configs: Vec<(&str, usize, usize)> = Vec::new();
    for seam in SEAMS {
        for &n in rows {
            for t in 1..=4usize {
                configs.push((seam, n, t));
            }
        }
    }
    // configurations are independent; the scheduler state is thread-local, so they are explored on
    // separate harness threads and merged in configuration order (deterministic output)
    let next = std::sync::atomic::AtomicUsize::new(0);
    let results: std::sync::Mutex<Vec<(usize, serde_json::Value, Vec<serde_json::Value>)>> = std::sync::Mutex::new(Vec::new());
    std::thread::scope(|sc| {
        for _ in 0..16 {
            sc.spawn(|| loop {
                let i = next.fetch_add(1, std::sync::atomic::Ordering::SeqCst);
                if i >= configs.len() {
                    break;
                }
                let (seam, n, t) = configs[i];
                let model = fitted_model(n);
                // length of the default schedule decides full vs. deviation-bounded exploration
                let probe = execute(seam, n, t, &[], &model);
                let full = probe.options.len() <= if thorough { 10 } else { 8 };
                let bound = if full { None } else { Some(if thorough { 4 } else { 3 }) };
                let mut ex = Explorer {
                    seam, n, t, model: &model, bound,
                    cap: if thorough { 3_000_000 } else { 300_000 },
                    schedules: 0, transitions: 0, fps: BTreeSet::new(), orders: BTreeSet::new(),
                    max_points: 0, capped: false, default_fp: 0, bad: vec![],
                };
                ex.explore(vec![], 0);
                let mut full = full;
                let mut bound = bound;
                if ex.capped && full {
                    // the unbounded enumeration does not fit the schedule cap (steals deepen the split
                    // tree): fall back to a COMPLETE deviation-bounded enumeration for this configuration
                    full = false;
                    bound = Some(if thorough { 4 } else { 3 });
                    ex = Explorer {
                        seam, n, t, model: &model, bound,
                        cap: u64::MAX,
                        schedules: 0, transitions: 0, fps: BTreeSet::new(), orders: BTreeSet::new(),
                        max_points: 0, capped: false, default_fp: 0, bad: vec![],
                    };
                    ex.explore(vec![], 0);
                }
                let rep = json!({
                    "seam": seam, "rows": n, "threads": t,
                    "mode": if full { "all scripts".to_string() } else { format!("<= {} non-default decisions", bound.unwrap()) },
                    "schedules": ex.schedules, "decision_points_total": ex.transitions,
                    "max_decision_points": ex.max_points,
                    "distinct_leaf_orders": ex.orders.len(),
                    "distinct_outcomes": ex.fps.len(),
                    "capped": ex.capped,
                });
                results.lock().unwrap().push((i, rep, ex.bad));
            });
        }
    });
    let mut results = results.into_inner().unwrap();
    results.sort_by_key(|r| r.0);
    let mut report = Vec::new();
    let mut bad = Vec::new();
    for (_, rep, b) in results {
        report.push(rep);
        bad.extend(b);
    }
    println!("{}", json!({"report": report, "violations": bad}));
}
