//! Reference maths in plain f64 on Vec<Vec<f64>> — no linfa, no ndarray, no BLAS/LAPACK.
//! Deliberately boring: textbook algorithms, O(n^3) where that is simplest.

pub type Mat = Vec<Vec<f64>>;

#[derive(Clone, Copy, Debug, PartialEq)]
pub enum Metric {
    L1,
    L2,
    LInf,
    Lp(f64),
}

pub fn dist(m: Metric, a: &[f64], b: &[f64]) -> f64 {
    match m {
        Metric::L1 => a.iter().zip(b).map(|(x, y)| (x - y).abs()).sum(),
        Metric::L2 => a.iter().zip(b).map(|(x, y)| (x - y) * (x - y)).sum::<f64>().sqrt(),
        Metric::LInf => a.iter().zip(b).map(|(x, y)| (x - y).abs()).fold(0.0, f64::max),
        Metric::Lp(p) => a
            .iter()
            .zip(b)
            .map(|(x, y)| (x - y).abs().powf(p))
            .sum::<f64>()
            .powf(1.0 / p),
    }
}

pub fn sqdist(a: &[f64], b: &[f64]) -> f64 {
    a.iter().zip(b).map(|(x, y)| (x - y) * (x - y)).sum()
}

pub fn dot(a: &[f64], b: &[f64]) -> f64 {
    a.iter().zip(b).map(|(x, y)| x * y).sum()
}

pub fn zeros(n: usize, m: usize) -> Mat {
    vec![vec![0.0; m]; n]
}

pub fn identity(n: usize) -> Mat {
    let mut a = zeros(n, n);
    for i in 0..n {
        a[i][i] = 1.0;
    }
    a
}

pub fn transpose(a: &Mat) -> Mat {
    if a.is_empty() {
        return vec![];
    }
    let (n, m) = (a.len(), a[0].len());
    let mut t = zeros(m, n);
    for i in 0..n {
        for j in 0..m {
            t[j][i] = a[i][j];
        }
    }
    t
}

pub fn matmul(a: &Mat, b: &Mat) -> Mat {
    let n = a.len();
    let k = b.len();
    let m = if k > 0 { b[0].len() } else { 0 };
    let mut c = zeros(n, m);
    for i in 0..n {
        for l in 0..k {
            let ail = a[i][l];
            for j in 0..m {
                c[i][j] += ail * b[l][j];
            }
        }
    }
    c
}

pub fn matvec(a: &Mat, x: &[f64]) -> Vec<f64> {
    a.iter().map(|r| dot(r, x)).collect()
}

pub fn col_means(x: &Mat) -> Vec<f64> {
    if x.is_empty() {
        return vec![];
    }
    let (n, p) = (x.len(), x[0].len());
    let mut m = vec![0.0; p];
    for r in x {
        for j in 0..p {
            m[j] += r[j];
        }
    }
    for v in m.iter_mut() {
        *v /= n as f64;
    }
    m
}

/// Sample covariance with divisor (n - ddof).
pub fn covariance(x: &Mat, ddof: f64) -> Mat {
    let (n, p) = (x.len(), x[0].len());
    let mu = col_means(x);
    let mut c = zeros(p, p);
    for r in x {
        for i in 0..p {
            for j in 0..p {
                c[i][j] += (r[i] - mu[i]) * (r[j] - mu[j]);
            }
        }
    }
    for i in 0..p {
        for j in 0..p {
            c[i][j] /= n as f64 - ddof;
        }
    }
    c
}

/// Gaussian elimination with partial pivoting; solves A x = b. None when singular (pivot < tol).
pub fn solve(a: &Mat, b: &[f64]) -> Option<Vec<f64>> {
    let n = a.len();
    let mut m: Mat = a.iter().zip(b).map(|(r, &bi)| { let mut r = r.clone(); r.push(bi); r }).collect();
    let scale = a.iter().flatten().fold(0.0f64, |s, v| s.max(v.abs())).max(1e-300);
    for c in 0..n {
        let mut piv = c;
        for r in c + 1..n {
            if m[r][c].abs() > m[piv][c].abs() {
                piv = r;
            }
        }
        if m[piv][c].abs() < 1e-13 * scale {
            return None;
        }
        m.swap(c, piv);
        for r in c + 1..n {
            let f = m[r][c] / m[c][c];
            if f != 0.0 {
                for k in c..=n {
                    m[r][k] -= f * m[c][k];
                }
            }
        }
    }
    let mut x = vec![0.0; n];
    for i in (0..n).rev() {
        let mut s = m[i][n];
        for k in i + 1..n {
            s -= m[i][k] * x[k];
        }
        x[i] = s / m[i][i];
    }
    Some(x)
}

pub fn inverse(a: &Mat) -> Option<Mat> {
    let n = a.len();
    let mut cols = Vec::new();
    for j in 0..n {
        let mut e = vec![0.0; n];
        e[j] = 1.0;
        cols.push(solve(a, &e)?);
    }
    Some(transpose(&cols))
}

/// Rank by Gaussian elimination with a relative pivot tolerance.
pub fn rank(a: &Mat, tol: f64) -> usize {
    if a.is_empty() {
        return 0;
    }
    let mut m = a.clone();
    let (n, p) = (m.len(), m[0].len());
    let scale = a.iter().flatten().fold(0.0f64, |s, v| s.max(v.abs())).max(1e-300);
    let mut r = 0;
    for c in 0..p {
        if r == n {
            break;
        }
        let mut piv = r;
        for i in r + 1..n {
            if m[i][c].abs() > m[piv][c].abs() {
                piv = i;
            }
        }
        if m[piv][c].abs() <= tol * scale {
            continue;
        }
        m.swap(r, piv);
        for i in r + 1..n {
            let f = m[i][c] / m[r][c];
            for k in c..p {
                m[i][k] -= f * m[r][k];
            }
        }
        r += 1;
    }
    r
}

/// Cholesky factor L (lower) with A = L L^T; None if not positive definite.
pub fn cholesky(a: &Mat) -> Option<Mat> {
    let n = a.len();
    let mut l = zeros(n, n);
    for i in 0..n {
        for j in 0..=i {
            let mut s = a[i][j];
            for k in 0..j {
                s -= l[i][k] * l[j][k];
            }
            if i == j {
                if !(s > 0.0) {
                    return None;
                }
                l[i][j] = s.sqrt();
            } else {
                l[i][j] = s / l[j][j];
            }
        }
    }
    Some(l)
}

/// Cyclic Jacobi eigen-decomposition of a symmetric matrix. Returns (eigenvalues descending,
/// eigenvectors as rows in the same order).
pub fn jacobi_eig(a: &Mat) -> (Vec<f64>, Mat) {
    let n = a.len();
    let mut a = a.clone();
    let mut v = identity(n);
    for _sweep in 0..100 {
        let mut off = 0.0;
        for i in 0..n {
            for j in i + 1..n {
                off += a[i][j] * a[i][j];
            }
        }
        let diag: f64 = (0..n).map(|i| a[i][i] * a[i][i]).sum();
        if off <= 1e-30 * diag.max(1e-300) {
            break;
        }
        for p in 0..n {
            for q in p + 1..n {
                if a[p][q] == 0.0 {
                    continue;
                }
                let theta = (a[q][q] - a[p][p]) / (2.0 * a[p][q]);
                let t = theta.signum() / (theta.abs() + (theta * theta + 1.0).sqrt());
                let t = if theta == 0.0 { 1.0 } else { t };
                let c = 1.0 / (t * t + 1.0).sqrt();
                let s = t * c;
                for k in 0..n {
                    let akp = a[k][p];
                    let akq = a[k][q];
                    a[k][p] = c * akp - s * akq;
                    a[k][q] = s * akp + c * akq;
                }
                for k in 0..n {
                    let apk = a[p][k];
                    let aqk = a[q][k];
                    a[p][k] = c * apk - s * aqk;
                    a[q][k] = s * apk + c * aqk;
                }
                for k in 0..n {
                    let vkp = v[k][p];
                    let vkq = v[k][q];
                    v[k][p] = c * vkp - s * vkq;
                    v[k][q] = s * vkp + c * vkq;
                }
            }
        }
    }
    let mut idx: Vec<usize> = (0..n).collect();
    idx.sort_by(|&i, &j| a[j][j].partial_cmp(&a[i][i]).unwrap());
    let vals = idx.iter().map(|&i| a[i][i]).collect();
    let vecs = idx.iter().map(|&i| (0..n).map(|k| v[k][i]).collect()).collect();
    (vals, vecs)
}

/// Least squares via normal equations on a (small, well-conditioned by construction) design.
pub fn lstsq(x: &Mat, y: &[f64]) -> Option<Vec<f64>> {
    let xt = transpose(x);
    let xtx = matmul(&xt, x);
    let xty = matvec(&xt, y);
    solve(&xtx, &xty)
}

pub fn mean(v: &[f64]) -> f64 {
    v.iter().sum::<f64>() / v.len() as f64
}

pub fn median(v: &[f64]) -> f64 {
    let mut s = v.to_vec();
    s.sort_by(|a, b| a.partial_cmp(b).unwrap());
    let n = s.len();
    if n % 2 == 1 {
        s[n / 2]
    } else {
        (s[n / 2 - 1] + s[n / 2]) / 2.0
    }
}

pub fn logsumexp(v: &[f64]) -> f64 {
    let m = v.iter().cloned().fold(f64::NEG_INFINITY, f64::max);
    if m.is_infinite() {
        return m;
    }
    m + v.iter().map(|x| (x - m).exp()).sum::<f64>().ln()
}

pub fn sigmoid(x: f64) -> f64 {
    if x >= 0.0 {
        1.0 / (1.0 + (-x).exp())
    } else {
        let e = x.exp();
        e / (1.0 + e)
    }
}

#[cfg(test)]
mod tests {
    use super::*;
    #[test]
    fn eig_and_solve() {
        let a = vec![vec![4.0, 1.0, 0.5], vec![1.0, 3.0, 0.2], vec![0.5, 0.2, 1.0]];
        let (vals, vecs) = jacobi_eig(&a);
        for (l, v) in vals.iter().zip(&vecs) {
            let av = matvec(&a, v);
            for k in 0..3 {
                assert!((av[k] - l * v[k]).abs() < 1e-10);
            }
        }
        assert!(vals[0] >= vals[1] && vals[1] >= vals[2]);
        let x = solve(&a, &[1.0, 2.0, 3.0]).unwrap();
        let b = matvec(&a, &x);
        assert!((b[0] - 1.0).abs() < 1e-12 && (b[2] - 3.0).abs() < 1e-12);
        let l = cholesky(&a).unwrap();
        let llt = matmul(&l, &transpose(&l));
        assert!((llt[0][1] - 1.0).abs() < 1e-12);
        assert_eq!(rank(&vec![vec![1.0, 2.0], vec![2.0, 4.0]], 1e-10), 1);
        let inv = inverse(&a).unwrap();
        let id = matmul(&a, &inv);
        assert!((id[1][1] - 1.0).abs() < 1e-12 && id[0][2].abs() < 1e-12);
    }
}
