//! Explicit-state breadth-first explorer over (implementation value, reference value) pairs.
//!
//! A model supplies initial states, the enabled actions of a state and a `step` that applies one
//! action to the REAL implementation value and to the reference value in lock-step and reports any
//! disagreement. States are de-duplicated by their canonical byte form (which must contain every
//! field the property can observe, so merged states have identical futures).

use crate::ctx::{Ctx, Violation};
use std::collections::{HashSet, VecDeque};

pub trait Lockstep {
    type S: Clone;
    type A: Clone + std::fmt::Debug;
    fn init(&self) -> Vec<Self::S>;
    fn actions(&self, s: &Self::S) -> Vec<Self::A>;
    /// Apply `a`: successor states (an operation may produce several results, e.g. both halves of
    /// a split) and the violations observed while doing so.
    fn step(&self, s: &Self::S, a: &Self::A, history: &[String]) -> (Vec<Self::S>, Vec<Violation>);
    fn canon(&self, s: &Self::S) -> Vec<u8>;
}

#[derive(Default, Debug, Clone)]
pub struct Stats {
    pub states: u64,
    pub transitions: u64,
    pub max_depth: usize,
    pub histories: u64,
    pub capped: bool,
}

pub fn bfs<M: Lockstep>(ctx: &Ctx, m: &M, max_depth: usize) -> Stats {
    let mut st = Stats::default();
    let mut seen: HashSet<Vec<u8>> = HashSet::new();
    let mut q: VecDeque<(M::S, Vec<String>)> = VecDeque::new();
    for s in m.init() {
        if seen.insert(m.canon(&s)) {
            st.states += 1;
            q.push_back((s, vec![]));
        }
    }
    while let Some((s, hist)) = q.pop_front() {
        st.max_depth = st.max_depth.max(hist.len());
        if hist.len() >= max_depth {
            st.histories += 1;
            continue;
        }
        if ctx.over_budget() {
            st.capped = true;
            break;
        }
        let acts = m.actions(&s);
        if acts.is_empty() {
            st.histories += 1;
        }
        for a in acts {
            let (succ, viols) = m.step(&s, &a, &hist);
            st.transitions += 1;
            ctx.eval(true);
            ctx.violations(viols);
            let mut h2 = hist.clone();
            h2.push(format!("{:?}", a));
            for n in succ {
                if seen.insert(m.canon(&n)) {
                    st.states += 1;
                    q.push_back((n, h2.clone()));
                }
            }
        }
    }
    st
}
