//! Deterministic, complete enumerators of small finite spaces. Every function returns the whole
//! space (never a sample) in a canonical order, so `len()` is the cardinality that the sweep must
//! match at the end.

/// All points of the {0..side-1}^dim lattice, lexicographic.
pub fn lattice_points(dim: usize, side: usize) -> Vec<Vec<i64>> {
    let mut out = vec![vec![]];
    for _ in 0..dim {
        let mut nxt = Vec::new();
        for p in &out {
            for v in 0..side as i64 {
                let mut q = p.clone();
                q.push(v);
                nxt.push(q);
            }
        }
        out = nxt;
    }
    out
}

/// All multisets of size exactly `n` over `m` items with each item used at most `mult` times,
/// as non-decreasing index vectors.
pub fn multisets(m: usize, n: usize, mult: usize) -> Vec<Vec<usize>> {
    fn rec(m: usize, n: usize, mult: usize, start: usize, cur: &mut Vec<usize>, out: &mut Vec<Vec<usize>>) {
        if cur.len() == n {
            out.push(cur.clone());
            return;
        }
        for i in start..m {
            let used = cur.iter().filter(|&&x| x == i).count();
            if used >= mult {
                continue;
            }
            cur.push(i);
            rec(m, n, mult, i, cur, out);
            cur.pop();
        }
    }
    let mut out = Vec::new();
    rec(m, n, mult, 0, &mut Vec::new(), &mut out);
    out
}

/// All multisets with size in `n_min..=n_max`.
pub fn multisets_upto(m: usize, n_min: usize, n_max: usize, mult: usize) -> Vec<Vec<usize>> {
    let mut out = Vec::new();
    for n in n_min..=n_max {
        out.extend(multisets(m, n, mult));
    }
    out
}

/// All k-subsets of 0..m (increasing index vectors).
pub fn k_subsets(m: usize, k: usize) -> Vec<Vec<usize>> {
    multisets(m, k, 1)
}

/// All subsets of 0..m with size in n_min..=n_max.
pub fn subsets_upto(m: usize, n_min: usize, n_max: usize) -> Vec<Vec<usize>> {
    multisets_upto(m, n_min, n_max, 1)
}

/// All sequences of length n over an alphabet of `a` symbols (a^n), lexicographic.
pub fn sequences(n: usize, a: usize) -> Vec<Vec<usize>> {
    let mut out = vec![vec![]];
    for _ in 0..n {
        let mut nxt = Vec::with_capacity(out.len() * a);
        for p in &out {
            for v in 0..a {
                let mut q = p.clone();
                q.push(v);
                nxt.push(q);
            }
        }
        out = nxt;
    }
    out
}

/// All sequences of length 0..=n_max.
pub fn sequences_upto(n_max: usize, a: usize) -> Vec<Vec<usize>> {
    let mut out = Vec::new();
    for n in 0..=n_max {
        out.extend(sequences(n, a));
    }
    out
}

/// All ordered selections without repetition of length `k` from 0..m (m!/(m-k)!).
pub fn arrangements(m: usize, k: usize) -> Vec<Vec<usize>> {
    fn rec(m: usize, k: usize, cur: &mut Vec<usize>, out: &mut Vec<Vec<usize>>) {
        if cur.len() == k {
            out.push(cur.clone());
            return;
        }
        for i in 0..m {
            if cur.contains(&i) {
                continue;
            }
            cur.push(i);
            rec(m, k, cur, out);
            cur.pop();
        }
    }
    let mut out = Vec::new();
    rec(m, k, &mut Vec::new(), &mut out);
    out
}

pub fn permutations(n: usize) -> Vec<Vec<usize>> {
    arrangements(n, n)
}

/// All compositions of n into ordered positive parts (2^(n-1)).
pub fn compositions(n: usize) -> Vec<Vec<usize>> {
    if n == 0 {
        return vec![vec![]];
    }
    let mut out = Vec::new();
    for mask in 0..(1u64 << (n - 1)) {
        let mut parts = Vec::new();
        let mut cur = 1;
        for i in 0..n - 1 {
            if mask >> i & 1 == 1 {
                parts.push(cur);
                cur = 1;
            } else {
                cur += 1;
            }
        }
        parts.push(cur);
        out.push(parts);
    }
    out
}

/// Cartesian product of index ranges: every vector v with v[i] < dims[i].
pub fn grid(dims: &[usize]) -> Vec<Vec<usize>> {
    let mut out = vec![vec![]];
    for &d in dims {
        let mut nxt = Vec::with_capacity(out.len() * d);
        for p in &out {
            for v in 0..d {
                let mut q = p.clone();
                q.push(v);
                nxt.push(q);
            }
        }
        out = nxt;
    }
    out
}

/// Constant "jitter" table: fixed irrational-looking offsets in (-0.05, 0.05), used to put lattice
/// points into generic position (all pairwise distances distinct). Deterministic, no RNG.
pub fn jitter(i: usize, j: usize) -> f64 {
    // fractional parts of multiples of sqrt(2), sqrt(3), sqrt(5) ...
    const R: [f64; 4] = [
        0.414_213_562_373_095_05,
        0.732_050_807_568_877_2,
        0.236_067_977_499_789_7,
        0.645_751_311_064_590_6,
    ];
    let x = ((i as f64 + 1.0) * R[j % 4] + (j as f64) * 0.318_309_886_183_790_7).fract();
    (x - 0.5) * 0.1
}

#[cfg(test)]
mod tests {
    use super::*;
    #[test]
    fn counts() {
        assert_eq!(lattice_points(2, 3).len(), 9);
        assert_eq!(multisets(3, 2, 2).len(), 6);
        assert_eq!(k_subsets(5, 2).len(), 10);
        assert_eq!(sequences(3, 2).len(), 8);
        assert_eq!(arrangements(4, 2).len(), 12);
        assert_eq!(permutations(4).len(), 24);
        assert_eq!(compositions(4).len(), 8);
        assert!(compositions(4).iter().all(|c| c.iter().sum::<usize>() == 4));
        assert_eq!(grid(&[2, 3]).len(), 6);
    }
}
