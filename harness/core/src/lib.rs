//! lvmc-core: shared machinery of the linfa model-checking harness (see /verif/DESIGN.md §3).
pub mod ctx;
pub mod enumerate;
pub mod explore;
pub mod refmath;

pub use ctx::{guarded, Ctx, Level, Tier, Violation};
pub use serde_json::{json, Value};

/// Parallel sweep over a slice of cases (harness-side rayon; the subject code is oblivious).
/// Stops handing out new cases when the tier's wall budget is exhausted and marks the run as
/// capped. `f` must report through `ctx`.
pub fn par_sweep<T: Sync>(ctx: &Ctx, label: &str, cases: &[T], f: impl Fn(&T) + Sync) {
    use rayon::prelude::*;
    let skipped = std::sync::atomic::AtomicU64::new(0);
    cases.par_iter().enumerate().for_each(|(i, c)| {
        if ctx.over_budget() {
            skipped.fetch_add(1, std::sync::atomic::Ordering::Relaxed);
            return;
        }
        let key = format!("{}#{}", label, i);
        if let Ok(mut g) = ctx::IN_FLIGHT.lock() {
            g.insert(key.clone());
        }
        f(c);
        if let Ok(mut g) = ctx::IN_FLIGHT.lock() {
            g.remove(&key);
        }
    });
    let s = skipped.load(std::sync::atomic::Ordering::Relaxed);
    if s > 0 {
        ctx.capped(&format!("{}: wall cap hit, {} of {} case groups not run", label, s, cases.len()));
    }
}

/// Relative/absolute float comparison used against independently computed references.
pub fn close(a: f64, b: f64, rel: f64, abs: f64) -> bool {
    if a == b {
        return true;
    }
    if a.is_nan() || b.is_nan() {
        return a.is_nan() && b.is_nan();
    }
    if a.is_infinite() || b.is_infinite() {
        return a == b;
    }
    let d = (a - b).abs();
    d <= abs || d <= rel * a.abs().max(b.abs())
}
