//! Run context shared by every check: tier / seed handling, violation collection with
//! signatures, known-findings matching, replay artefacts, evidence writing, exit codes.
//!
//! Exit codes: 0 = property held on everything explored (listed known findings are printed as
//! `KNOWN-FINDING:` lines), 1 = at least one violation that `known_findings.json` does not list
//! (`VIOLATION property=<id> replay=<path>`), 2 = machinery error (never a verdict).

use serde_json::{json, Map, Value};
use std::collections::BTreeMap;
use std::path::PathBuf;
use std::sync::atomic::{AtomicU64, Ordering};
use std::sync::Mutex;
use std::time::Instant;

/// Root of the verification tree; `VERIF_ROOT` overrides it (used by the isolated mutant runner so
/// that a run against a scratch copy of the repository writes its evidence elsewhere).
pub fn verif_root() -> PathBuf {
    PathBuf::from(std::env::var("VERIF_ROOT").unwrap_or_else(|_| "/verif".to_string()))
}

#[derive(Clone, Copy, Debug, PartialEq, Eq)]
pub enum Tier {
    Quick,
    Thorough,
}

#[derive(Clone, Copy, Debug, PartialEq, Eq)]
pub enum Level {
    Exploration,
    ModelChecking,
}

impl Level {
    fn as_str(&self) -> &'static str {
        match self {
            Level::Exploration => "exploration",
            Level::ModelChecking => "model_checking",
        }
    }
}

/// One observed disagreement between the implementation and the oracle.
#[derive(Clone, Debug)]
pub struct Violation {
    /// Signature: names the call site and the *shape* of the wrong behaviour. Known findings are
    /// matched by exact signature, so a check must give a different signature to a different
    /// kind of failure (e.g. `kdtree.within_range.boundary_point_included` vs
    /// `kdtree.within_range.missing_inner_point`).
    pub sig: String,
    /// Human readable: expected vs observed.
    pub what: String,
    /// The complete case (input + configuration), replayable through `--replay`.
    pub case: Value,
}

impl Violation {
    pub fn new(sig: impl Into<String>, what: impl Into<String>, case: Value) -> Self {
        Violation {
            sig: sig.into(),
            what: what.into(),
            case,
        }
    }
}

#[derive(Clone, Debug)]
struct Finding {
    key: String,
    status: String,
    what_fails: String,
    sigs: Vec<String>,
}

#[derive(Default)]
struct SigBucket {
    count: u64,
    first: Vec<Violation>,
}

pub struct Ctx {
    pub prop: String,
    pub tier: Tier,
    pub seed: u64,
    pub level: Level,
    start: Instant,
    evaluations: AtomicU64,
    nontrivial: AtomicU64,
    out_of_domain: AtomicU64,
    indeterminate: AtomicU64,
    states: AtomicU64,
    transitions: AtomicU64,
    traces: AtomicU64,
    buckets: Mutex<BTreeMap<String, SigBucket>>,
    samples: Mutex<Vec<Value>>,
    sample_tick: AtomicU64,
    extra: Mutex<Map<String, Value>>,
    assumptions: Mutex<Vec<String>>,
    rule: Mutex<String>,
    exhaustive: Mutex<bool>,
    findings: Vec<Finding>,
    replay_file: Option<PathBuf>,
    wall_cap_s: f64,
}

/// case groups currently inside `par_sweep` (label#index), for the watchdog's message
pub static IN_FLIGHT: Mutex<std::collections::BTreeSet<String>> = Mutex::new(std::collections::BTreeSet::new());

const KEEP_PER_SIG: usize = 3;
const MAX_SAMPLES: usize = 8;

fn machinery(msg: &str) -> ! {
    println!("MACHINERY-ERROR {}", msg);
    std::process::exit(2);
}

impl Ctx {
    /// Reads VERIF_TIER (quick|thorough, default quick), VERIF_SEED (default 0), the optional
    /// `--replay <file>` argument and the known-findings file.
    pub fn new(prop: &str, level: Level) -> Ctx {
        let tier = match std::env::var("VERIF_TIER").as_deref() {
            Ok("thorough") => Tier::Thorough,
            _ => Tier::Quick,
        };
        let seed = std::env::var("VERIF_SEED")
            .ok()
            .and_then(|s| s.parse::<u64>().ok())
            .unwrap_or(0);
        let args: Vec<String> = std::env::args().collect();
        let mut replay_file = None;
        let mut i = 1;
        while i < args.len() {
            if args[i] == "--replay" && i + 1 < args.len() {
                replay_file = Some(PathBuf::from(&args[i + 1]));
                i += 1;
            }
            i += 1;
        }
        let findings = load_findings(prop);
        let wall_cap_s = std::env::var("VERIF_WALL_CAP_S")
            .ok()
            .and_then(|s| s.parse::<f64>().ok())
            .unwrap_or(match tier {
                Tier::Quick => 50.0,
                Tier::Thorough => 1500.0,
            });
        // Watchdog: a subject call that never returns (a seeded or genuine non-termination) must not
        // hang the check for ever. Past the hard cap the run is abandoned as a machinery error (exit
        // 2, never a verdict) that names the case groups still in flight.
        if replay_file.is_none() {
            let hard_cap_s = std::env::var("VERIF_HARD_CAP_S")
                .ok()
                .and_then(|s| s.parse::<f64>().ok())
                .unwrap_or(wall_cap_s * 4.0 + 120.0);
            let p = prop.to_string();
            std::thread::spawn(move || {
                let t0 = Instant::now();
                loop {
                    std::thread::sleep(std::time::Duration::from_secs(2));
                    if t0.elapsed().as_secs_f64() > hard_cap_s {
                        let inflight: Vec<String> = IN_FLIGHT.lock().map(|g| g.iter().take(8).cloned().collect()).unwrap_or_default();
                        println!(
                            "MACHINERY-ERROR property={} hard cap of {:.0} s exceeded: a case did not return (case groups in flight: {:?}); no verdict",
                            p, hard_cap_s, inflight
                        );
                        std::process::exit(2);
                    }
                }
            });
        }
        // panics of the subject are caught by the checks; keep the default hook quiet so that
        // millions of expected panics (documented panics) do not flood stderr
        std::panic::set_hook(Box::new(|_| {}));
        Ctx {
            prop: prop.to_string(),
            tier,
            seed,
            level,
            start: Instant::now(),
            evaluations: AtomicU64::new(0),
            nontrivial: AtomicU64::new(0),
            out_of_domain: AtomicU64::new(0),
            indeterminate: AtomicU64::new(0),
            states: AtomicU64::new(0),
            transitions: AtomicU64::new(0),
            traces: AtomicU64::new(0),
            buckets: Mutex::new(BTreeMap::new()),
            samples: Mutex::new(Vec::new()),
            sample_tick: AtomicU64::new(0),
            extra: Mutex::new(Map::new()),
            assumptions: Mutex::new(Vec::new()),
            rule: Mutex::new(String::new()),
            exhaustive: Mutex::new(true),
            findings,
            replay_file,
            wall_cap_s,
        }
    }

    pub fn quick(&self) -> bool {
        self.tier == Tier::Quick
    }
    pub fn thorough(&self) -> bool {
        self.tier == Tier::Thorough
    }
    /// `pick(q, t)`: bound for the current tier.
    pub fn pick<T>(&self, q: T, t: T) -> T {
        if self.quick() {
            q
        } else {
            t
        }
    }
    pub fn elapsed(&self) -> f64 {
        self.start.elapsed().as_secs_f64()
    }
    /// True when the wall budget of this tier is used up; a sweep that stops because of it must
    /// call `capped(..)` so that the evidence says `exhaustive: false`.
    pub fn over_budget(&self) -> bool {
        self.elapsed() > self.wall_cap_s
    }
    pub fn capped(&self, what: &str) {
        *self.exhaustive.lock().unwrap() = false;
        let mut e = self.extra.lock().unwrap();
        let caps = e.entry("caps_hit").or_insert_with(|| json!([]));
        if let Some(a) = caps.as_array_mut() {
            if a.len() < 20 {
                a.push(json!(what));
            }
        }
    }
    pub fn replay_path(&self) -> Option<&PathBuf> {
        self.replay_file.as_ref()
    }

    /// One evaluated case. `nontrivial` per the check's stated rule.
    #[inline]
    pub fn eval(&self, nontrivial: bool) {
        self.evaluations.fetch_add(1, Ordering::Relaxed);
        if nontrivial {
            self.nontrivial.fetch_add(1, Ordering::Relaxed);
        }
    }
    #[inline]
    pub fn evals(&self, n: u64, nontrivial: u64) {
        self.evaluations.fetch_add(n, Ordering::Relaxed);
        self.nontrivial.fetch_add(nontrivial, Ordering::Relaxed);
    }
    #[inline]
    pub fn out_of_domain(&self) {
        self.out_of_domain.fetch_add(1, Ordering::Relaxed);
    }
    #[inline]
    pub fn indeterminate(&self) {
        self.indeterminate.fetch_add(1, Ordering::Relaxed);
    }
    pub fn add_states(&self, s: u64, t: u64, traces: u64) {
        self.states.fetch_add(s, Ordering::Relaxed);
        self.transitions.fetch_add(t, Ordering::Relaxed);
        self.traces.fetch_add(traces, Ordering::Relaxed);
    }
    pub fn evaluations(&self) -> u64 {
        self.evaluations.load(Ordering::Relaxed)
    }

    /// Offer a case as an evidence sample; a few, rotated by VERIF_SEED, are kept.
    pub fn sample(&self, f: impl FnOnce() -> Value) {
        let t = self.sample_tick.fetch_add(1, Ordering::Relaxed);
        // keep cases whose ordinal is a power of two shifted by the seed: spreads the samples
        // over the whole enumeration without knowing its size in advance
        let x = t + 1 + (self.seed % 7);
        if x.is_power_of_two() || t < 2 {
            let mut s = self.samples.lock().unwrap();
            if s.len() < MAX_SAMPLES * 4 {
                s.push(f());
            }
        }
    }

    pub fn set_rule(&self, r: &str) {
        *self.rule.lock().unwrap() = r.to_string();
    }
    pub fn assume(&self, a: &str) {
        self.assumptions.lock().unwrap().push(a.to_string());
    }
    pub fn extra(&self, k: &str, v: Value) {
        self.extra.lock().unwrap().insert(k.to_string(), v);
    }
    /// Adds `n` to an integer counter in the extra coverage keys.
    pub fn bump(&self, k: &str, n: u64) {
        let mut e = self.extra.lock().unwrap();
        let cur = e.get(k).and_then(|v| v.as_u64()).unwrap_or(0);
        e.insert(k.to_string(), json!(cur + n));
    }

    pub fn violation(&self, v: Violation) {
        let mut b = self.buckets.lock().unwrap();
        let e = b.entry(v.sig.clone()).or_default();
        e.count += 1;
        if e.first.len() < KEEP_PER_SIG {
            e.first.push(v);
        }
    }
    pub fn violations(&self, vs: Vec<Violation>) {
        for v in vs {
            self.violation(v);
        }
    }

    fn finding_for(&self, sig: &str) -> Option<&Finding> {
        self.findings
            .iter()
            .find(|f| f.status == "known" && f.sigs.iter().any(|s| s == sig))
    }

    /// Replay mode: run the one case of the file through `run_case`, print the verdict, exit.
    /// Normal mode: returns and lets the caller enumerate.
    pub fn maybe_replay(&self, run_case: &dyn Fn(&Value) -> Vec<Violation>) {
        let Some(p) = self.replay_file.as_ref() else {
            return;
        };
        let txt = match std::fs::read_to_string(p) {
            Ok(t) => t,
            Err(e) => machinery(&format!("cannot read replay file {}: {}", p.display(), e)),
        };
        let v: Value = match serde_json::from_str(&txt) {
            Ok(v) => v,
            Err(e) => machinery(&format!("replay file is not JSON: {}", e)),
        };
        let case = v.get("case").cloned().unwrap_or(v.clone());
        let r1 = run_case(&case);
        let r2 = run_case(&case);
        let d1: Vec<(String, String)> = r1.iter().map(|x| (x.sig.clone(), x.what.clone())).collect();
        let d2: Vec<(String, String)> = r2.iter().map(|x| (x.sig.clone(), x.what.clone())).collect();
        if d1 != d2 {
            machinery("replay diverged between two runs of the same case (uncaptured nondeterminism)");
        }
        if r1.is_empty() {
            println!("REPLAY property={} result=holds file={}", self.prop, p.display());
            std::process::exit(0);
        }
        let mut unlisted = false;
        for x in &r1 {
            match self.finding_for(&x.sig) {
                Some(f) => println!(
                    "KNOWN-FINDING: property={} {} [replayed: {}]",
                    self.prop, f.what_fails, x.what
                ),
                None => {
                    unlisted = true;
                    println!("REPLAY-VIOLATION sig={} {}", x.sig, x.what);
                }
            }
        }
        if unlisted {
            println!("VIOLATION property={} replay={}", self.prop, p.display());
            std::process::exit(1);
        }
        std::process::exit(0);
    }

    /// Writes evidence, prints verdict lines, exits. `run_case` re-runs a stored case (each new
    /// violation is replayed twice and must reproduce identically before it is reported).
    pub fn finish(&self, run_case: &dyn Fn(&Value) -> Vec<Violation>) -> ! {
        let buckets = std::mem::take(&mut *self.buckets.lock().unwrap());
        let replay_dir = verif_root().join("evidence").join("replay");
        let _ = std::fs::create_dir_all(&replay_dir);
        // remove stale artefacts of this property
        if let Ok(rd) = std::fs::read_dir(&replay_dir) {
            for e in rd.flatten() {
                let n = e.file_name().to_string_lossy().to_string();
                if n.starts_with(&format!("{}-", self.prop)) {
                    let _ = std::fs::remove_file(e.path());
                }
            }
        }
        let mut new_lines: Vec<String> = Vec::new();
        let mut unreproducible: Vec<String> = Vec::new();
        let mut known_hits: BTreeMap<String, (String, u64, String)> = BTreeMap::new();
        let mut total_new: u64 = 0;
        let mut total_known: u64 = 0;
        let mut sig_summary = Map::new();
        let mut n_file = 0usize;
        for (sig, b) in &buckets {
            let known = self.finding_for(sig);
            sig_summary.insert(
                sig.clone(),
                json!({"count": b.count, "listed_as_known_finding": known.is_some(),
                       "example": b.first.first().map(|v| v.what.clone())}),
            );
            if let Some(f) = known {
                total_known += b.count;
                let e = known_hits
                    .entry(f.key.clone())
                    .or_insert((f.what_fails.clone(), 0, String::new()));
                e.1 += b.count;
                if e.2.is_empty() {
                    if let Some(v) = b.first.first() {
                        e.2 = v.what.clone();
                    }
                }
                // still write one artefact so the finding can be replayed by hand
                if let Some(v) = b.first.first() {
                    let path = replay_dir.join(format!("{}-known-{}.json", self.prop, sanitize(sig)));
                    let _ = std::fs::write(
                        &path,
                        serde_json::to_string_pretty(&json!({"property": self.prop, "sig": v.sig,
                            "what": v.what, "case": v.case}))
                        .unwrap(),
                    );
                }
                continue;
            }
            let mut bucket_reported = false;
            for v in &b.first {
                // determinism gate: the same case must fail the same way twice
                let r1 = run_case(&v.case);
                let r2 = run_case(&v.case);
                let d1: Vec<(String, String)> =
                    r1.iter().map(|x| (x.sig.clone(), x.what.clone())).collect();
                let d2: Vec<(String, String)> =
                    r2.iter().map(|x| (x.sig.clone(), x.what.clone())).collect();
                let mut nondet: Option<String> = None;
                if d1 != d2 || !r1.iter().any(|x| x.sig == v.sig) {
                    // The subject itself may be non-deterministic (a result that depends on the
                    // iteration order of a freshly keyed hash map, say): that is a failure of the
                    // subject, not of the harness, provided the same assertion keeps failing. The
                    // signature must reappear in at least 3 of up to 10 replays; otherwise the
                    // report is not trusted.
                    let mut hits = [&r1, &r2].iter().filter(|r| r.iter().any(|x| x.sig == v.sig)).count();
                    let mut tries = 2;
                    while hits < 3 && tries < 10 {
                        tries += 1;
                        if run_case(&v.case).iter().any(|x| x.sig == v.sig) {
                            hits += 1;
                        }
                    }
                    if hits < 3 {
                        // not trusted and not reported; it only becomes a machinery error (exit 2)
                        // when nothing else in this run is a reproducible violation
                        unreproducible.push(format!(
                            "replay of case with sig={} did not reproduce (signature seen in {} of {} replays; first: {:?}; second: {:?}; original: {})",
                            v.sig, hits, tries, d1.first(), d2.first(), v.what
                        ));
                        continue;
                    }
                    nondet = Some(format!("the subject is not deterministic on this case: the same assertion failed in {} of {} replays with varying detail", hits, tries));
                }
                if !bucket_reported {
                    bucket_reported = true;
                    total_new += b.count;
                }
                n_file += 1;
                let path = replay_dir.join(format!("{}-{}.json", self.prop, n_file));
                let _ = std::fs::write(
                    &path,
                    serde_json::to_string_pretty(&json!({"property": self.prop, "sig": v.sig,
                        "what": v.what, "case": v.case, "nondeterministic_subject": nondet}))
                    .unwrap(),
                );
                new_lines.push(format!(
                    "VIOLATION property={} replay={}  # sig={} count={} :: {}",
                    self.prop,
                    path.display(),
                    v.sig,
                    b.count,
                    truncate(&v.what, 400)
                ));
            }
        }
        if !unreproducible.is_empty() {
            if new_lines.is_empty() {
                println!("MACHINERY-ERROR {}", unreproducible[0]);
                self.write_evidence(total_new, total_known, &sig_summary);
                std::process::exit(2);
            }
            for u in &unreproducible {
                println!("NOTE property={} an unreproducible report was dropped: {}", self.prop, truncate(u, 300));
            }
        }
        self.write_evidence(total_new, total_known, &sig_summary);
        for f in self.findings.iter().filter(|f| f.status == "known") {
            match known_hits.get(&f.key) {
                Some((w, n, ex)) => println!(
                    "KNOWN-FINDING: property={} {} [key={} cases={} e.g. {}]",
                    self.prop,
                    w,
                    f.key,
                    n,
                    truncate(ex, 300)
                ),
                None => println!(
                    "NOTE property={} listed known finding key={} was not observed in this run",
                    self.prop, f.key
                ),
            }
        }
        for l in &new_lines {
            println!("{}", l);
        }
        println!(
            "SUMMARY property={} tier={:?} evaluations={} nontrivial={} states={} transitions={} violations_new={} known_finding_cases={} exhaustive={} wall_s={:.1}",
            self.prop,
            self.tier,
            self.evaluations.load(Ordering::Relaxed),
            self.nontrivial.load(Ordering::Relaxed),
            self.states.load(Ordering::Relaxed),
            self.transitions.load(Ordering::Relaxed),
            total_new,
            total_known,
            *self.exhaustive.lock().unwrap(),
            self.elapsed()
        );
        if self.evaluations.load(Ordering::Relaxed) == 0 {
            machinery("no case was evaluated (vacuous run)");
        }
        std::process::exit(if total_new > 0 { 1 } else { 0 });
    }

    fn write_evidence(&self, total_new: u64, total_known: u64, sigs: &Map<String, Value>) {
        let mut cov = self.extra.lock().unwrap().clone();
        let samples = {
            let s = self.samples.lock().unwrap();
            // thin to MAX_SAMPLES, rotated by seed
            let n = s.len();
            if n <= MAX_SAMPLES {
                s.clone()
            } else {
                let off = (self.seed as usize) % n;
                (0..MAX_SAMPLES)
                    .map(|i| s[(off + i * n / MAX_SAMPLES) % n].clone())
                    .collect()
            }
        };
        cov.insert("evaluations".into(), json!(self.evaluations.load(Ordering::Relaxed)));
        cov.insert(
            "distinct_nontrivial".into(),
            json!(self.nontrivial.load(Ordering::Relaxed)),
        );
        cov.insert("rule".into(), json!(self.rule.lock().unwrap().clone()));
        cov.insert("samples".into(), Value::Array(samples));
        cov.insert("exhaustive".into(), json!(*self.exhaustive.lock().unwrap()));
        cov.insert(
            "out_of_domain".into(),
            json!(self.out_of_domain.load(Ordering::Relaxed)),
        );
        cov.insert(
            "indeterminate".into(),
            json!(self.indeterminate.load(Ordering::Relaxed)),
        );
        let st = self.states.load(Ordering::Relaxed);
        if st > 0 || self.level == Level::ModelChecking {
            cov.insert("states".into(), json!(st));
            cov.insert("transitions".into(), json!(self.transitions.load(Ordering::Relaxed)));
            cov.insert(
                "traces_validated_against_impl".into(),
                json!(self.traces.load(Ordering::Relaxed)),
            );
        }
        cov.insert("violation_signatures".into(), Value::Object(sigs.clone()));
        cov.insert("known_finding_cases".into(), json!(total_known));
        let ev = json!({
            "property_id": self.prop,
            "tier": if self.quick() { "quick" } else { "thorough" },
            "seed": self.seed,
            "level": self.level.as_str(),
            "coverage": Value::Object(cov),
            "assumptions": self.assumptions.lock().unwrap().clone(),
            "wall_s": (self.elapsed() * 100.0).round() / 100.0,
            "violations": total_new,
        });
        let dir = verif_root().join("evidence");
        let _ = std::fs::create_dir_all(&dir);
        let path = dir.join(format!("{}.json", self.prop));
        if let Err(e) = std::fs::write(&path, serde_json::to_string_pretty(&ev).unwrap()) {
            machinery(&format!("cannot write evidence {}: {}", path.display(), e));
        }
    }
}

fn sanitize(s: &str) -> String {
    s.chars()
        .map(|c| if c.is_ascii_alphanumeric() || c == '.' || c == '_' { c } else { '_' })
        .collect()
}

fn truncate(s: &str, n: usize) -> String {
    if s.chars().count() <= n {
        s.to_string()
    } else {
        let t: String = s.chars().take(n).collect();
        format!("{}...", t)
    }
}

fn load_findings(prop: &str) -> Vec<Finding> {
    let mut out = Vec::new();
    let mut files = vec![verif_root().join("known_findings.json")];
    // development aid: an additional (uncommitted) findings file, e.g. proposals of a check author
    if let Ok(extra) = std::env::var("VERIF_EXTRA_FINDINGS") {
        files.push(PathBuf::from(extra));
    }
    for p in files {
    let Ok(txt) = std::fs::read_to_string(&p) else {
        continue;
    };
    let v: Value = match serde_json::from_str(&txt) {
        Ok(v) => v,
        Err(e) => machinery(&format!("{} is not valid JSON: {}", p.display(), e)),
    };
    if let Some(arr) = v.get("findings").and_then(|a| a.as_array()) {
        for f in arr {
            if f.get("property").and_then(|x| x.as_str()) != Some(prop) {
                continue;
            }
            let sigs = f
                .get("match")
                .and_then(|m| m.get("sigs"))
                .and_then(|s| s.as_array())
                .map(|a| {
                    a.iter()
                        .filter_map(|x| x.as_str().map(|s| s.to_string()))
                        .collect()
                })
                .unwrap_or_default();
            out.push(Finding {
                key: f.get("key").and_then(|x| x.as_str()).unwrap_or("").to_string(),
                status: f
                    .get("status")
                    .and_then(|x| x.as_str())
                    .unwrap_or("known")
                    .to_string(),
                what_fails: f
                    .get("what_fails")
                    .and_then(|x| x.as_str())
                    .unwrap_or("")
                    .to_string(),
                sigs,
            });
        }
    }
    }
    out
}

/// Runs `f` catching panics of the subject. `Err(msg)` carries the panic message.
pub fn guarded<T>(f: impl FnOnce() -> T) -> Result<T, String> {
    match std::panic::catch_unwind(std::panic::AssertUnwindSafe(f)) {
        Ok(v) => Ok(v),
        Err(e) => {
            let msg = if let Some(s) = e.downcast_ref::<&str>() {
                s.to_string()
            } else if let Some(s) = e.downcast_ref::<String>() {
                s.clone()
            } else {
                "panic (non-string payload)".to_string()
            };
            Err(msg)
        }
    }
}
