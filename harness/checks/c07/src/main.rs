//! C07 — nearest-neighbour indices return the true neighbours and are interchangeable.
//! Exhaustive sweep (DESIGN.md §4 C07): every point set of the enumerated families x every query
//! of the query lattice x every k x every boundary / midpoint radius x leaf sizes x metrics x
//! {f32, f64} x the three index kinds, against a brute-force f64 distance table.

use linfa::Float;
use linfa_nn::distance::{Distance, L1Dist, L2Dist, LInfDist, LpDist};
use linfa_nn::{CommonNearestNeighbour, NearestNeighbour};
use lvmc_core::enumerate as en;
use lvmc_core::refmath::{self, Metric};
use lvmc_core::{guarded, json, par_sweep, Ctx, Level, Value, Violation};
use ndarray::{Array1, Array2};
use serde::{Deserialize, Serialize};

#[derive(Clone, Debug, Serialize, Deserialize)]
struct Case {
    family: String,
    points: Vec<Vec<f64>>,
    dim: usize,
    float: String,  // "f32" | "f64"
    metric: String, // "L1" | "L2" | "Linf" | "Lp3" | "Lp1.5"
    leaf: usize,
    queries: Vec<Vec<f64>>,
    /// memory layout of the batch handed to the index: "standard" | "colmajor" | "reversed_view" | "reversed_features"
    #[serde(default = "standard_layout")]
    layout: String,
}

fn standard_layout() -> String {
    "standard".to_string()
}

const KINDS: [(&str, CommonNearestNeighbour); 3] = [
    ("linear", CommonNearestNeighbour::LinearSearch),
    ("kdtree", CommonNearestNeighbour::KdTree),
    ("balltree", CommonNearestNeighbour::BallTree),
];

fn metric_of(s: &str) -> Metric {
    match s {
        "L1" => Metric::L1,
        "L2" => Metric::L2,
        "Linf" => Metric::LInf,
        "Lp3" => Metric::Lp(3.0),
        "Lp1.5" => Metric::Lp(1.5),
        _ => panic!("unknown metric"),
    }
}

#[derive(Default)]
struct Counters {
    evals: u64,
    nontrivial: u64,
    indeterminate: u64,
    boundary_checked: u64,
    boundary_disagreements: u64,
    documented_panics: u64,
}

fn run_case(case: &Case, viols: &mut Vec<Violation>) -> Counters {
    match (case.float.as_str(), case.metric.as_str()) {
        ("f64", "L1") => run_typed::<f64, _>(case, L1Dist, viols),
        ("f64", "L2") => run_typed::<f64, _>(case, L2Dist, viols),
        ("f64", "Linf") => run_typed::<f64, _>(case, LInfDist, viols),
        ("f64", "Lp3") => run_typed::<f64, _>(case, LpDist(3.0f64), viols),
        ("f64", "Lp1.5") => run_typed::<f64, _>(case, LpDist(1.5f64), viols),
        ("f32", "L1") => run_typed::<f32, _>(case, L1Dist, viols),
        ("f32", "L2") => run_typed::<f32, _>(case, L2Dist, viols),
        ("f32", "Linf") => run_typed::<f32, _>(case, LInfDist, viols),
        ("f32", "Lp3") => run_typed::<f32, _>(case, LpDist(3.0f32), viols),
        ("f32", "Lp1.5") => run_typed::<f32, _>(case, LpDist(1.5f32), viols),
        _ => panic!("bad case"),
    }
}

fn to_f64<F: Float>(x: F) -> f64 {
    x.to_f64().unwrap()
}

fn run_typed<F: Float, D: Distance<F> + 'static>(case: &Case, dist_fn: D, viols: &mut Vec<Violation>) -> Counters {
    use ndarray::ShapeBuilder;
    let n = case.points.len();
    let d = case.dim;
    // the same logical matrix in different memory layouts: the answers must not depend on it
    match case.layout.as_str() {
        "colmajor" => {
            let batch: Array2<F> = Array2::from_shape_fn((n, d).f(), |(i, j)| F::from(case.points[i][j]).unwrap());
            run_on(case, &batch, dist_fn, viols)
        }
        "reversed_features" => {
            // rows with stride -1: contiguous in memory order, but not in logical order
            let rev: Array2<F> = Array2::from_shape_fn((n, d), |(i, j)| F::from(case.points[i][d - 1 - j]).unwrap());
            let view = rev.slice(ndarray::s![.., ..;-1]);
            run_on(case, &view, dist_fn, viols)
        }
        "reversed_view" => {
            let rev: Array2<F> = Array2::from_shape_fn((n, d), |(i, j)| F::from(case.points[n - 1 - i][j]).unwrap());
            let view = rev.slice(ndarray::s![..;-1, ..]);
            run_on(case, &view, dist_fn, viols)
        }
        _ => {
            let batch: Array2<F> = Array2::from_shape_fn((n, d), |(i, j)| F::from(case.points[i][j]).unwrap());
            run_on(case, &batch, dist_fn, viols)
        }
    }
}

fn run_on<F: Float, D: Distance<F> + 'static, S: ndarray::Data<Elem = F>>(case: &Case, batch: &ndarray::ArrayBase<S, ndarray::Ix2>, dist_fn: D, viols: &mut Vec<Violation>) -> Counters {
    let mut cnt = Counters::default();
    let n = case.points.len();
    let d = case.dim;
    let metric = metric_of(&case.metric);
    let tol = if case.float == "f32" { 2e-5 } else { 1e-11 };
    // coordinates as the subject sees them (after rounding to F), for the reference
    let pts: Vec<Vec<f64>> = (0..n).map(|i| (0..d).map(|j| to_f64(batch[(i, j)])).collect()).collect();
    let cj = |extra: Value| -> Value {
        let mut v = serde_json::to_value(case).unwrap();
        v.as_object_mut().unwrap().insert("at".into(), extra);
        v
    };

    // build the three indices
    let mut idx = Vec::new();
    for (name, kind) in KINDS.iter() {
        // leaf == 0 in a case stands for `from_batch`, the constructor with the default leaf size
        match guarded(|| if case.leaf == 0 { kind.from_batch(batch, dist_fn.clone()) } else { kind.from_batch_with_leaf_size(batch, case.leaf, dist_fn.clone()) }) {
            Ok(Ok(ix)) => idx.push((*name, ix)),
            Ok(Err(e)) => {
                viols.push(Violation::new(
                    format!("{}.build.unexpected_error", name),
                    format!("building a valid index (n={}, d={}, leaf={}) returned Err({})", n, d, case.leaf, e),
                    cj(json!({"op": "build"})),
                ));
                return cnt;
            }
            Err(p) if *name == "kdtree" && (case.layout == "colmajor" || case.layout == "reversed_features") && p.contains("contiguous") => {
                // documented: "KdTree requires that points be laid out contiguously in memory and
                // will panic otherwise" - rows of a column-major batch are not contiguous
                cnt.documented_panics += 1;
            }
            Err(p) => {
                viols.push(Violation::new(
                    format!("{}.build.panic", name),
                    format!("building a valid index (n={}, d={}, leaf={}) panicked: {}", n, d, case.leaf, p),
                    cj(json!({"op": "build"})),
                ));
                return cnt;
            }
        }
    }

    for q in &case.queries {
        let qf: Array1<F> = Array1::from_iter(q.iter().map(|&x| F::from(x).unwrap()));
        // in the reversed-feature layout the query point, too, is a view with stride -1
        let qrev: Array1<F> = qf.iter().rev().cloned().collect();
        let qview = if case.layout == "reversed_features" { qrev.slice(ndarray::s![..;-1]) } else { qf.view() };
        let q64: Vec<f64> = qf.iter().map(|&x| to_f64(x)).collect();
        let dref: Vec<f64> = pts.iter().map(|p| refmath::dist(metric, &q64, p)).collect();
        let mut sorted = dref.clone();
        sorted.sort_by(|a, b| a.partial_cmp(b).unwrap());
        let scale = sorted.last().cloned().unwrap_or(1.0).max(1.0);

        // ---------------- k nearest ----------------
        // small sets: every k; deep sets (n > 12): the small k, the middle and everything around n
        let ks: Vec<usize> = if n <= 12 { (0..=n + 2).collect() } else { vec![0, 1, 2, 3, 5, 8, n / 2, n - 1, n, n + 1, n + 2] };
        for k in ks {
            for (name, ix) in idx.iter() {
                cnt.evals += 1;
                if n >= 2 && k >= 1 && k < n {
                    cnt.nontrivial += 1;
                }
                let at = json!({"op": "k_nearest", "kind": name, "query": q, "k": k});
                let res = match guarded(|| ix.k_nearest(qview, k)) {
                    Ok(Ok(r)) => r,
                    Ok(Err(e)) => {
                        viols.push(Violation::new(
                            format!("{}.k_nearest.unexpected_error", name),
                            format!("valid query returned Err({})", e),
                            cj(at),
                        ));
                        continue;
                    }
                    Err(p) if *name == "kdtree" && case.layout == "reversed_features" && p.contains("contiguous") => {
                        cnt.documented_panics += 1;
                        continue;
                    }
                    Err(p) => {
                        let sig = if k == 0 { format!("{}.k_nearest.k0_panic", name) } else { format!("{}.k_nearest.panic", name) };
                        viols.push(Violation::new(sig, format!("k_nearest(k={}) on {} points panicked: {}", k, n, p), cj(at)));
                        continue;
                    }
                };
                let want = k.min(n);
                if res.len() != want {
                    viols.push(Violation::new(
                        format!("{}.k_nearest.wrong_len", name),
                        format!("k={} n={}: expected {} results, got {}", k, n, want, res.len()),
                        cj(at),
                    ));
                    continue;
                }
                let mut seen = vec![false; n];
                let mut got: Vec<f64> = Vec::new();
                let mut bad = false;
                for (pt, i) in res.iter() {
                    if *i >= n {
                        viols.push(Violation::new(format!("{}.k_nearest.bad_index", name), format!("index {} out of range (n={})", i, n), cj(at.clone())));
                        bad = true;
                        break;
                    }
                    if seen[*i] {
                        viols.push(Violation::new(format!("{}.k_nearest.dup_index", name), format!("index {} returned twice", i), cj(at.clone())));
                        bad = true;
                        break;
                    }
                    seen[*i] = true;
                    let coords: Vec<f64> = pt.iter().map(|&x| to_f64(x)).collect();
                    if coords != pts[*i] {
                        viols.push(Violation::new(
                            format!("{}.k_nearest.point_mismatch", name),
                            format!("returned coordinates {:?} are not row {} = {:?}", coords, i, pts[*i]),
                            cj(at.clone()),
                        ));
                        bad = true;
                        break;
                    }
                    got.push(dref[*i]);
                }
                if bad {
                    continue;
                }
                if got.windows(2).any(|w| w[0] > w[1] + tol * scale) {
                    viols.push(Violation::new(
                        format!("{}.k_nearest.not_ascending", name),
                        format!("distances of the returned points are not ascending: {:?}", got),
                        cj(at),
                    ));
                    continue;
                }
                let mut g2 = got.clone();
                g2.sort_by(|a, b| a.partial_cmp(b).unwrap());
                if g2.iter().zip(sorted.iter()).any(|(a, b)| (a - b).abs() > tol * scale) {
                    viols.push(Violation::new(
                        format!("{}.k_nearest.wrong_distances", name),
                        format!("returned distances {:?} but the {} smallest are {:?}", g2, want, &sorted[..want]),
                        cj(at),
                    ));
                }
            }
        }

        // ---------------- range queries ----------------
        let mut distinct: Vec<f64> = Vec::new();
        for &x in &sorted {
            if distinct.last().map_or(true, |&l| x - l > tol * scale) {
                distinct.push(x);
            }
        }
        let mut radii: Vec<(f64, &'static str)> = vec![(0.0, "zero")];
        for w in distinct.windows(2) {
            radii.push(((w[0] + w[1]) / 2.0, "midpoint"));
        }
        for &x in &distinct {
            if x > 0.0 {
                radii.push((x, "exact"));
            }
        }
        if let Some(&f) = distinct.first() {
            if f > 0.0 {
                radii.push((f / 2.0, "below_min"));
            }
        }
        radii.push((scale * 2.0 + 1.0, "beyond"));
        for (r, rclass) in radii {
            let rf = F::from(r).unwrap();
            let r64 = to_f64(rf);
            let mut sets: Vec<(&str, Vec<usize>)> = Vec::new();
            for (name, ix) in idx.iter() {
                cnt.evals += 1;
                let inside = dref.iter().filter(|&&x| x < r64).count();
                if inside > 0 && inside < n {
                    cnt.nontrivial += 1;
                }
                let at = json!({"op": "within_range", "kind": name, "query": q, "radius": r64, "radius_class": rclass});
                let res = match guarded(|| ix.within_range(qview, rf)) {
                    Ok(Ok(r)) => r,
                    Ok(Err(e)) => {
                        viols.push(Violation::new(format!("{}.within_range.unexpected_error", name), format!("valid query returned Err({})", e), cj(at)));
                        continue;
                    }
                    Err(p) if *name == "kdtree" && case.layout == "reversed_features" && p.contains("contiguous") => {
                        cnt.documented_panics += 1;
                        continue;
                    }
                    Err(p) => {
                        viols.push(Violation::new(format!("{}.within_range.panic", name), format!("within_range(r={}) panicked: {}", r64, p), cj(at)));
                        continue;
                    }
                };
                let mut set: Vec<usize> = Vec::new();
                let mut bad = false;
                for (pt, i) in res.iter() {
                    if *i >= n || set.contains(i) {
                        viols.push(Violation::new(format!("{}.within_range.bad_index", name), format!("index {} out of range or duplicated (n={})", i, n), cj(at.clone())));
                        bad = true;
                        break;
                    }
                    let coords: Vec<f64> = pt.iter().map(|&x| to_f64(x)).collect();
                    if coords != pts[*i] {
                        viols.push(Violation::new(format!("{}.within_range.point_mismatch", name), format!("returned coordinates {:?} are not row {} = {:?}", coords, i, pts[*i]), cj(at.clone())));
                        bad = true;
                        break;
                    }
                    set.push(*i);
                }
                if bad {
                    continue;
                }
                set.sort();
                let band = tol * scale.max(r64);
                for i in 0..n {
                    let has = set.binary_search(&i).is_ok();
                    if dref[i] < r64 - band && !has {
                        viols.push(Violation::new(
                            format!("{}.within_range.missing_inner", name),
                            format!("point {} at distance {} < radius {} is missing from {:?}", i, dref[i], r64, set),
                            cj(at.clone()),
                        ));
                        break;
                    }
                    if dref[i] > r64 + band && has {
                        viols.push(Violation::new(
                            format!("{}.within_range.includes_outer", name),
                            format!("point {} at distance {} > radius {} was returned", i, dref[i], r64),
                            cj(at.clone()),
                        ));
                        break;
                    }
                }
                sets.push((name, set));
            }
            // The three kinds must treat points lying EXACTLY on the radius alike. "Exactly" is decided
            // in exact arithmetic: coordinates, query and radius are small dyadic rationals (non-generic
            // families) and the metric is L1 / Linf (sums / maxima of dyadics are exact) or L2 with a
            // perfect-square squared distance. Points merely within rounding distance of the radius
            // are indeterminate (either answer accepted) and counted as such.
            if sets.len() == 3 {
                let exact_family = !case.family.ends_with("generic");
                let on_radius: Vec<usize> = (0..n)
                    .filter(|&i| {
                        if !exact_family {
                            return false;
                        }
                        match metric {
                            Metric::L1 | Metric::LInf => dref[i] == r64,
                            Metric::L2 => {
                                let sq = refmath::sqdist(&q64, &pts[i]);
                                let rt = sq.sqrt();
                                rt * rt == sq && rt == r64
                            }
                            _ => false,
                        }
                    })
                    .collect();
                let near: usize = (0..n).filter(|&i| (dref[i] - r64).abs() <= tol * scale.max(r64) && !on_radius.contains(&i)).count();
                cnt.indeterminate += near as u64;
                let mut disagree = false;
                let mut including: Vec<&str> = Vec::new();
                for &i in &on_radius {
                    let has: Vec<bool> = sets.iter().map(|(_, s)| s.binary_search(&i).is_ok()).collect();
                    if !(has[0] == has[1] && has[1] == has[2]) {
                        disagree = true;
                        for (j, h) in has.iter().enumerate() {
                            if *h && !including.contains(&sets[j].0) {
                                including.push(sets[j].0);
                            }
                        }
                    }
                }
                if disagree {
                    cnt.boundary_disagreements += 1;
                    viols.push(Violation::new(
                        format!("{}.within_range.boundary_point_included", including.join("+")),
                        format!(
                            "radius {} ({}), points exactly on the radius {:?}: linear={:?} kdtree={:?} balltree={:?} (closed ball in {} vs open ball in the others)",
                            r64, rclass, on_radius, sets[0].1, sets[1].1, sets[2].1, including.join("+")
                        ),
                        cj(json!({"op": "within_range", "kind": "all", "query": q, "radius": r64, "radius_class": rclass})),
                    ));
                }
                if !on_radius.is_empty() {
                    cnt.boundary_checked += 1;
                }
            }
        }

        // ---------------- wrong query dimension ----------------
        let wrong: Array1<F> = Array1::from_elem(d + 1, F::zero());
        for (name, ix) in idx.iter() {
            for op in ["k_nearest", "within_range"] {
                cnt.evals += 1;
                let r = guarded(|| {
                    if op == "k_nearest" {
                        ix.k_nearest(wrong.view(), 1).map(|v| v.len())
                    } else {
                        ix.within_range(wrong.view(), F::one()).map(|v| v.len())
                    }
                });
                let at = json!({"op": op, "kind": name, "query": "wrong dimension d+1"});
                match r {
                    Ok(Err(_)) => {}
                    Ok(Ok(m)) => viols.push(Violation::new(
                        format!("{}.{}.wrong_dimension_answered", name, op),
                        format!("query of dimension {} against index of dimension {} (n={}) answered with {} points instead of an error", d + 1, d, n, m),
                        cj(at),
                    )),
                    Err(p) => viols.push(Violation::new(
                        format!("{}.{}.wrong_dimension_panic", name, op),
                        format!("query of dimension {} against index of dimension {} (n={}) panicked: {}", d + 1, d, n, p),
                        cj(at),
                    )),
                }
            }
        }
    }
    cnt
}

/// Malformed builds: zero columns, zero leaf size — must be `Err`, for every kind and float type.
fn error_menu(ctx: &Ctx) {
    let mut out = Vec::new();
    let n = MenuCollector.run(&mut out);
    ctx.evals(n, n);
    ctx.violations(out);
}

fn replay_value(v: &Value) -> Vec<Violation> {
    if v.get("menu").is_some() {
        // error-menu cases are re-run as a whole
        let mut out = Vec::new();
        MenuCollector.run(&mut out);
        let sig_kind = v.get("kind").and_then(|k| k.as_str()).unwrap_or("");
        let menu = v.get("menu").and_then(|k| k.as_str()).unwrap_or("");
        return out
            .into_iter()
            .filter(|x| x.case.get("kind").and_then(|k| k.as_str()) == Some(sig_kind) && x.case.get("menu").and_then(|k| k.as_str()) == Some(menu) && x.case.get("n") == v.get("n"))
            .collect();
    }
    let mut c: Case = match serde_json::from_value(v.clone()) {
        Ok(c) => c,
        Err(e) => {
            println!("MACHINERY-ERROR replay case does not parse: {}", e);
            std::process::exit(2);
        }
    };
    // narrow to the failing query when the artefact names one
    if let Some(q) = v.get("at").and_then(|a| a.get("query")).and_then(|q| q.as_array()) {
        let q: Vec<f64> = q.iter().filter_map(|x| x.as_f64()).collect();
        if q.len() == c.dim {
            c.queries = vec![q];
        }
    }
    let at = v.get("at").cloned();
    let mut out = Vec::new();
    run_case(&c, &mut out);
    // keep the violations that belong to the recorded operation
    if let Some(at) = at {
        let op = at.get("op").cloned();
        let k = at.get("k").cloned();
        let radius = at.get("radius").cloned();
        out.retain(|x| {
            let a = x.case.get("at");
            a.and_then(|a| a.get("op")).cloned() == op
                && (k.is_none() || a.and_then(|a| a.get("k")).cloned() == k)
                && (radius.is_none() || a.and_then(|a| a.get("radius")).cloned() == radius)
        });
    }
    out
}

#[derive(Default)]
struct MenuCollector;
impl MenuCollector {
    fn run(&self, out: &mut Vec<Violation>) -> u64 {
        let mut evals = 0;
        for (name, kind) in KINDS.iter() {
            for n in [0usize, 1, 3] {
                evals += 2;
                let zero_dim: Array2<f64> = Array2::zeros((n, 0));
                match guarded(|| kind.from_batch_with_leaf_size(&zero_dim, 2, L2Dist).map(|_| ())) {
                    Ok(Err(_)) => {}
                    Ok(Ok(())) => out.push(Violation::new(format!("{}.build.zero_dimension_accepted", name), format!("batch {}x0 was accepted", n), json!({"menu": "zero_dim", "kind": name, "n": n}))),
                    Err(p) => out.push(Violation::new(format!("{}.build.zero_dimension_panic", name), format!("batch {}x0 panicked: {}", n, p), json!({"menu": "zero_dim", "kind": name, "n": n}))),
                }
                let ok: Array2<f32> = Array2::zeros((n, 2));
                match guarded(|| kind.from_batch_with_leaf_size(&ok, 0, L1Dist).map(|_| ())) {
                    Ok(Err(_)) => {}
                    Ok(Ok(())) => out.push(Violation::new(format!("{}.build.zero_leaf_accepted", name), format!("leaf size 0 was accepted (n={})", n), json!({"menu": "zero_leaf", "kind": name, "n": n}))),
                    Err(p) => out.push(Violation::new(format!("{}.build.zero_leaf_panic", name), format!("leaf size 0 panicked: {}", p), json!({"menu": "zero_leaf", "kind": name, "n": n}))),
                }
            }
        }
        evals
    }
}

fn main() {
    let ctx = Ctx::new("C07", Level::Exploration);
    ctx.maybe_replay(&replay_value);
    ctx.set_rule(
        "cases = (point set, float type, metric, leaf size); point sets: all multisets of <=5 / <=6 points of {0..4} (1-D, duplicates), \
         all subsets of <=5 (quick) / <=7 (thorough) points of the 3x3 lattice, their generic-position images (constant jitter table), all subsets of <=4 / <=6 corners of the unit cube, \
         a dimension sweep d in {1,2,3,4,5,6,7,8,9,16,17} over all multisets of <=4 of 5 pool vectors, plus empty / single / all-equal sets; \
         deep trees: the 4x4 lattice minus every set of <=1 / <=2 points, the 5x5 lattice with a duplicated row, 34 / 70 1-D points with duplicates, the 3x3x3 lattice, \
         each with leaf sizes {default via from_batch, 1, 4, 16} (thorough: + 2, 3, 5, n; quick: metrics L1 / L2 / Linf only) and every half-lattice query of the bounding box; \
         per case: every lattice and half-lattice query + one far query, k = 0..n+2 (deep sets with n > 12: k in {0,1,2,3,5,8,n/2,n-1,n,n+1,n+2}), radii = 0, every distinct query-point distance exactly, \
         every midpoint between consecutive distances, below the minimum, beyond the maximum; all three index kinds; the 2-D / 3-D / d-dimensional exact families are additionally handed over as a column-major array, as a reversed-row view of a reversed copy and with a reversed feature axis (rows and query points with stride -1) (L1, L2; every metric for the dimension sweep): the answers must be those of the standard layout (k-d tree: or its documented contiguity panic). \
         evaluations = individual queries; non-trivial = k-nearest with 0<k<n on n>=2 points, range queries whose open ball contains some but not all points; \
         distinct by construction of the enumerators.",
    );
    ctx.assume("reference = brute-force distance table in f64 computed from the coordinates as rounded to the subject's float type");
    ctx.assume("float tolerance for comparing distances: 1e-11 (f64) / 2e-5 (f32) relative to the largest distance; points within that band of a radius may be in or out (counted as indeterminate) - also between the three kinds, which round differently (the ball tree's sqrt-then-square lower bound is one ulp above a point's squared distance for radii such as fl(sqrt 2)); points that are on the radius in exact arithmetic must be excluded by all three kinds");

    // ---------------- enumerate cases ----------------
    let mut sets: Vec<(String, Vec<Vec<f64>>, usize)> = Vec::new();
    // A: 1-D multisets with duplicates (includes empty, single, all-equal)
    for ms in en::multisets_upto(5, 0, ctx.pick(5, 6), 6) {
        sets.push(("1d_multiset".into(), ms.iter().map(|&i| vec![i as f64]).collect(), 1));
    }
    // B, C: 2-D lattice subsets and generic-position images
    let lat = en::lattice_points(2, 3);
    let nmax = ctx.pick(5, 7);
    for ss in en::subsets_upto(9, 1, nmax) {
        let p: Vec<Vec<f64>> = ss.iter().map(|&i| lat[i].iter().map(|&v| v as f64).collect()).collect();
        sets.push(("lattice3x3".into(), p.clone(), 2));
        let g: Vec<Vec<f64>> = ss
            .iter()
            .map(|&i| lat[i].iter().enumerate().map(|(j, &v)| v as f64 + en::jitter(i, j)).collect())
            .collect();
        sets.push(("lattice3x3_generic".into(), g, 2));
    }
    // B3: 3-D cube lattice {0,1}^3 (many equidistant ties in three dimensions)
    let cube = en::lattice_points(3, 2);
    for ss in en::subsets_upto(8, 1, ctx.pick(4, 6)) {
        let p: Vec<Vec<f64>> = ss.iter().map(|&i| cube[i].iter().map(|&v| v as f64).collect()).collect();
        sets.push(("cube2x2x2".into(), p, 3));
    }
    // D: dimension sweep
    // incl. dimensions that are not multiples of 4 (chunked / unrolled distance kernels have a remainder loop)
    for &d in &[1usize, 2, 3, 4, 5, 6, 7, 8, 9, 16, 17] {
        let pool: Vec<Vec<f64>> = vec![
            vec![0.0; d],
            (0..d).map(|j| if j == 0 { 1.0 } else { 0.0 }).collect(),
            (0..d).map(|j| if j == d - 1 { 2.0 } else { 0.0 }).collect(),
            vec![1.0; d],
            (0..d).map(|j| (j as f64) * 0.5 - 1.0).collect(),
        ];
        for ms in en::multisets_upto(5, 1, 4, 2) {
            sets.push((format!("dim{}", d), ms.iter().map(|&i| pool[i].clone()).collect(), d));
        }
    }
    // E: deep trees - point sets well above the small leaf sizes and above the default leaf size 16:
    // the 4x4 lattice minus every set of <=1 (quick) / <=2 (thorough) points, the whole 5x5 lattice with a
    // duplicated row of points, 34 / 70 1-D points with duplicates, and the 3x3x3 lattice
    let lat4 = en::lattice_points(2, 4);
    for ss in en::subsets_upto(16, 0, ctx.pick(1, 2)) {
        let p: Vec<Vec<f64>> = (0..16).filter(|i| !ss.contains(i)).map(|i| lat4[i].iter().map(|&v| v as f64).collect()).collect();
        sets.push(("deep4x4".into(), p, 2));
    }
    {
        let lat5 = en::lattice_points(2, 5);
        let mut p: Vec<Vec<f64>> = lat5.iter().map(|q| q.iter().map(|&v| v as f64).collect()).collect();
        for a in 0..5 {
            p.push(vec![a as f64, 2.0]);
        }
        sets.push(("deep5x5dup".into(), p, 2));
        let m = ctx.pick(34, 70);
        let p1: Vec<Vec<f64>> = (0..m).map(|i| vec![((i * 7) % 23) as f64 * 0.5]).collect();
        sets.push(("deep1d".into(), p1, 1));
        let lat3 = en::lattice_points(3, 3);
        sets.push(("deep3x3x3".into(), lat3.iter().map(|q| q.iter().map(|&v| v as f64).collect()).collect(), 3));
    }
    // F: deep trees in generic position - a fixed scatter (constant LCG table, coordinates multiples of 1/8 so that
    // L1 / Linf / squared L2 are exact) in 2-D and 3-D, in three input orders (as generated, sorted by the first
    // coordinate, sorted by distance from the centroid - far points last); symmetric lattices hide errors that
    // depend on which points a node summarises
    for &(d, n) in ctx.pick(&[(2usize, 40usize), (3, 40), (5, 30)][..], &[(2, 40), (3, 40), (5, 30), (7, 40), (2, 100), (3, 100), (8, 60), (9, 60)][..]) {
        let mut st: u64 = 0x9E37_79B9 + d as u64 * 1000 + n as u64;
        let mut next = || {
            st = st.wrapping_mul(6364136223846793005).wrapping_add(1442695040888963407);
            ((st >> 33) % 64) as f64 / 8.0
        };
        let base: Vec<Vec<f64>> = (0..n).map(|_| (0..d).map(|_| next()).collect()).collect();
        sets.push((format!("deep_scatter{}d", d), base.clone(), d));
        let mut byx = base.clone();
        byx.sort_by(|a, b| a.partial_cmp(b).unwrap());
        sets.push((format!("deep_scatter{}d_sorted", d), byx, d));
        let cen: Vec<f64> = (0..d).map(|j| base.iter().map(|p| p[j]).sum::<f64>() / n as f64).collect();
        let mut byr = base.clone();
        byr.sort_by(|a, b| refmath::dist(refmath::Metric::L2, a, &cen).partial_cmp(&refmath::dist(refmath::Metric::L2, b, &cen)).unwrap());
        sets.push((format!("deep_scatter{}d_far_last", d), byr, d));
    }
    let metrics = ["L1", "L2", "Linf", "Lp3", "Lp1.5"];
    let floats = ["f64", "f32"];
    let mut cases: Vec<Case> = Vec::new();
    for (fam, pts, d) in &sets {
        let n = pts.len();
        let deep = fam.starts_with("deep");
        let queries: Vec<Vec<f64>> = if fam.starts_with("deep_scatter") {
            // every point itself, the midpoint of every consecutive pair, the centroid, one far query
            let mut q: Vec<Vec<f64>> = pts.clone();
            for w in pts.windows(2) {
                q.push((0..*d).map(|j| (w[0][j] + w[1][j]) / 2.0).collect());
            }
            q.push((0..*d).map(|j| pts.iter().map(|p| p[j]).sum::<f64>() / n as f64).collect());
            q.push((0..*d).map(|j| 40.0 - 90.0 * j as f64).collect());
            q
        } else if deep {
            // every half-lattice position of the bounding box (3-D: every lattice position and the centre offsets) + one far query
            let mx = pts.iter().flat_map(|p| p.iter().cloned()).fold(0.0f64, f64::max);
            let steps = (mx * 2.0) as usize;
            let mut q: Vec<Vec<f64>> = match *d {
                1 => (0..=steps).map(|i| vec![i as f64 * 0.5]).collect(),
                2 => (0..=steps).flat_map(|a| (0..=steps).map(move |b| vec![a as f64 * 0.5, b as f64 * 0.5])).collect(),
                _ => (0..=steps).flat_map(|a| (0..=steps).flat_map(move |b| (0..=steps).step_by(2).map(move |c| vec![a as f64 * 0.5, b as f64 * 0.5, c as f64 * 0.5 + 0.25]))).collect(),
            };
            q.push((0..*d).map(|j| 40.0 - 90.0 * j as f64).collect());
            q
        } else if *d == 1 {
            let mut q: Vec<Vec<f64>> = (0..=8).map(|i| vec![i as f64 * 0.5]).collect();
            q.push(vec![100.0]);
            q
        } else if *d == 2 {
            let mut q = Vec::new();
            for a in 0..=4 {
                for b in 0..=4 {
                    q.push(vec![a as f64 * 0.5, b as f64 * 0.5]);
                }
            }
            q.push(vec![-50.0, 75.0]);
            q
        } else if fam == "cube2x2x2" {
            let mut q = Vec::new();
            for a in 0..=2 {
                for b in 0..=2 {
                    for c in 0..=2 {
                        q.push(vec![a as f64 * 0.5, b as f64 * 0.5, c as f64 * 0.5]);
                    }
                }
            }
            q.push(vec![9.0, -9.0, 30.0]);
            q
        } else {
            vec![vec![0.0; *d], vec![1.0; *d], vec![0.5; *d], (0..*d).map(|j| if j % 2 == 0 { 1.5 } else { -0.5 }).collect(), vec![100.0; *d]]
        };
        let mut leafs = vec![1usize, n.max(1)];
        if ctx.thorough() {
            leafs.push(2);
            leafs.push(3);
        }
        if deep {
            // 0 = `from_batch` (default leaf size); 4 and 16 put several levels / one level above the leaves
            leafs = vec![0, 1, 4, 16];
            if ctx.thorough() {
                leafs.extend([2, 3, 5, n]);
            }
        }
        leafs.sort();
        leafs.dedup();
        for f in floats {
            for m in metrics {
                // quick tier: the deep sets run the three exact metrics only (Lp in thorough)
                if deep && !ctx.thorough() && m.starts_with("Lp") {
                    continue;
                }
                for &leaf in &leafs {
                    cases.push(Case { family: fam.clone(), points: pts.clone(), dim: *d, float: f.into(), metric: m.into(), leaf, queries: queries.clone(), layout: "standard".into() });
                    // other memory layouts of the same matrix (only where they differ: n >= 2, d >= 2)
                    // (every metric for the dimension sweep - each metric has its own distance kernel)
                    if *d >= 2 && n >= 2 && !fam.ends_with("generic") && (m == "L2" || m == "L1" || fam.starts_with("dim")) {
                        for lay in ["colmajor", "reversed_view", "reversed_features"] {
                            cases.push(Case { family: fam.clone(), points: pts.clone(), dim: *d, float: f.into(), metric: m.into(), leaf, queries: queries.clone(), layout: lay.into() });
                        }
                    }
                }
            }
        }
    }
    ctx.extra("point_sets", json!(sets.len()));
    ctx.extra("cases_enumerated", json!(cases.len()));

    let done = std::sync::atomic::AtomicU64::new(0);
    let bchecked = std::sync::atomic::AtomicU64::new(0);
    let docpanics = std::sync::atomic::AtomicU64::new(0);
    let indet = std::sync::atomic::AtomicU64::new(0);
    par_sweep(&ctx, "nn sweep", &cases, |c| {
        let mut v = Vec::new();
        let cnt = run_case(c, &mut v);
        ctx.evals(cnt.evals, cnt.nontrivial);
        bchecked.fetch_add(cnt.boundary_checked, std::sync::atomic::Ordering::Relaxed);
        docpanics.fetch_add(cnt.documented_panics, std::sync::atomic::Ordering::Relaxed);
        indet.fetch_add(cnt.indeterminate, std::sync::atomic::Ordering::Relaxed);
        ctx.violations(v);
        done.fetch_add(1, std::sync::atomic::Ordering::Relaxed);
        ctx.sample(|| json!({"family": c.family, "points": c.points, "float": c.float, "metric": c.metric, "leaf": c.leaf, "layout": c.layout, "n_queries": c.queries.len()}));
    });
    ctx.extra("cases_completed", json!(done.load(std::sync::atomic::Ordering::Relaxed)));
    ctx.extra("range_queries_with_points_exactly_on_radius", json!(bchecked.load(std::sync::atomic::Ordering::Relaxed)));
    ctx.extra("points_within_rounding_of_radius_indeterminate", json!(indet.load(std::sync::atomic::Ordering::Relaxed)));
    ctx.extra("kdtree_documented_panics_on_column_major_batches", json!(docpanics.load(std::sync::atomic::Ordering::Relaxed)));
    error_menu(&ctx);
    ctx.finish(&replay_value);
}
