// Passes the location of the linfa tree this binary is compiled against (the `path` of the
// `linfa` dependency in Cargo.toml: /repo, or the scratch worktree of the mutant runner) to the
// source scanner of the check.
fn main() {
    println!("cargo:rerun-if-changed=Cargo.toml");
    let txt = std::fs::read_to_string("Cargo.toml").expect("Cargo.toml");
    let mut root = String::from("/repo");
    for l in txt.lines() {
        let t = l.trim();
        if t.starts_with("linfa =") {
            if let Some(i) = t.find("path = \"") {
                let rest = &t[i + 8..];
                if let Some(j) = rest.find('"') {
                    root = rest[..j].to_string();
                }
            }
        }
    }
    println!("cargo:rustc-env=C19_REPO_ROOT={}", root);
}
