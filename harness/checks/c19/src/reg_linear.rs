//! Registry part 3: linfa-linear, linfa-elasticnet, linfa-logistic, linfa-ftrl, linfa-pls,
//! linfa-reduction (PCA), linfa-ica.

use crate::data::*;
use crate::engine::*;
use crate::reg_cluster::SF;
use crate::reg_core::linfa_errors;
use linfa::prelude::*;
use linfa::Float;
use ndarray::{Array1, Array2, Ix1};
use rand_xoshiro::Xoshiro256Plus;

pub fn entries() -> Vec<Entry> {
    vec![
        Entry { id: "linear.LinearRegression", sites: &[("algorithms/linfa-linear/src/ols.rs", "LinearRegression")], run: ols_params },
        Entry { id: "linear.FittedLinearRegression", sites: &[("algorithms/linfa-linear/src/ols.rs", "FittedLinearRegression")], run: ols_model },
        Entry { id: "linear.IsotonicRegression", sites: &[("algorithms/linfa-linear/src/isotonic.rs", "IsotonicRegression")], run: iso_params },
        Entry { id: "linear.FittedIsotonicRegression", sites: &[("algorithms/linfa-linear/src/isotonic.rs", "FittedIsotonicRegression")], run: iso_model },
        Entry { id: "linear.Link", sites: &[("algorithms/linfa-linear/src/glm/link.rs", "Link")], run: glm_link },
        Entry { id: "linear.TweedieRegressorValidParams", sites: &[("algorithms/linfa-linear/src/glm/hyperparams.rs", "TweedieRegressorValidParams")], run: tweedie_params },
        Entry { id: "linear.TweedieRegressor", sites: &[("algorithms/linfa-linear/src/glm/mod.rs", "TweedieRegressor")], run: tweedie_model },
        Entry { id: "elasticnet.ElasticNetError", sites: &[("algorithms/linfa-elasticnet/src/error.rs", "ElasticNetError")], run: enet_error },
        Entry { id: "elasticnet.ElasticNetValidParamsBase", sites: &[("algorithms/linfa-elasticnet/src/hyperparams.rs", "ElasticNetValidParamsBase")], run: enet_params },
        Entry { id: "elasticnet.ElasticNet", sites: &[("algorithms/linfa-elasticnet/src/lib.rs", "ElasticNet")], run: enet_model },
        Entry { id: "elasticnet.MultiTaskElasticNet", sites: &[("algorithms/linfa-elasticnet/src/lib.rs", "MultiTaskElasticNet")], run: mt_enet_model },
        Entry { id: "logistic.LogisticRegressionParams", sites: &[("algorithms/linfa-logistic/src/hyperparams.rs", "LogisticRegressionParams")], run: logistic_params },
        Entry { id: "logistic.LogisticRegressionValidParams", sites: &[("algorithms/linfa-logistic/src/hyperparams.rs", "LogisticRegressionValidParams")], run: logistic_valid_params },
        Entry { id: "logistic.FittedLogisticRegression", sites: &[("algorithms/linfa-logistic/src/lib.rs", "FittedLogisticRegression")], run: logistic_model },
        Entry { id: "logistic.MultiFittedLogisticRegression", sites: &[("algorithms/linfa-logistic/src/lib.rs", "MultiFittedLogisticRegression")], run: multi_logistic_model },
        Entry { id: "logistic.ClassLabel", sites: &[("algorithms/linfa-logistic/src/lib.rs", "ClassLabel")], run: class_label },
        Entry { id: "logistic.BinaryClassLabels", sites: &[("algorithms/linfa-logistic/src/lib.rs", "BinaryClassLabels")], run: binary_class_labels },
        Entry { id: "ftrl.FtrlError", sites: &[("algorithms/linfa-ftrl/src/error.rs", "FtrlError")], run: ftrl_error },
        Entry { id: "ftrl.FtrlParams", sites: &[("algorithms/linfa-ftrl/src/hyperparams.rs", "FtrlParams")], run: ftrl_params },
        Entry { id: "ftrl.FtrlValidParams", sites: &[("algorithms/linfa-ftrl/src/hyperparams.rs", "FtrlValidParams")], run: ftrl_valid_params },
        Entry { id: "ftrl.Ftrl", sites: &[("algorithms/linfa-ftrl/src/lib.rs", "Ftrl")], run: ftrl_model },
        Entry { id: "pls.PlsRegression", sites: &[("algorithms/linfa-pls/src/lib.rs", "[<Pls $name>]")], run: pls_regression },
        Entry { id: "pls.PlsCanonical", sites: &[], run: pls_canonical },
        Entry { id: "pls.PlsCca", sites: &[], run: pls_cca },
        Entry { id: "pls.PlsSvdParams", sites: &[("algorithms/linfa-pls/src/pls_svd.rs", "PlsSvdParams")], run: pls_svd_params },
        Entry { id: "reduction.PcaParams", sites: &[("algorithms/linfa-reduction/src/pca.rs", "PcaParams")], run: pca_params },
        Entry { id: "reduction.Pca", sites: &[("algorithms/linfa-reduction/src/pca.rs", "Pca")], run: pca_model },
        Entry { id: "ica.GFunc", sites: &[("algorithms/linfa-ica/src/fast_ica.rs", "GFunc")], run: ica_gfunc },
        Entry { id: "ica.FastIcaValidParams", sites: &[("algorithms/linfa-ica/src/hyperparams.rs", "FastIcaValidParams")], run: ica_params },
        Entry { id: "ica.FastIca", sites: &[("algorithms/linfa-ica/src/fast_ica.rs", "FastIca")], run: ica_model },
    ]
}

fn error_obs<E: std::error::Error>(e: &E) -> Ob {
    let mut o = Ob::new();
    o.st("display", e.to_string()).st("debug", format!("{:?}", e));
    o.done()
}

// ---------------------------------------------------------------------------------------------
// linfa-linear
// ---------------------------------------------------------------------------------------------
fn ols_obs<F: Float>(m: &linfa_linear::FittedLinearRegression<F>, q: &Array2<F>) -> Ob {
    let mut ob = Ob::new();
    ob.a1("params", m.params()).f1("intercept", m.intercept()).a1("predict", &m.predict(q));
    ob.done()
}

fn ols_params(r: &mut Runner) {
    use linfa_linear::LinearRegression;
    for (name, p) in [("default", LinearRegression::new()), ("no_intercept", LinearRegression::new().with_intercept(false)), ("intercept_explicit", LinearRegression::default().with_intercept(true))] {
        r.inst(name, |o| {
            let (x, y) = regression::<f64>(40, 3, 1, 21);
            let ds = Dataset::new(x.clone(), y.column(0).to_owned());
            let (x32, y32) = regression::<f32>(40, 3, 1, 21);
            let ds32 = Dataset::new(x32.clone(), y32.column(0).to_owned());
            let q = pool::<f64>(3, Some(&x));
            let q32 = pool::<f32>(3, Some(&x32));
            let obs = |p: &LinearRegression| {
                let mut ob = Ob::new();
                ob.sub("refit.f64", ols_obs(&p.fit(&ds).expect("ols"), &q)).sub("refit.f32", ols_obs(&p.fit(&ds32).expect("ols f32"), &q32));
                ob.done()
            };
            round_trip(o, &Spec::full(&obs).json(), &p);
        });
    }
}

fn ols_model(r: &mut Runner) {
    fn go<F: SF>(o: &mut Out, intercept: bool) {
        let (x, y) = regression::<F>(40, 3, 1, 21);
        let ds = Dataset::new(x.clone(), y.column(0).to_owned());
        let m = o.need("ols fit", linfa_linear::LinearRegression::new().with_intercept(intercept).fit(&ds));
        let q = pool::<F>(3, Some(&x));
        let obs = |m: &linfa_linear::FittedLinearRegression<F>| ols_obs(m, &q);
        round_trip(o, &Spec::full(&obs), &m);
    }
    r.inst("f64/intercept", |o| go::<f64>(o, true));
    r.inst("f64/no_intercept", |o| go::<f64>(o, false));
    r.inst("f32/intercept", |o| go::<f32>(o, true));
}

fn iso_data<F: Float>() -> (Array2<F>, Array1<F>) {
    let (x, y) = regression::<F>(40, 1, 1, 22);
    (x, y.column(0).to_owned())
}

fn iso_obs<F: linfa_linear::Float>(m: &linfa_linear::FittedIsotonicRegression<F>, q: &Array2<F>) -> Ob {
    let mut ob = Ob::new();
    ob.a1("predict", &m.predict(q));
    ob.done()
}

fn iso_params(r: &mut Runner) {
    use linfa_linear::IsotonicRegression;
    r.inst("unit", |o| {
        let (x, y) = iso_data::<f64>();
        let ds = Dataset::new(x.clone(), y);
        let q = pool::<f64>(1, Some(&x));
        let obs = |p: &IsotonicRegression| {
            let mut ob = Ob::new();
            ob.sub("refit", iso_obs(&p.fit(&ds).expect("isotonic"), &q));
            ob.done()
        };
        round_trip(o, &Spec::full(&obs).json().trivial(), &IsotonicRegression::new());
    });
}

fn iso_model(r: &mut Runner) {
    fn go<F: SF + linfa_linear::Float>(o: &mut Out, weighted: bool) {
        let (x, y) = iso_data::<F>();
        let mut ds = Dataset::new(x.clone(), y);
        if weighted {
            ds = ds.with_weights(Array1::from_iter((0..40).map(|i| 0.5 + (i % 3) as f32)));
        }
        let m = o.need("isotonic fit", linfa_linear::IsotonicRegression::new().fit(&ds));
        let q = pool::<F>(1, Some(&x));
        let obs = |m: &linfa_linear::FittedIsotonicRegression<F>| iso_obs(m, &q);
        round_trip(o, &Spec::full(&obs), &m);
    }
    r.inst("f64/unweighted", |o| go::<f64>(o, false));
    r.inst("f64/weighted", |o| go::<f64>(o, true));
    r.inst("f32/unweighted", |o| go::<f32>(o, false));
}

fn glm_link(r: &mut Runner) {
    use linfa_linear::Link;
    for (name, l) in [("Identity", Link::Identity), ("Log", Link::Log), ("Logit", Link::Logit)] {
        r.inst(name, |o| {
            let obs = |l: &Link| {
                let y = ndarray::array![0.05, 0.25, 0.5, 0.75, 0.95];
                let lin = ndarray::array![-30.0, -1.5, 0.0, 0.3, 2.0, 30.0];
                let mut ob = Ob::new();
                ob.st("variant", format!("{:?}", l));
                ob.a1("predict.link", &l.link(&y)).a1("predict.link_derivative", &l.link_derivative(&y)).a1("predict.inverse", &l.inverse(&lin)).a1("predict.inverse_derivative", &l.inverse_derviative(&lin));
                ob.done()
            };
            round_trip(o, &Spec::full(&obs).json().trivial(), &l);
        });
    }
}

// linfa-linear's GLM Float trait is private as well: instantiate per float type
macro_rules! tweedie_for {
    ($m:ident, $f:ty) => {
        mod $m {
            use super::*;
            use linfa_linear::{Link, TweedieRegressor, TweedieRegressorParams, TweedieRegressorValidParams};
            pub type F = $f;

            fn data() -> (Array2<F>, Array1<F>) {
                let (x, y) = regression::<f64>(60, 2, 1, 23);
                let ypos = y.column(0).mapv(|v| (v * 0.2).exp());
                (cast2(&x), cast1(&ypos))
            }
            /// targets inside (0, 1) for the logit link
            fn data_for(p: &TweedieRegressorParams<F>) -> (Array2<F>, Array1<F>) {
                let (x, y) = data();
                if format!("{:?}", p).contains("Logit") {
                    (x, y.mapv(|v| v / (1.0 + v)))
                } else {
                    (x, y)
                }
            }
            fn qpool(x: &Array2<F>) -> Array2<F> {
                // far points scaled down: exp() of the log link overflows at +-100, which is not C19's subject
                pool::<F>(2, Some(x)).mapv(|v| if v.abs() > 50.0 { v / 100.0 } else { v })
            }
            fn model_obs(m: &TweedieRegressor<F>, q: &Array2<F>) -> Ob {
                let mut ob = Ob::new();
                ob.a1("coef", &m.coef).f1("intercept", m.intercept).a1("predict", &m.predict(q));
                ob.done()
            }
            pub fn points() -> Vec<(&'static str, TweedieRegressorParams<F>)> {
                vec![
                    ("default", TweedieRegressor::params()),
                    ("poisson_log_alpha0.1", TweedieRegressor::params().power(1.0).alpha(0.1)),
                    ("gamma_explicit_log_no_intercept", TweedieRegressor::params().power(2.0).link(Link::Log).fit_intercept(false).max_iter(50).tol(1e-5)),
                    ("normal_identity", TweedieRegressor::params().power(0.0).link(Link::Identity).alpha(0.1 + 0.2)),
                    // every link variant incl. Logit (targets rescaled into (0, 1) by `data_for`), boundary numbers
                    ("logit_link_alpha0", TweedieRegressor::params().power(0.0).link(Link::Logit).alpha(0.0)),
                    ("inverse_gaussian_power3_one_iteration", TweedieRegressor::params().power(3.0).max_iter(1).tol(0.0)),
                    ("max_iter0_huge_alpha", TweedieRegressor::params().power(1.0).max_iter(0).alpha(1e30).tol(1e30)),
                ]
            }
            pub fn params(o: &mut Out, p: TweedieRegressorParams<F>) {
                let (x, y) = data_for(&p);
                let ds = Dataset::new(x.clone(), y);
                let q = qpool(&x);
                let v = o.need("check", p.check());
                let obs = |v: &TweedieRegressorValidParams<F>| {
                    let mut ob = Ob::new();
                    ob.f1("alpha", v.alpha()).bools("fit_intercept", [v.fit_intercept()]).f1("power", v.power()).st("link", format!("{:?}", v.link())).u1("max_iter", v.max_iter()).f1("tol", v.tol());
                    match v.fit(&ds) {
                        Ok(m) => ob.sub("refit", model_obs(&m, &q)),
                        Err(e) => ob.st("refit.error", e.to_string()),
                    };
                    ob.done()
                };
                round_trip(o, &Spec::full(&obs), &v);
            }
            pub fn model(o: &mut Out, p: TweedieRegressorParams<F>) {
                let (x, y) = data_for(&p);
                let ds = Dataset::new(x.clone(), y);
                let m = o.need("tweedie fit", p.fit(&ds));
                let q = qpool(&x);
                let obs = |m: &TweedieRegressor<F>| model_obs(m, &q);
                round_trip(o, &Spec::full(&obs), &m);
            }
        }
    };
}
tweedie_for!(tw64, f64);
tweedie_for!(tw32, f32);

fn tweedie_params(r: &mut Runner) {
    for (name, p) in tw64::points() {
        r.inst(&format!("f64/{}", name), |o| tw64::params(o, p));
    }
    for (name, p) in tw32::points().into_iter().take(2) {
        r.inst(&format!("f32/{}", name), |o| tw32::params(o, p));
    }
}

fn tweedie_model(r: &mut Runner) {
    // the link is a private field that only shows in predict: log link (default for power 1),
    // identity link and an explicit log link on a power-2 model are all instantiated
    for (name, p) in tw64::points().into_iter().take(5) {
        r.inst(&format!("f64/{}", name), |o| tw64::model(o, p));
    }
    for (name, p) in tw32::points().into_iter().skip(1).take(2) {
        r.inst(&format!("f32/{}", name), |o| tw32::model(o, p));
    }
}

// ---------------------------------------------------------------------------------------------
// elastic net
// ---------------------------------------------------------------------------------------------
fn enet_error(r: &mut Runner) {
    use linfa_elasticnet::ElasticNetError as E;
    let mut all: Vec<(String, E, bool, bool)> = vec![
        ("NotEnoughSamples".into(), E::NotEnoughSamples, false, false),
        ("IllConditioned".into(), E::IllConditioned, false, false),
        ("InvalidL1Ratio".into(), E::InvalidL1Ratio(1.5), false, true),
        ("InvalidPenalty".into(), E::InvalidPenalty(-0.1), false, true),
        ("InvalidTolerance".into(), E::InvalidTolerance(-1e-4), false, true),
        ("IncorrectTargetShape".into(), E::IncorrectTargetShape, false, false),
    ];
    for (n, e, refuses) in linfa_errors() {
        all.push((format!("BaseCrate/{}", n), E::BaseCrate(e), refuses, false));
    }
    for (name, e, refuses, has_float) in all {
        r.inst(&name, |o| {
            let obs = |e: &E| error_obs(e);
            let mut spec = Spec::plain(&obs);
            spec.json = !has_float;
            spec.expect_ser_refusal = refuses;
            spec.nontrivial = has_float || name.starts_with("BaseCrate");
            round_trip(o, &spec, &e);
            crate::reg_core::narrow_skipped_variant_sig(o, &name);
        });
    }
}

fn enet_obs<F: Float>(m: &linfa_elasticnet::ElasticNet<F>, q: &Array2<F>) -> Ob {
    let mut ob = Ob::new();
    ob.a1("hyperplane", m.hyperplane()).f1("intercept", m.intercept()).u1("n_steps", m.n_steps() as usize).f1("duality_gap", m.duality_gap());
    match m.z_score() {
        Ok(z) => ob.a1("z_score", &z),
        Err(e) => ob.st("z_score.error", format!("{:?} / {}", e, e)),
    };
    match m.confidence_95th() {
        Ok(c) => ob.fl("confidence_95th", c.iter().flat_map(|(a, b)| [*a, *b])),
        Err(e) => ob.st("confidence_95th.error", format!("{:?} / {}", e, e)),
    };
    ob.a1("predict", &m.predict(q));
    ob.done()
}

fn mt_enet_obs<F: Float>(m: &linfa_elasticnet::MultiTaskElasticNet<F>, q: &Array2<F>) -> Ob {
    let mut ob = Ob::new();
    ob.a2("hyperplane", m.hyperplane()).a1("intercept", m.intercept()).u1("n_steps", m.n_steps() as usize).f1("duality_gap", m.duality_gap());
    // by-catch, not C19's subject: MultiTaskElasticNet::z_score / confidence_95th panic whenever
    // n_tasks != n_features (`and_broadcast` of a [n_features] variance against [n_features, n_tasks]);
    // the panic text is observed like any other outcome (original and restored must agree)
    match lvmc_core::guarded(|| m.z_score()) {
        Ok(Ok(z)) => ob.a2("z_score", &z),
        Ok(Err(e)) => ob.st("z_score.error", format!("{:?} / {}", e, e)),
        Err(p) => ob.st("z_score.panic", p),
    };
    match lvmc_core::guarded(|| m.confidence_95th()) {
        Ok(Ok(c)) => ob.fl("confidence_95th", c.iter().flat_map(|(a, b)| [*a, *b])),
        Ok(Err(e)) => ob.st("confidence_95th.error", format!("{:?} / {}", e, e)),
        Err(p) => ob.st("confidence_95th.panic", p),
    };
    ob.a2("predict", &m.predict(q));
    ob.done()
}

fn enet_params(r: &mut Runner) {
    use linfa_elasticnet::{ElasticNet, ElasticNetValidParams, MultiTaskElasticNet, MultiTaskElasticNetValidParams};
    fn single<F: SF>(o: &mut Out, p: linfa_elasticnet::ElasticNetParams<F>) {
        let (x, y) = regression::<F>(50, 4, 1, 24);
        let ds = Dataset::new(x.clone(), y.column(0).to_owned());
        let q = pool::<F>(4, Some(&x));
        let v = o.need("check", p.check());
        let obs = |v: &ElasticNetValidParams<F>| {
            let mut ob = Ob::new();
            ob.f1("penalty", v.penalty()).f1("l1_ratio", v.l1_ratio()).bools("with_intercept", [v.with_intercept()]).u1("max_iterations", v.max_iterations() as usize).f1("tolerance", v.tolerance());
            match lvmc_core::guarded(|| v.fit(&ds).map(|m| enet_obs(&m, &q)).map_err(|e| e.to_string())) {
                Ok(Ok(x)) => ob.sub("refit", x),
                Ok(Err(e)) => ob.st("refit.error", e),
                Err(p) => ob.st("refit.panic", p),
            };
            ob.done()
        };
        round_trip(o, &Spec::full(&obs), &v);
    }
    fn multi<F: SF>(o: &mut Out, p: linfa_elasticnet::MultiTaskElasticNetParams<F>) {
        let (x, y) = regression::<F>(50, 4, 2, 25);
        let ds = Dataset::new(x.clone(), y);
        let q = pool::<F>(4, Some(&x));
        let v = o.need("check", p.check());
        let obs = |v: &MultiTaskElasticNetValidParams<F>| {
            let mut ob = Ob::new();
            ob.f1("penalty", v.penalty()).f1("l1_ratio", v.l1_ratio()).bools("with_intercept", [v.with_intercept()]).u1("max_iterations", v.max_iterations() as usize).f1("tolerance", v.tolerance());
            match lvmc_core::guarded(|| v.fit(&ds).map(|m| mt_enet_obs(&m, &q)).map_err(|e| e.to_string())) {
                Ok(Ok(x)) => ob.sub("refit", x),
                Ok(Err(e)) => ob.st("refit.error", e),
                Err(p) => ob.st("refit.panic", p),
            };
            ob.done()
        };
        round_trip(o, &Spec::full(&obs), &v);
    }
    r.inst("single/f64/default", |o| single::<f64>(o, ElasticNet::params()));
    r.inst("single/f64/lasso_penalty0.3_no_intercept", |o| single::<f64>(o, ElasticNet::lasso().penalty(0.3).with_intercept(false).max_iterations(200)));
    r.inst("single/f64/ridge_tol", |o| single::<f64>(o, ElasticNet::ridge().penalty(0.1 + 0.2).tolerance(1e-6)));
    r.inst("single/f32/l1_ratio0.7", |o| single::<f32>(o, ElasticNet::params().l1_ratio(0.7).penalty(0.05)));
    r.inst("single/f64/all_zero(penalty0,l1_0,tol0,iter1)", |o| single::<f64>(o, ElasticNet::params().penalty(0.0).l1_ratio(0.0).tolerance(0.0).max_iterations(1).with_intercept(false)));
    r.inst("single/f64/extremes(l1_1,iter_max,penalty1e30)", |o| single::<f64>(o, ElasticNet::params().penalty(1e30).l1_ratio(1.0).tolerance(1e30).max_iterations(u32::MAX)));
    r.inst("multi/f64/all_zero(penalty0,l1_0,tol0,iter1)", |o| multi::<f64>(o, MultiTaskElasticNet::params().penalty(0.0).l1_ratio(0.0).tolerance(0.0).max_iterations(1).with_intercept(false)));
    r.inst("multi/f64/extremes(l1_1,iter1)", |o| multi::<f64>(o, MultiTaskElasticNet::params().penalty(1e30).l1_ratio(1.0).tolerance(1e30).max_iterations(1)));
    r.inst("multi/f64/default", |o| multi::<f64>(o, MultiTaskElasticNet::params()));
    r.inst("multi/f64/penalty0.2_l1_0.3", |o| multi::<f64>(o, MultiTaskElasticNet::params().penalty(0.2).l1_ratio(0.3).max_iterations(300)));
    r.inst("multi/f32/lasso", |o| multi::<f32>(o, MultiTaskElasticNet::lasso().penalty(0.1)));
}

/// which state of the private `variance` field a model is in, read through z_score()
fn variance_kind<T>(r: &std::result::Result<T, linfa_elasticnet::ElasticNetError>) -> String {
    match r {
        Ok(_) => "Ok".to_string(),
        Err(e) => format!("Err({:?})", e),
    }
}

fn enet_model(r: &mut Runner) {
    use linfa_elasticnet::ElasticNet;
    fn go_zero_column<F: SF>(o: &mut Out) {
        // more samples than features, but an all-zero feature column: X^T X is exactly singular
        let (mut x, y) = regression::<F>(30, 3, 1, 24);
        x.column_mut(1).fill(F::zero());
        let ds = Dataset::new(x.clone(), y.column(0).to_owned());
        let m = o.need("enet fit", ElasticNet::params().penalty(F::cast(0.2)).fit(&ds));
        if variance_kind(&m.z_score()) != "Err(IllConditioned)" {
            o.machinery(&format!("instance meant to carry Err(IllConditioned) carries {}", variance_kind(&m.z_score())));
        }
        let q = pool::<F>(3, Some(&x));
        let obs = |m: &ElasticNet<F>| enet_obs(m, &q);
        round_trip(o, &Spec::plain(&obs), &m);
    }
    fn go<F: SF>(o: &mut Out, n: usize, p: usize, collinear: bool, params: linfa_elasticnet::ElasticNetParams<F>) {
        let (mut x, y) = regression::<F>(n, p, 1, 24);
        if collinear {
            let c0 = x.column(0).to_owned();
            x.column_mut(1).assign(&c0);
        }
        let ds = Dataset::new(x.clone(), y.column(0).to_owned());
        let m = o.need("enet fit", params.fit(&ds));
        let q = pool::<F>(p, Some(&x));
        let obs = |m: &ElasticNet<F>| enet_obs(m, &q);
        // ElasticNet has no PartialEq
        round_trip(o, &Spec::plain(&obs), &m);
    }
    r.inst("f64/variance_ok", |o| go::<f64>(o, 50, 4, false, ElasticNet::params().penalty(0.1).l1_ratio(0.5)));
    r.inst("f64/variance_err_not_enough_samples", |o| go::<f64>(o, 4, 4, false, ElasticNet::params().penalty(0.1)));
    r.inst("f64/collinear_columns", |o| go::<f64>(o, 30, 3, true, ElasticNet::params().penalty(0.2)));
    // one fitted instance per reachable state of `variance`: Ok, Err(NotEnoughSamples), Err(IllConditioned)
    r.inst("f64/variance_err_ill_conditioned(zero column)", |o| go_zero_column::<f64>(o));
    r.inst("f32/variance_err_ill_conditioned(zero column)", |o| go_zero_column::<f32>(o));
    r.inst("f64/no_intercept_lasso", |o| go::<f64>(o, 50, 4, false, ElasticNet::lasso().penalty(0.3).with_intercept(false)));
    r.inst("f32/variance_ok", |o| go::<f32>(o, 50, 3, false, ElasticNet::params().penalty(0.1).l1_ratio(0.5)));
}

fn mt_enet_model(r: &mut Runner) {
    use linfa_elasticnet::MultiTaskElasticNet;
    fn go_zero_column<F: SF>(o: &mut Out) {
        let (mut x, y) = regression::<F>(30, 4, 2, 25);
        x.column_mut(2).fill(F::zero());
        let ds = Dataset::new(x.clone(), y);
        let m = o.need("mt enet fit", MultiTaskElasticNet::params().penalty(F::cast(0.1)).l1_ratio(F::cast(0.5)).fit(&ds));
        let kind = match lvmc_core::guarded(|| variance_kind(&m.confidence_95th())) {
            Ok(k) => k,
            Err(_) => "panic".to_string(),
        };
        if kind != "Err(IllConditioned)" {
            o.machinery(&format!("instance meant to carry Err(IllConditioned) carries {}", kind));
        }
        let q = pool::<F>(4, Some(&x));
        let obs = |m: &MultiTaskElasticNet<F>| mt_enet_obs(m, &q);
        round_trip(o, &Spec::plain(&obs), &m);
    }
    fn go<F: SF>(o: &mut Out, n: usize, params: linfa_elasticnet::MultiTaskElasticNetParams<F>) {
        let (x, y) = regression::<F>(n, 4, 2, 25);
        let ds = Dataset::new(x.clone(), y);
        let m = o.need("mt enet fit", params.fit(&ds));
        let q = pool::<F>(4, Some(&x));
        let obs = |m: &MultiTaskElasticNet<F>| mt_enet_obs(m, &q);
        round_trip(o, &Spec::plain(&obs), &m);
    }
    r.inst("f64/variance_ok", |o| go::<f64>(o, 50, MultiTaskElasticNet::params().penalty(0.1).l1_ratio(0.5)));
    r.inst("f64/variance_err_not_enough_samples", |o| go::<f64>(o, 3, MultiTaskElasticNet::params().penalty(0.1)));
    r.inst("f32/variance_ok", |o| go::<f32>(o, 50, MultiTaskElasticNet::params().penalty(0.2).l1_ratio(0.9)));
    r.inst("f64/variance_err_ill_conditioned(zero column)", |o| go_zero_column::<f64>(o));
}

// ---------------------------------------------------------------------------------------------
// logistic regression (linfa-logistic's Float trait is private: no generic code over F possible
// outside the crate, so everything is instantiated per float type by macro)
// ---------------------------------------------------------------------------------------------
fn labels_str<C: std::fmt::Debug>(it: impl IntoIterator<Item = C>) -> String {
    it.into_iter().map(|c| format!("{:?}", c)).collect::<Vec<_>>().join(",")
}

macro_rules! logistic_for {
    ($m:ident, $f:ty) => {
        mod $m {
            use super::*;
            use linfa_logistic::*;
            pub type F = $f;

            pub fn logit_obs<C: PartialOrd + Clone + Default + std::fmt::Debug>(m: &FittedLogisticRegression<F, C>, q: &Array2<F>) -> Ob {
                let mut ob = Ob::new();
                ob.f1("intercept", m.intercept()).a1("params", m.params());
                let l = m.labels();
                ob.st("labels.pos.class", format!("{:?}", l.pos.class)).f1("labels.pos.label", l.pos.label).st("labels.neg.class", format!("{:?}", l.neg.class)).f1("labels.neg.label", l.neg.label);
                ob.a1("predict_probabilities", &m.predict_probabilities(q));
                // the threshold has no accessor: it only shows in predict
                ob.st("predict", labels_str(m.predict(q).iter().cloned()));
                ob.done()
            }

            pub fn multi_logit_obs<C: PartialOrd + Clone + Default + std::fmt::Debug>(m: &MultiFittedLogisticRegression<F, C>, q: &Array2<F>) -> Ob {
                let mut ob = Ob::new();
                ob.a1("intercept", m.intercept()).a2("params", m.params()).st("classes", labels_str(m.classes().iter().cloned()));
                ob.a2("predict_probabilities", &m.predict_probabilities(q)).st("predict", labels_str(m.predict(q).iter().cloned()));
                ob.done()
            }

            pub fn binary_model<C>(o: &mut Out, lab: fn(usize) -> C, thr: Option<F>)
            where
                C: Ord + Clone + Default + std::fmt::Debug + serde::Serialize + serde::de::DeserializeOwned,
            {
                let (x, y) = blobs::<F>(80, 2, 2, 31);
                let ds = Dataset::new(x.clone(), y.mapv(lab));
                let mut m: FittedLogisticRegression<F, C> = o.need("logistic fit", LogisticRegression::default().alpha(0.5).max_iterations(100).fit(&ds));
                if let Some(t) = thr {
                    m = m.set_threshold(t);
                }
                let q = pool::<F>(2, Some(&x));
                let obs = |m: &FittedLogisticRegression<F, C>| logit_obs(m, &q);
                round_trip(o, &Spec::full(&obs), &m);
            }

            pub fn multi_model<C>(o: &mut Out, lab: fn(usize) -> C)
            where
                C: Ord + Clone + Default + std::fmt::Debug + serde::Serialize + serde::de::DeserializeOwned,
            {
                let (x, y) = blobs::<F>(90, 2, 3, 32);
                let ds = Dataset::new(x.clone(), y.mapv(lab));
                let m: MultiFittedLogisticRegression<F, C> = o.need("multi logistic fit", MultiLogisticRegression::default().alpha(0.5).max_iterations(100).fit(&ds));
                let q = pool::<F>(2, Some(&x));
                let obs = |m: &MultiFittedLogisticRegression<F, C>| multi_logit_obs(m, &q);
                round_trip(o, &Spec::full(&obs), &m);
            }

            pub fn valid_obs_bin(v: &ValidLogisticRegression<F>, x: &Array2<F>, y: &Array1<usize>, q: &Array2<F>) -> Ob {
                let mut ob = Ob::new();
                ob.st("debug", format!("{:?}", v));
                match v.fit(&Dataset::new(x.clone(), y.clone())) {
                    Ok(m) => ob.sub("refit", logit_obs(&m, q)),
                    Err(e) => ob.st("refit.error", e.to_string()),
                };
                ob.done()
            }

            pub fn valid_obs_multi(v: &ValidMultiLogisticRegression<F>, x: &Array2<F>, y: &Array1<usize>, q: &Array2<F>) -> Ob {
                let mut ob = Ob::new();
                ob.st("debug", format!("{:?}", v));
                match v.fit(&Dataset::new(x.clone(), y.clone())) {
                    Ok(m) => ob.sub("refit", multi_logit_obs(&m, q)),
                    Err(e) => ob.st("refit.error", e.to_string()),
                };
                ob.done()
            }

            pub fn bin_points() -> Vec<(&'static str, LogisticRegression<F>)> {
                vec![
                    ("default", LogisticRegression::default()),
                    ("alpha0.3_no_intercept", LogisticRegression::default().alpha(0.1 + 0.2).with_intercept(false).max_iterations(30)),
                    ("initial_params_gradtol", LogisticRegression::default().gradient_tolerance(1e-3).initial_params(ndarray::array![0.5, -0.25, 0.125])),
                    ("alpha0_iter0_zero_initial_params", LogisticRegression::default().alpha(0.0).max_iterations(0).initial_params(ndarray::array![0.0, 0.0, 0.0])),
                    ("alpha1e30_iter1_tiny_gradtol", LogisticRegression::default().alpha(1e30).max_iterations(1).gradient_tolerance(F::MIN_POSITIVE)),
                    ("invalid_alpha", LogisticRegression::default().alpha(-1.0)),
                    ("invalid_initial_params_nan", LogisticRegression::default().initial_params(ndarray::array![0.5, F::NAN, 0.0])),
                ]
            }

            pub fn multi_points() -> Vec<(&'static str, MultiLogisticRegression<F>)> {
                vec![
                    ("default", MultiLogisticRegression::default()),
                    ("alpha2_iter20", MultiLogisticRegression::default().alpha(2.0).max_iterations(20)),
                    ("initial_params", MultiLogisticRegression::default().initial_params(Array2::from_shape_fn((3, 3), |(i, j)| (0.1 * i as f64 - 0.2 * j as f64) as F))),
                    ("alpha0_iter0_no_intercept_zero_initial_params", MultiLogisticRegression::default().alpha(0.0).max_iterations(0).with_intercept(false).initial_params(Array2::zeros((2, 3)))),
                    ("column_major_initial_params", MultiLogisticRegression::default().initial_params(to_f_order(&Array2::from_shape_fn((3, 3), |(i, j)| (0.3 * i as f64 - 0.1 * j as f64 + 0.05) as F)))),
                    ("invalid_gradient_tolerance", MultiLogisticRegression::default().gradient_tolerance(0.0)),
                ]
            }

            pub fn params_bin(o: &mut Out, p: LogisticRegression<F>) {
                let (x, y) = blobs::<F>(80, 2, 2, 31);
                let q = pool::<F>(2, Some(&x));
                let obs = |p: &LogisticRegression<F>| {
                    let mut ob = Ob::new();
                    match p.check_ref() {
                        Ok(v) => ob.st("check_verdict", "ok").sub("checked", valid_obs_bin(v, &x, &y, &q)),
                        Err(e) => ob.st("check_verdict", format!("err: {}", e)),
                    };
                    match p.fit(&Dataset::new(x.clone(), y.clone())) {
                        Ok(m) => ob.sub("refit", logit_obs(&m, &q)),
                        Err(e) => ob.st("refit.error", e.to_string()),
                    };
                    ob.done()
                };
                // params holding a NaN are never equal to themselves: PartialEq oracle off for that point
                let has_nan = format!("{:?}", p).contains("NaN");
                let mut spec = Spec::full(&obs);
                if has_nan {
                    spec.eq = None;
                }
                round_trip(o, &spec, &p);
            }

            pub fn params_multi(o: &mut Out, p: MultiLogisticRegression<F>) {
                let (x, y) = blobs::<F>(90, 2, 3, 32);
                let q = pool::<F>(2, Some(&x));
                let obs = |p: &MultiLogisticRegression<F>| {
                    let mut ob = Ob::new();
                    match p.check_ref() {
                        Ok(v) => ob.st("check_verdict", "ok").sub("checked", valid_obs_multi(v, &x, &y, &q)),
                        Err(e) => ob.st("check_verdict", format!("err: {}", e)),
                    };
                    match p.fit(&Dataset::new(x.clone(), y.clone())) {
                        Ok(m) => ob.sub("refit", multi_logit_obs(&m, &q)),
                        Err(e) => ob.st("refit.error", e.to_string()),
                    };
                    ob.done()
                };
                round_trip(o, &Spec::full(&obs), &p);
                if format!("{:?}", p).contains("layout=Ff") {
                    narrow_layout_dependent_refit(o, "refit.last_bits_depend_on_memory_layout_of_initial_params");
                }
            }

            pub fn valid_bin(o: &mut Out, p: LogisticRegression<F>) {
                let (x, y) = blobs::<F>(80, 2, 2, 31);
                let q = pool::<F>(2, Some(&x));
                let v = o.need("check", p.check());
                let obs = |v: &ValidLogisticRegression<F>| valid_obs_bin(v, &x, &y, &q);
                round_trip(o, &Spec::full(&obs), &v);
            }

            pub fn valid_multi(o: &mut Out, p: MultiLogisticRegression<F>) {
                let (x, y) = blobs::<F>(90, 2, 3, 32);
                let q = pool::<F>(2, Some(&x));
                let v = o.need("check", p.check());
                let obs = |v: &ValidMultiLogisticRegression<F>| valid_obs_multi(v, &x, &y, &q);
                round_trip(o, &Spec::full(&obs), &v);
                if format!("{:?}", v).contains("layout=Ff") {
                    narrow_layout_dependent_refit(o, "refit.last_bits_depend_on_memory_layout_of_initial_params");
                }
            }
        }
    };
}
logistic_for!(lg64, f64);
logistic_for!(lg32, f32);

fn logistic_model(r: &mut Runner) {
    r.inst("f64/bool/threshold_default", |o| lg64::binary_model::<bool>(o, |c| c == 1, None));
    r.inst("f64/bool/threshold0.9", |o| lg64::binary_model::<bool>(o, |c| c == 1, Some(0.9)));
    r.inst("f64/string/threshold0.05", |o| lg64::binary_model::<String>(o, |c| ["cat", "dog"][c].to_string(), Some(0.05)));
    r.inst("f64/usize/threshold0.1+0.2", |o| lg64::binary_model::<usize>(o, |c| c * 3 + 1, Some(0.1 + 0.2)));
    r.inst("f32/bool/threshold0.75", |o| lg32::binary_model::<bool>(o, |c| c == 1, Some(0.75)));
    r.inst("f32/usize/threshold_default", |o| lg32::binary_model::<usize>(o, |c| c, None));
}

fn multi_logistic_model(r: &mut Runner) {
    r.inst("f64/string", |o| lg64::multi_model::<String>(o, |c| ["cat", "dog", "ant"][c].to_string()));
    r.inst("f64/usize", |o| lg64::multi_model::<usize>(o, |c| c * 5));
    r.inst("f32/usize", |o| lg32::multi_model::<usize>(o, |c| c));
}

fn class_label(r: &mut Runner) {
    use linfa_logistic::ClassLabel;
    r.inst("f64/string", |o| {
        let obs = |c: &ClassLabel<f64, String>| {
            let mut ob = Ob::new();
            ob.st("class", &c.class).f1("label", c.label);
            ob.done()
        };
        round_trip(o, &Spec::full(&obs), &ClassLabel { class: "pos \"quoted\"".to_string(), label: 0.1 + 0.2 });
    });
    r.inst("f32/usize", |o| {
        let obs = |c: &ClassLabel<f32, usize>| {
            let mut ob = Ob::new();
            ob.u1("class", c.class).f1("label", c.label);
            ob.done()
        };
        round_trip(o, &Spec::full(&obs), &ClassLabel { class: usize::MAX, label: -1.0f32 });
    });
    r.inst("f64/bool", |o| {
        let obs = |c: &ClassLabel<f64, bool>| {
            let mut ob = Ob::new();
            ob.bools("class", [c.class]).f1("label", c.label);
            ob.done()
        };
        round_trip(o, &Spec::full(&obs), &ClassLabel { class: true, label: 1.0f64 });
    });
}

fn binary_class_labels(r: &mut Runner) {
    use linfa_logistic::{BinaryClassLabels, ClassLabel};
    r.inst("f64/string", |o| {
        let obs = |c: &BinaryClassLabels<f64, String>| {
            let mut ob = Ob::new();
            ob.st("pos.class", &c.pos.class).f1("pos.label", c.pos.label).st("neg.class", &c.neg.class).f1("neg.label", c.neg.label);
            ob.done()
        };
        round_trip(o, &Spec::full(&obs), &BinaryClassLabels { pos: ClassLabel { class: "dog".to_string(), label: 1.0 }, neg: ClassLabel { class: "cat".to_string(), label: -1.0 } });
    });
    r.inst("f32/i32", |o| {
        let obs = |c: &BinaryClassLabels<f32, i32>| {
            let mut ob = Ob::new();
            ob.us("classes", [c.pos.class as usize, (c.neg.class + 100) as usize]).f1("pos.label", c.pos.label).f1("neg.label", c.neg.label);
            ob.done()
        };
        round_trip(o, &Spec::full(&obs), &BinaryClassLabels { pos: ClassLabel { class: 7, label: 1.0f32 }, neg: ClassLabel { class: -7, label: -1.0f32 } });
    });
}

fn logistic_params(r: &mut Runner) {
    for (n, p) in lg64::bin_points() {
        r.inst(&format!("binary/f64/{}", n), |o| lg64::params_bin(o, p));
    }
    for (n, p) in lg32::bin_points().into_iter().take(3) {
        r.inst(&format!("binary/f32/{}", n), |o| lg32::params_bin(o, p));
    }
    for (n, p) in lg64::multi_points() {
        r.inst(&format!("multi/f64/{}", n), |o| lg64::params_multi(o, p));
    }
    for (n, p) in lg32::multi_points().into_iter().take(2) {
        r.inst(&format!("multi/f32/{}", n), |o| lg32::params_multi(o, p));
    }
}

fn logistic_valid_params(r: &mut Runner) {
    for (n, p) in lg64::bin_points().into_iter().filter(|(n, _)| !n.starts_with("invalid")) {
        r.inst(&format!("binary/f64/{}", n), |o| lg64::valid_bin(o, p));
    }
    for (n, p) in lg32::bin_points().into_iter().take(2) {
        r.inst(&format!("binary/f32/{}", n), |o| lg32::valid_bin(o, p));
    }
    for (n, p) in lg64::multi_points().into_iter().filter(|(n, _)| !n.starts_with("invalid")) {
        r.inst(&format!("multi/f64/{}", n), |o| lg64::valid_multi(o, p));
    }
}

// ---------------------------------------------------------------------------------------------
// FTRL
// ---------------------------------------------------------------------------------------------
fn ftrl_error(r: &mut Runner) {
    use linfa_ftrl::FtrlError as E;
    let mut all: Vec<(String, E, bool, bool)> = vec![
        ("InvalidL1Ratio".into(), E::InvalidL1Ratio(1.5), false, true),
        ("InvalidL2Ratio".into(), E::InvalidL2Ratio(-0.5), false, true),
        ("InvalidAlpha".into(), E::InvalidAlpha(-0.5), false, true),
        ("InvalidAlpha(0)".into(), E::InvalidAlpha(0.0), false, true),
        ("InvalidBeta".into(), E::InvalidBeta(f32::INFINITY), false, true),
        ("InvalidNFeatures".into(), E::InvalidNFeatures(0), false, false),
        ("InvalidNFeatures(max)".into(), E::InvalidNFeatures(usize::MAX), false, false),
    ];
    for (n, e, refuses) in linfa_errors() {
        all.push((format!("LinfaError/{}", n), E::LinfaError(e), refuses, false));
    }
    for (name, e, refuses, has_float) in all {
        r.inst(&name, |o| {
            let obs = |e: &E| error_obs(e);
            let mut spec = Spec::plain(&obs);
            spec.json = !has_float;
            spec.expect_ser_refusal = refuses;
            round_trip(o, &spec, &e);
            crate::reg_core::narrow_skipped_variant_sig(o, &name);
        });
    }
}

fn ftrl_obs<F: Float>(m: &linfa_ftrl::Ftrl<F>, q: &Array2<F>) -> Ob {
    let mut ob = Ob::new();
    ob.f1("alpha", m.alpha()).f1("beta", m.beta()).f1("l1_ratio", m.l1_ratio()).f1("l2_ratio", m.l2_ratio());
    ob.a1("z", m.z()).a1("n", m.n()).a1("get_weights", &m.get_weights());
    ob.f32s("predict", m.predict(q).iter().map(|p| **p));
    ob.done()
}

type FtP<F> = linfa_ftrl::FtrlParams<F, Xoshiro256Plus>;
type FtV<F> = <linfa_ftrl::FtrlParams<F, Xoshiro256Plus> as ParamGuard>::Checked;

fn ftrl_points<F: Float>() -> Vec<(&'static str, FtP<F>)> {
    use linfa_ftrl::Ftrl;
    vec![
        ("default", Ftrl::params_with_rng(rng(42))),
        ("nondefault1", Ftrl::params_with_rng(rng(1)).alpha(F::cast(0.1)).beta(F::cast(1.0)).l1_ratio(F::cast(0.2)).l2_ratio(F::cast(0.3))),
        ("nondefault2", Ftrl::params_with_rng(rng(2)).alpha(F::cast(0.1 + 0.2)).beta(F::cast(0.7)).l1_ratio(F::cast(0.0)).l2_ratio(F::cast(1.0))),
        ("all_zero(alpha0,beta0,l1_0,l2_0)", Ftrl::params_with_rng(rng(3)).alpha(F::cast(0.0)).beta(F::cast(0.0)).l1_ratio(F::cast(0.0)).l2_ratio(F::cast(0.0))),
        ("extremes(l1_1,l2_1,alpha1e30)", Ftrl::params_with_rng(rng(4)).alpha(F::cast(1e30)).beta(F::cast(1e30)).l1_ratio(F::cast(1.0)).l2_ratio(F::cast(1.0))),
        ("invalid_alpha", Ftrl::params_with_rng(rng(3)).alpha(F::cast(-1.0))),
        ("invalid_l1_ratio", Ftrl::params_with_rng(rng(3)).l1_ratio(F::cast(1.5))),
    ]
}

fn ftrl_valid_obs<F: Float>(v: &FtV<F>, ds: &Dataset<F, bool, Ix1>, q: &Array2<F>) -> Ob {
    let mut ob = Ob::new();
    ob.f1("alpha", v.alpha()).f1("beta", v.beta()).f1("l1_ratio", v.l1_ratio()).f1("l2_ratio", v.l2_ratio()).st("rng", format!("{:?}", v.rng()));
    match v.fit_with(None, ds) {
        Ok(m) => ob.sub("refit", ftrl_obs(&m, q)),
        Err(e) => ob.st("refit.error", e.to_string()),
    };
    ob.done()
}

fn ftrl_params(r: &mut Runner) {
    fn go<F: SF>(o: &mut Out, p: FtP<F>) {
        let (x, y) = blobs::<F>(100, 3, 2, 40);
        let ds = Dataset::new(x.clone(), y.mapv(|c| c == 1));
        let q = pool::<F>(3, Some(&x));
        let obs = |p: &FtP<F>| {
            let mut ob = Ob::new();
            match p.check_ref() {
                Ok(v) => ob.st("check_verdict", "ok").sub("checked", ftrl_valid_obs(v, &ds, &q)),
                Err(e) => ob.st("check_verdict", format!("err: {}", e)),
            };
            match p.fit_with(None, &ds) {
                Ok(m) => ob.sub("refit", ftrl_obs(&m, &q)),
                Err(e) => ob.st("refit.error", e.to_string()),
            };
            ob.done()
        };
        round_trip(o, &Spec::full(&obs), &p);
    }
    for (n, p) in ftrl_points::<f64>() {
        r.inst(&format!("f64/{}", n), |o| go(o, p));
    }
    for (n, p) in ftrl_points::<f32>().into_iter().take(3) {
        r.inst(&format!("f32/{}", n), |o| go(o, p));
    }
}

fn ftrl_valid_params(r: &mut Runner) {
    fn go<F: SF>(o: &mut Out, p: FtP<F>) {
        let (x, y) = blobs::<F>(100, 3, 2, 40);
        let ds = Dataset::new(x.clone(), y.mapv(|c| c == 1));
        let q = pool::<F>(3, Some(&x));
        let v = o.need("check", p.check());
        let obs = |v: &FtV<F>| ftrl_valid_obs(v, &ds, &q);
        round_trip(o, &Spec::full(&obs), &v);
    }
    for (n, p) in ftrl_points::<f64>().into_iter().filter(|(n, _)| !n.starts_with("invalid")) {
        r.inst(&format!("f64/{}", n), |o| go(o, p));
    }
    for (n, p) in ftrl_points::<f32>().into_iter().filter(|(n, _)| !n.starts_with("invalid")) {
        r.inst(&format!("f32/{}", n), |o| go(o, p));
    }
}

fn ftrl_model(r: &mut Runner) {
    fn go<F: SF>(o: &mut Out, p: FtP<F>, batches: usize) {
        let (x, y) = blobs::<F>(100, 3, 2, 40);
        let ds = Dataset::new(x.clone(), y.mapv(|c| c == 1));
        let q = pool::<F>(3, Some(&x));
        let v = o.need("check", p.check());
        let mut m = o.need("ftrl fit", v.fit_with(None, &ds));
        for _ in 1..batches {
            m = o.need("ftrl fit_with", v.fit_with(Some(m), &ds));
        }
        let (x2, y2) = blobs::<F>(40, 3, 2, 41);
        let ds2 = Dataset::new(x2, y2.mapv(|c| c == 1));
        let obs = |m: &linfa_ftrl::Ftrl<F>| {
            let mut ob = ftrl_obs(m, &q);
            // the model is incremental: continuing from the restored state must give the same model
            let cont = v.fit_with(Some(m.clone()), &ds2).expect("continue");
            ob.sub("after_fit_with", ftrl_obs(&cont, &q));
            ob.done()
        };
        // Ftrl has no PartialEq
        let advance = |m: &linfa_ftrl::Ftrl<F>| v.fit_with(Some(m.clone()), &ds2).expect("continue");
        round_trip(o, &Spec::plain(&obs).mutating(&advance), &m);
    }
    r.inst("f64/one_batch", |o| go::<f64>(o, ftrl_points().remove(1).1, 1));
    r.inst("f64/three_batches", |o| go::<f64>(o, ftrl_points().remove(2).1, 3));
    r.inst("f64/default_params", |o| go::<f64>(o, ftrl_points().remove(0).1, 1));
    r.inst("f32/two_batches", |o| go::<f32>(o, ftrl_points().remove(1).1, 2));
}

// ---------------------------------------------------------------------------------------------
// PLS
// ---------------------------------------------------------------------------------------------
macro_rules! pls_entry {
    ($fname:ident, $ty:ident) => {
        fn $fname(r: &mut Runner) {
            use linfa_pls::$ty;
            fn go<F: SF>(o: &mut Out, ncomp: usize, scale: bool) {
                let (x, y) = regression::<F>(40, 4, 2, 26);
                let ds = Dataset::new(x.clone(), y.clone());
                let m = o.need("pls fit", $ty::<F>::params(ncomp).scale(scale).fit(&ds));
                let q = pool::<F>(4, Some(&x));
                let obs = |m: &$ty<F>| {
                    let mut ob = Ob::new();
                    ob.a2("weights.x", m.weights().0).a2("weights.y", m.weights().1).a2("loadings.x", m.loadings().0).a2("loadings.y", m.loadings().1);
                    ob.a2("rotations.x", m.rotations().0).a2("rotations.y", m.rotations().1).a2("coefficients", m.coefficients());
                    ob.a2("predict", &m.predict(&q));
                    let t = m.transform(Dataset::new(x.clone(), y.clone()));
                    ob.a2("transform.records", t.records()).a2("transform.targets", t.targets());
                    // inverse_transform reads x_mean / x_std / y_mean / y_std, which have no accessor
                    let back = m.inverse_transform(m.transform(Dataset::new(x.clone(), y.clone())));
                    ob.a2("transform.inverse.records", back.records()).a2("transform.inverse.targets", back.targets());
                    ob.done()
                };
                round_trip(o, &Spec::full(&obs), &m);
            }
            r.inst("f64/2comp/scaled", |o| go::<f64>(o, 2, true));
            r.inst("f64/1comp/unscaled", |o| go::<f64>(o, 1, false));
            r.inst("f32/2comp/scaled", |o| go::<f32>(o, 2, true));
        }
    };
}
pls_entry!(pls_regression, PlsRegression);
pls_entry!(pls_canonical, PlsCanonical);
pls_entry!(pls_cca, PlsCca);

fn pls_svd_params(r: &mut Runner) {
    use linfa_pls::{PlsSvd, PlsSvdParams};
    for (name, p) in [("default", PlsSvdParams::default()), ("1comp", PlsSvd::<f64>::params(1)), ("2comp_unscaled", PlsSvdParams::new(2).scale(false)), ("invalid_too_many_components", PlsSvdParams::new(9)), ("invalid_zero_components_unscaled", PlsSvdParams::new(0).scale(false)), ("components_huge", PlsSvdParams::new(usize::MAX))] {
        r.inst(name, |o| {
            let (x, y) = regression::<f64>(40, 4, 2, 27);
            let (x32, y32) = regression::<f32>(40, 4, 2, 27);
            let obs = |p: &PlsSvdParams| {
                let mut ob = Ob::new();
                match p.fit(&Dataset::new(x.clone(), y.clone())) {
                    Ok(m) => {
                        ob.a2("refit.weights.x", m.weights().0).a2("refit.weights.y", m.weights().1);
                        let t = m.transform(Dataset::new(x.clone(), y.clone()));
                        ob.a2("refit.transform.records", t.records()).a2("refit.transform.targets", t.targets())
                    }
                    Err(e) => ob.st("refit.error", e.to_string()),
                };
                match p.fit(&Dataset::new(x32.clone(), y32.clone())) {
                    Ok(m) => ob.a2("refit.f32.weights.x", m.weights().0),
                    Err(e) => ob.st("refit.f32.error", e.to_string()),
                };
                ob.done()
            };
            round_trip(o, &Spec::full(&obs).json(), &p);
        });
    }
}

// ---------------------------------------------------------------------------------------------
// PCA
// ---------------------------------------------------------------------------------------------
fn pca_obs(m: &linfa_reduction::Pca<f64>, x: &Array2<f64>, q: &Array2<f64>) -> Ob {
    let mut ob = Ob::new();
    ob.a2("components", m.components()).a1("singular_values", m.singular_values()).a1("mean", m.mean());
    ob.a1("explained_variance", &m.explained_variance()).a1("explained_variance_ratio", &m.explained_variance_ratio());
    ob.a2("predict", &m.predict(q));
    let t = m.transform(Dataset::from(x.clone()));
    ob.a2("transform", t.records());
    ob.a2("transform.inverse", &m.inverse_transform(m.predict(x)));
    ob.done()
}

fn pca_params(r: &mut Runner) {
    use linfa_reduction::{Pca, PcaParams};
    for (name, p) in [("k2", Pca::params(2)), ("k1_whiten", Pca::params(1).whiten(true)), ("k3_no_whiten", Pca::params(3).whiten(false)), ("k0", Pca::params(0)), ("k0_whiten", Pca::params(0).whiten(true)), ("k_huge", Pca::params(usize::MAX))] {
        r.inst(name, |o| {
            let (x, _) = blobs::<f64>(60, 4, 3, 41);
            let q = pool::<f64>(4, Some(&x));
            let obs = |p: &PcaParams| {
                let mut ob = Ob::new();
                match lvmc_core::guarded(|| p.fit(&Dataset::from(x.clone()))) {
                    Ok(Ok(m)) => ob.sub("refit", pca_obs(&m, &x, &q)),
                    Ok(Err(e)) => ob.st("refit.error", e.to_string()),
                    Err(p) => ob.st("refit.panic", p),
                };
                ob.done()
            };
            round_trip(o, &Spec::full(&obs).json(), &p);
        });
    }
}

fn pca_model(r: &mut Runner) {
    use linfa_reduction::Pca;
    for (name, k, whiten) in [("f64/k2", 2usize, false), ("f64/k2_whiten", 2, true), ("f64/k4_full_rank", 4, false)] {
        r.inst(name, |o| {
            let (x, _) = blobs::<f64>(60, 4, 3, 41);
            let q = pool::<f64>(4, Some(&x));
            let m = o.need("pca fit", Pca::params(k).whiten(whiten).fit(&Dataset::from(x.clone())));
            let obs = |m: &Pca<f64>| pca_obs(m, &x, &q);
            round_trip(o, &Spec::full(&obs), &m);
        });
    }
}

// ---------------------------------------------------------------------------------------------
// ICA
// ---------------------------------------------------------------------------------------------
fn ica_gfunc(r: &mut Runner) {
    use linfa_ica::fast_ica::GFunc;
    for (name, g) in [("Logcosh(1.0)", GFunc::Logcosh(1.0)), ("Logcosh(0.1+0.2)", GFunc::Logcosh(0.1 + 0.2)), ("Exp", GFunc::Exp), ("Cube", GFunc::Cube)] {
        r.inst(name, |o| {
            let obs = |g: &GFunc| {
                let mut ob = Ob::new();
                ob.st("debug", format!("{:?}", g));
                if let GFunc::Logcosh(a) = g {
                    ob.f1("alpha", *a);
                }
                ob.done()
            };
            let mut spec = Spec::full(&obs);
            spec.nontrivial = matches!(g, GFunc::Logcosh(_));
            round_trip(o, &spec, &g);
        });
    }
}

fn ica_data<F: Float>() -> Array2<F> {
    // two mixed non-Gaussian sources
    let mut g = Lcg(44);
    let n = 120;
    let mut x = Array2::<f64>::zeros((n, 3));
    for i in 0..n {
        let s1 = (i as f64 * 0.37).sin();
        let s2 = if g.next() > 0.5 { 1.0 } else { -1.0 } * g.next();
        x[(i, 0)] = s1 + 0.5 * s2;
        x[(i, 1)] = 0.3 * s1 - s2;
        x[(i, 2)] = 0.7 * s1 + 0.2 * s2 + 0.05 * g.normalish();
    }
    cast2(&x)
}

fn ica_obs<F: Float>(m: &linfa_ica::fast_ica::FastIca<F>, q: &Array2<F>) -> Ob {
    let mut ob = Ob::new();
    ob.a2("predict", &m.predict(q));
    ob.done()
}

fn ica_points<F: Float>() -> Vec<(&'static str, linfa_ica::hyperparams::FastIcaParams<F>)> {
    use linfa_ica::fast_ica::{FastIca, GFunc};
    vec![
        ("default_seeded", FastIca::params().random_state(10)),
        ("2comp_exp", FastIca::params().ncomponents(2).gfunc(GFunc::Exp).random_state(3).max_iter(100).tol(F::cast(1e-3))),
        ("2comp_logcosh1.3", FastIca::params().ncomponents(2).gfunc(GFunc::Logcosh(1.1 + 0.2)).random_state(usize::MAX >> 1)),
        // Option<usize> parameters at Some(0) / Some(1) / Some(all), every GFunc variant, boundary numbers
        ("random_state0_1comp_cube", FastIca::params().ncomponents(1).gfunc(GFunc::Cube).random_state(0).max_iter(1).tol(F::cast(0.0))),
        ("ncomponents0_random_state_max", FastIca::params().ncomponents(0).random_state(usize::MAX).max_iter(0)),
        ("3comp_all_logcosh2", FastIca::params().ncomponents(3).gfunc(GFunc::Logcosh(2.0)).random_state(1).max_iter(usize::MAX).tol(F::cast(1e30))),
    ]
}

fn ica_params(r: &mut Runner) {
    use linfa_ica::hyperparams::FastIcaValidParams;
    fn go<F: SF>(o: &mut Out, p: linfa_ica::hyperparams::FastIcaParams<F>) {
        let x = ica_data::<F>();
        let q = pool::<F>(3, Some(&x));
        let v = o.need("check", p.check());
        let obs = |v: &FastIcaValidParams<F>| {
            let mut ob = Ob::new();
            ob.st("ncomponents", format!("{:?}", v.ncomponents())).st("gfunc", format!("{:?}", v.gfunc())).u1("max_iter", v.max_iter()).f1("tol", v.tol()).st("random_state", format!("{:?}", v.random_state()));
            match v.fit(&Dataset::from(x.clone())) {
                Ok(m) => ob.sub("refit", ica_obs(&m, &q)),
                Err(e) => ob.st("refit.error", e.to_string()),
            };
            ob.done()
        };
        round_trip(o, &Spec::full(&obs), &v);
    }
    for (n, p) in ica_points::<f64>() {
        r.inst(&format!("f64/{}", n), |o| go(o, p));
    }
    for (n, p) in ica_points::<f32>().into_iter().take(2) {
        r.inst(&format!("f32/{}", n), |o| go(o, p));
    }
}

fn ica_model(r: &mut Runner) {
    fn go<F: SF>(o: &mut Out, p: linfa_ica::hyperparams::FastIcaParams<F>) {
        let x = ica_data::<F>();
        let q = pool::<F>(3, Some(&x));
        let m = o.need("ica fit", p.fit(&Dataset::from(x.clone())));
        let obs = |m: &linfa_ica::fast_ica::FastIca<F>| ica_obs(m, &q);
        round_trip(o, &Spec::full(&obs), &m);
    }
    for (n, p) in ica_points::<f64>().into_iter().take(3) {
        r.inst(&format!("f64/{}", n), |o| go(o, p));
    }
    r.inst("f32/2comp_exp", |o| go::<f32>(o, ica_points().remove(1).1));
}
