//! Deterministic data for fitting every estimator (fixed LCG, no entropy source) and the query
//! pools on which predictions / transforms of original and restored values are compared.

use linfa::Float;
use ndarray::{Array1, Array2};
use rand_xoshiro::rand_core::SeedableRng;
use rand_xoshiro::Xoshiro256Plus;

thread_local! {
    /// data variant of the case being run on this thread (0 = the quick catalogue; the thorough
    /// tier re-runs every case on further data sets): shifts every data seed
    static VARIANT: std::cell::Cell<u64> = const { std::cell::Cell::new(0) };
}
thread_local! {
    static USED: std::cell::Cell<bool> = const { std::cell::Cell::new(false) };
}
thread_local! {
    /// when set, every generated record / target matrix is handed out in COLUMN-MAJOR (Fortran)
    /// memory order: same contents, different layout (layout is state that serialisation drops)
    static F_ORDER: std::cell::Cell<bool> = const { std::cell::Cell::new(false) };
}
pub fn set_variant(v: u64) {
    VARIANT.with(|c| c.set(v));
    USED.with(|c| c.set(false));
}
/// (variant, f_order, used): saved and restored around every case, because a rayon worker that
/// waits inside the subject's own parallel loop (k-means) may run ANOTHER case of the sweep on
/// the same thread in the meantime; nesting is strictly LIFO, so save / restore is exact
pub fn save_state() -> (u64, bool, bool) {
    (variant(), f_order(), data_used())
}
pub fn restore_state(s: (u64, bool, bool)) {
    VARIANT.with(|c| c.set(s.0));
    F_ORDER.with(|c| c.set(s.1));
    USED.with(|c| c.set(s.2));
}
pub fn set_f_order(b: bool) {
    F_ORDER.with(|c| c.set(b));
}
pub fn f_order() -> bool {
    F_ORDER.with(|c| c.get())
}
/// the same matrix in column-major memory order
pub fn to_f_order<F: Float>(a: &Array2<F>) -> Array2<F> {
    use ndarray::ShapeBuilder;
    let mut out = Array2::zeros(a.raw_dim().f());
    out.assign(a);
    out
}
/// did the case just run draw any variant-dependent data? (if not, its variants are duplicates)
pub fn data_used() -> bool {
    USED.with(|c| c.get())
}
pub fn variant() -> u64 {
    VARIANT.with(|c| c.get())
}
fn vseed(seed: u64) -> u64 {
    USED.with(|c| c.set(true));
    seed.wrapping_add(7919u64.wrapping_mul(variant()))
}

pub struct Lcg(pub u64);
impl Lcg {
    pub fn next(&mut self) -> f64 {
        self.0 = self.0.wrapping_mul(6364136223846793005).wrapping_add(1442695040888963407);
        ((self.0 >> 11) as f64) / ((1u64 << 53) as f64)
    }
    pub fn normalish(&mut self) -> f64 {
        (self.next() + self.next() + self.next() + self.next() - 2.0) * 1.2
    }
}

/// casts; generated data leave through here, so this is where the layout variant is applied
pub fn cast2<F: Float>(a: &Array2<f64>) -> Array2<F> {
    let c = a.mapv(|x| F::cast(x));
    if f_order() {
        to_f_order(&c)
    } else {
        c
    }
}
pub fn cast1<F: Float>(a: &Array1<f64>) -> Array1<F> {
    a.mapv(|x| F::cast(x))
}

/// n rows, p columns, k blobs; returns (records, blob id)
pub fn blobs<F: Float>(n: usize, p: usize, k: usize, seed: u64) -> (Array2<F>, Array1<usize>) {
    let mut g = Lcg(vseed(seed));
    let mut x = Array2::zeros((n, p));
    let mut y = Array1::zeros(n);
    for i in 0..n {
        let c = i % k;
        y[i] = c;
        for j in 0..p {
            let centre = ((c * (j + 2)) % 5) as f64 * 2.5 - 3.0;
            x[(i, j)] = centre + g.normalish();
        }
    }
    (cast2(&x), y)
}

/// OVERLAPPING blobs (centre spacing ~1, spread ~0.85): noisy, non-lattice data on which fitted
/// quantities are generic floating-point numbers (impure tree splits, mixture weights whose sum
/// is off from 1 by a few ulp, ...)
pub fn blobs_overlap<F: Float>(n: usize, p: usize, k: usize, seed: u64) -> (Array2<F>, Array1<usize>) {
    let mut g = Lcg(vseed(seed));
    let mut x = Array2::zeros((n, p));
    let mut y = Array1::zeros(n);
    for i in 0..n {
        // unequal class sizes: class of sample i from a skewed draw
        let u = g.next();
        let c = ((u * u) * k as f64) as usize % k;
        y[i] = c;
        for j in 0..p {
            let centre = ((c * (j + 1)) % k) as f64 * 1.1 - 0.7 * j as f64;
            x[(i, j)] = centre + g.normalish();
        }
    }
    (cast2(&x), y)
}

pub fn regression<F: Float>(n: usize, p: usize, t: usize, seed: u64) -> (Array2<F>, Array2<F>) {
    let mut g = Lcg(vseed(seed));
    let mut x = Array2::zeros((n, p));
    let mut y = Array2::zeros((n, t));
    for i in 0..n {
        for j in 0..p {
            x[(i, j)] = g.normalish() * (1.0 + j as f64);
        }
        for c in 0..t {
            let mut s = 0.5 * (c as f64 + 1.0);
            for j in 0..p {
                s += x[(i, j)] * ((j + c + 1) as f64 * 0.3 - 0.4);
            }
            y[(i, c)] = s + 0.1 * g.normalish();
        }
    }
    (cast2(&x), cast2(&y))
}

/// non-negative count-like features for multinomial NB
pub fn counts<F: Float>(n: usize, p: usize, k: usize, seed: u64) -> (Array2<F>, Array1<usize>) {
    let mut g = Lcg(vseed(seed));
    let mut x = Array2::zeros((n, p));
    let mut y = Array1::zeros(n);
    for i in 0..n {
        let c = i % k;
        y[i] = c;
        for j in 0..p {
            let lam = if (j + c) % k == 0 { 4.0 } else { 1.0 };
            x[(i, j)] = (g.next() * lam * 2.0).floor();
        }
    }
    (cast2(&x), y)
}

pub fn rng(seed: u64) -> Xoshiro256Plus {
    Xoshiro256Plus::seed_from_u64(seed)
}

/// Query pool in `d` dimensions: the lattice {-2, 0, 1.5}^d (d <= 4; for larger d a diagonal
/// family), far points on every axis, and `extra` rows (usually the training records).
pub fn pool<F: Float>(d: usize, extra: Option<&Array2<F>>) -> Array2<F> {
    let vals = [-2.0, 0.0, 1.5];
    let mut rows: Vec<Vec<f64>> = Vec::new();
    if d <= 4 {
        let total = 3usize.pow(d as u32);
        for mut code in 0..total {
            let mut r = Vec::with_capacity(d);
            for _ in 0..d {
                r.push(vals[code % 3]);
                code /= 3;
            }
            rows.push(r);
        }
    } else {
        for t in 0..12 {
            rows.push((0..d).map(|j| vals[(t + j) % 3] * (1.0 + 0.25 * t as f64)).collect());
        }
    }
    for j in 0..d {
        for s in [-100.0, 100.0] {
            let mut r = vec![0.25; d];
            r[j] = s;
            rows.push(r);
        }
    }
    rows.push(vec![1e3; d]);
    rows.push(vec![-1e3; d]);
    let n0 = rows.len();
    let ne = extra.map_or(0, |e| e.nrows());
    let mut out = Array2::zeros((n0 + ne, d));
    for (i, r) in rows.iter().enumerate() {
        for j in 0..d {
            out[(i, j)] = F::cast(r[j]);
        }
    }
    if let Some(e) = extra {
        for i in 0..ne {
            for j in 0..d {
                out[(n0 + i, j)] = e[(i, j)];
            }
        }
    }
    out
}

/// non-negative pool (counts) for multinomial NB / tf-idf like inputs
pub fn pool_nonneg<F: Float>(d: usize, extra: Option<&Array2<F>>) -> Array2<F> {
    pool::<F>(d, extra).mapv(|x| if x < F::zero() { -x } else { x })
}

pub const DOCS: [&str; 11] = [
    "one two three four",
    "two three four five five",
    "seven one one two",
    "nine eight seven six",
    "ten ten two a b",
    "One SIX x",
    "three three three nine",
    "caf\u{e9} na\u{ef}ve two-three one_two",
    // mixed-case alphanumeric tokens: only matter for split expressions with cased classes /
    // literals and for the lowercasing / case handling flags
    "A320 b737 A320 Boeing747 x9",
    "Flight A320 to B52 via c17 and B52",
    "iPhone X11 vs IPHONE x11 two",
];

pub const QUERY_DOCS: [&str; 10] = [
    "one two two",
    "five six SEVEN eight",
    "",
    "unknown words only",
    "a b x one",
    "three three nine ten ten",
    "caf\u{e9} two-three",
    "A320 b737 C17 a320",
    "B52 b52 Boeing747 BOEING747 Flight flight",
    "X11 x11 iPhone iphone IPHONE",
];

/// function tokeniser used for the guard tests: splits on single spaces, keeps one-letter tokens
/// and punctuation (deliberately different from the default regex `\b\w\w+\b`)
pub fn space_tokenizer(s: &str) -> Vec<&str> {
    s.split(' ').filter(|t| !t.is_empty()).collect()
}
