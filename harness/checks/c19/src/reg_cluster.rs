//! Registry part 2: linfa-clustering (k-means, GMM, DBSCAN, OPTICS) and linfa-bayes.

use crate::data::*;
use crate::engine::*;
use linfa::prelude::*;
use linfa::Float;
use linfa_clustering::*;
use linfa_nn::distance::{Distance, L1Dist, L2Dist, LpDist};
use linfa_nn::CommonNearestNeighbour;
use ndarray::{Array1, Array2, Axis};
use rand_xoshiro::Xoshiro256Plus;
use serde::de::DeserializeOwned;
use serde::Serialize;

pub trait SF: Float + Serialize + DeserializeOwned {}
impl SF for f32 {}
impl SF for f64 {}

pub fn entries() -> Vec<Entry> {
    vec![
        Entry { id: "clustering.KMeans", sites: &[("algorithms/linfa-clustering/src/k_means/algorithm.rs", "KMeans")], run: kmeans_model },
        Entry { id: "clustering.KMeansInit", sites: &[("algorithms/linfa-clustering/src/k_means/init.rs", "KMeansInit")], run: kmeans_init },
        Entry { id: "clustering.KMeansParams", sites: &[("algorithms/linfa-clustering/src/k_means/hyperparams.rs", "KMeansParams")], run: kmeans_params },
        Entry { id: "clustering.KMeansValidParams", sites: &[("algorithms/linfa-clustering/src/k_means/hyperparams.rs", "KMeansValidParams")], run: kmeans_valid_params },
        Entry { id: "clustering.GaussianMixtureModel", sites: &[("algorithms/linfa-clustering/src/gaussian_mixture/algorithm.rs", "GaussianMixtureModel")], run: gmm_model },
        Entry { id: "clustering.GmmCovarType", sites: &[("algorithms/linfa-clustering/src/gaussian_mixture/hyperparams.rs", "GmmCovarType")], run: gmm_covar },
        Entry { id: "clustering.GmmInitMethod", sites: &[("algorithms/linfa-clustering/src/gaussian_mixture/hyperparams.rs", "GmmInitMethod")], run: gmm_init },
        Entry { id: "clustering.GmmParams", sites: &[("algorithms/linfa-clustering/src/gaussian_mixture/hyperparams.rs", "GmmParams")], run: gmm_params },
        Entry { id: "clustering.GmmValidParams", sites: &[("algorithms/linfa-clustering/src/gaussian_mixture/hyperparams.rs", "GmmValidParams")], run: gmm_valid_params },
        Entry { id: "clustering.Dbscan", sites: &[("algorithms/linfa-clustering/src/dbscan/algorithm.rs", "Dbscan")], run: dbscan_unit },
        Entry { id: "clustering.DbscanValidParams", sites: &[("algorithms/linfa-clustering/src/dbscan/hyperparams.rs", "DbscanValidParams")], run: dbscan_valid_params },
        Entry { id: "clustering.Optics", sites: &[("algorithms/linfa-clustering/src/optics/algorithm.rs", "Optics")], run: optics_unit },
        Entry { id: "clustering.Sample", sites: &[("algorithms/linfa-clustering/src/optics/algorithm.rs", "Sample")], run: optics_sample },
        Entry { id: "clustering.OpticsAnalysis", sites: &[("algorithms/linfa-clustering/src/optics/algorithm.rs", "OpticsAnalysis")], run: optics_analysis },
        Entry { id: "clustering.OpticsParams", sites: &[("algorithms/linfa-clustering/src/optics/hyperparams.rs", "OpticsParams")], run: optics_params },
        Entry { id: "clustering.OpticsValidParams", sites: &[("algorithms/linfa-clustering/src/optics/hyperparams.rs", "OpticsValidParams")], run: optics_valid_params },
        Entry { id: "bayes.GaussianNb", sites: &[("algorithms/linfa-bayes/src/gaussian_nb.rs", "GaussianNb")], run: gnb_model },
        Entry { id: "bayes.GaussianNbValidParams", sites: &[("algorithms/linfa-bayes/src/hyperparams.rs", "GaussianNbValidParams")], run: gnb_params },
        Entry { id: "bayes.MultinomialNb", sites: &[("algorithms/linfa-bayes/src/multinomial_nb.rs", "MultinomialNb")], run: mnb_model },
        Entry { id: "bayes.MultinomialNbValidParams", sites: &[("algorithms/linfa-bayes/src/hyperparams.rs", "MultinomialNbValidParams")], run: mnb_params },
    ]
}

fn es<T: std::fmt::Debug>(e: T) -> String {
    format!("{:?}", e)
}

// ---------------------------------------------------------------------------------------------
// k-means
// ---------------------------------------------------------------------------------------------
fn kmeans_obs<F: Float, D: Distance<F>>(m: &KMeans<F, D>, q: &Array2<F>) -> Ob {
    let mut ob = Ob::new();
    ob.a2("centroids", m.centroids()).a1("cluster_count", m.cluster_count()).f1("inertia", m.inertia());
    ob.us("predict", m.predict(q).iter().cloned());
    ob.a1("transform", &m.transform(q));
    ob.u1("predict.single", m.predict(&q.row(0)));
    ob.done()
}

fn kmeans_model(r: &mut Runner) {
    fn go<F: SF, D: Distance<F> + Serialize + DeserializeOwned + PartialEq + std::fmt::Debug + 'static>(o: &mut Out, d: D, init: KMeansInit<F>, incremental: bool) {
        let (x, _) = blobs::<F>(90, 3, 3, 11);
        let ds = Dataset::from(x.clone());
        let params = KMeans::params_with(3, rng(7), d).init_method(init).n_runs(2).max_n_iterations(20).tolerance(F::cast(1e-3));
        let m = if incremental {
            let mut model = None;
            for chunk in x.axis_chunks_iter(Axis(0), 30) {
                let ds = Dataset::from(chunk.to_owned());
                model = Some(match params.fit_with(model, &ds) {
                    Ok(m) => m,
                    Err(IncrKMeansError::NotConverged(m)) => m,
                    Err(e) => o.machinery(&es(e)),
                });
            }
            model.unwrap()
        } else {
            o.need("kmeans fit", params.fit(&ds))
        };
        let q = pool::<F>(3, Some(&x));
        let obs = |m: &KMeans<F, D>| kmeans_obs(m, &q);
        // one more mini-batch step from the (restored) model
        let batch = Dataset::from(x.slice(ndarray::s![0..30, ..]).to_owned());
        let advance = |m: &KMeans<F, D>| match params.fit_with(Some(m.clone()), &batch) {
            Ok(m) => m,
            Err(IncrKMeansError::NotConverged(m)) => m,
            Err(e) => panic!("fit_with: {:?}", e),
        };
        round_trip(o, &Spec::full(&obs).mutating(&advance), &m);
    }
    /// Precomputed centroids handed in COLUMN-MAJOR memory order (a caller who keeps one centroid
    /// per column and passes the transpose); the incremental path keeps that layout in the model.
    /// `p` features: 4, 5, 7, 9 (from 4 on, unrolled / vectorised sums can differ from sequential ones)
    fn go_f_order_centroids<F: SF, D: Distance<F> + Serialize + DeserializeOwned + PartialEq + std::fmt::Debug + 'static>(o: &mut Out, d: D, p: usize, incremental: bool) {
        let (x, _) = blobs::<F>(96, p, 3, 11);
        let init = to_f_order(&x.slice(ndarray::s![0..3, ..]).to_owned());
        if init.is_standard_layout() {
            o.machinery("precomputed centroids meant to be column-major are in standard layout");
        }
        let params = KMeans::params_with(3, rng(7), d).init_method(KMeansInit::Precomputed(init)).n_runs(1).max_n_iterations(20).tolerance(F::cast(1e-3));
        let m = if incremental {
            let mut model = None;
            for chunk in x.axis_chunks_iter(Axis(0), 32) {
                let ds = Dataset::from(chunk.to_owned());
                model = Some(match params.fit_with(model, &ds) {
                    Ok(m) => m,
                    Err(IncrKMeansError::NotConverged(m)) => m,
                    Err(e) => o.machinery(&es(e)),
                });
            }
            model.unwrap()
        } else {
            o.need("kmeans fit", params.fit(&Dataset::from(x.clone())))
        };
        let q = pool::<F>(p, Some(&x));
        let obs = |m: &KMeans<F, D>| kmeans_obs(m, &q);
        let batch = Dataset::from(x.slice(ndarray::s![0..32, ..]).to_owned());
        let advance = |m: &KMeans<F, D>| match params.fit_with(Some(m.clone()), &batch) {
            Ok(m) => m,
            Err(IncrKMeansError::NotConverged(m)) => m,
            Err(e) => panic!("fit_with: {:?}", e),
        };
        round_trip(o, &Spec::full(&obs).mutating(&advance), &m);
    }
    for p in [4usize, 5, 7, 9] {
        r.inst(&format!("f64/L2/column_major_precomputed/incremental/p{}", p), |o| go_f_order_centroids::<f64, _>(o, L2Dist, p, true));
    }
    r.inst("f64/L2/column_major_precomputed/batch/p5", |o| go_f_order_centroids::<f64, _>(o, L2Dist, 5, false));
    r.inst("f32/L2/column_major_precomputed/incremental/p9", |o| go_f_order_centroids::<f32, _>(o, L2Dist, 9, true));
    r.inst("f64/L1/column_major_precomputed/incremental/p7", |o| go_f_order_centroids::<f64, _>(o, L1Dist, 7, true));
    r.inst("f32/L1/column_major_precomputed/incremental/p4", |o| go_f_order_centroids::<f32, _>(o, L1Dist, 4, true));
    r.inst("f64/Lp(3)/column_major_precomputed/incremental/p5", |o| go_f_order_centroids::<f64, _>(o, LpDist(3.0), 5, true));
    r.inst("f64/L2/kmeans++", |o| go::<f64, _>(o, L2Dist, KMeansInit::KMeansPlusPlus, false));
    r.inst("f64/L1/random", |o| go::<f64, _>(o, L1Dist, KMeansInit::Random, false));
    r.inst("f64/Lp(1.5)/kmeans++", |o| go::<f64, _>(o, LpDist(1.5), KMeansInit::KMeansPlusPlus, false));
    r.inst("f64/Lp(2.3)/kmeans++", |o| go::<f64, _>(o, LpDist(2.0 + 0.1 + 0.2), KMeansInit::KMeansPlusPlus, false));
    r.inst("f64/L2/incremental", |o| go::<f64, _>(o, L2Dist, KMeansInit::Random, true));
    r.inst("f32/L2/kmeans++", |o| go::<f32, _>(o, L2Dist, KMeansInit::KMeansPlusPlus, false));
    r.inst("f32/Lp(3)/random", |o| go::<f32, _>(o, LpDist(3.0f32), KMeansInit::Random, false));
}

fn kmeans_init(r: &mut Runner) {
    fn obs_of<F: Float>(k: &KMeansInit<F>) -> Ob {
        let mut ob = Ob::new();
        match k {
            KMeansInit::Random => ob.st("variant", "Random"),
            KMeansInit::KMeansPlusPlus => ob.st("variant", "KMeansPlusPlus"),
            KMeansInit::KMeansPara => ob.st("variant", "KMeansPara"),
            KMeansInit::Precomputed(a) => ob.st("variant", "Precomputed").a2("centroids", a),
            _ => ob.st("variant", "unknown"),
        };
        ob.done()
    }
    fn go<F: SF>(o: &mut Out, k: KMeansInit<F>) {
        let obs = |k: &KMeansInit<F>| obs_of(k);
        let mut spec = Spec::full(&obs);
        spec.nontrivial = matches!(k, KMeansInit::Precomputed(_));
        round_trip(o, &spec, &k);
    }
    r.inst("f64/Random", |o| go::<f64>(o, KMeansInit::Random));
    r.inst("f64/KMeansPlusPlus", |o| go::<f64>(o, KMeansInit::KMeansPlusPlus));
    r.inst("f64/KMeansPara", |o| go::<f64>(o, KMeansInit::KMeansPara));
    r.inst("f64/Precomputed", |o| go::<f64>(o, KMeansInit::Precomputed(ndarray::array![[0.1 + 0.2, -0.0], [1e-310, 4.0], [f64::MAX, f64::MIN_POSITIVE]])));
    r.inst("f32/Precomputed", |o| go::<f32>(o, KMeansInit::Precomputed(ndarray::array![[0.1f32 + 0.2, -0.0], [1e-40, 4.0]])));
    r.inst("f32/KMeansPlusPlus", |o| go::<f32>(o, KMeansInit::KMeansPlusPlus));
    r.inst("f64/Precomputed(column-major 3x5)", |o| go::<f64>(o, KMeansInit::Precomputed(to_f_order(&blobs::<f64>(3, 5, 3, 3).0))));
}

type KmP<F, D> = KMeansParams<F, Xoshiro256Plus, D>;
type KmV<F, D> = KMeansValidParams<F, Xoshiro256Plus, D>;

fn kmeans_valid_obs<F: Float, D: Distance<F> + std::fmt::Debug>(v: &KmV<F, D>, x: &Array2<F>, q: &Array2<F>) -> Ob {
    let mut ob = Ob::new();
    ob.u1("n_runs", v.n_runs()).f1("tolerance", v.tolerance()).u1("max_n_iterations", v.max_n_iterations() as usize).u1("n_clusters", v.n_clusters());
    ob.st("init_method", format!("{:?}", v.init_method())).st("rng", format!("{:?}", v.rng())).st("dist_fn", format!("{:?}", v.dist_fn()));
    let ds = Dataset::from(x.clone());
    if matches!(v.init_method(), KMeansInit::KMeansPara) {
        ob.st("refit.skipped", "k-means|| initialisation is not run-to-run deterministic");
        return ob.done();
    }
    match v.fit(&ds) {
        Ok(m) => ob.sub("refit", kmeans_obs(&m, q)),
        Err(e) => ob.st("refit.error", e.to_string()),
    };
    ob.done()
}

fn kmeans_param_points<F: Float, D: Distance<F> + Clone>(d: D) -> Vec<(&'static str, KmP<F, D>)> {
    vec![
        ("default", KMeans::params_with(3, rng(42), d.clone())),
        ("nondefault1", KMeans::params_with(2, rng(1), d.clone()).n_runs(3).tolerance(F::cast(0.05)).max_n_iterations(7).init_method(KMeansInit::Random)),
        ("nondefault2", KMeans::params_with(3, rng(2), d.clone()).n_runs(1).tolerance(F::cast(1e-6)).max_n_iterations(50).init_method(KMeansInit::Precomputed(ndarray::array![[F::cast(-3.1), F::cast(-2.9)], [F::cast(0.1 + 0.2), F::cast(2.0)], [F::cast(2.2), F::cast(-1.3)]]))),
        // boundary points: smallest legal values of every integer parameter, extreme tolerances
        ("one_cluster_one_run_one_iteration", KMeans::params_with(1, rng(4), d.clone()).n_runs(1).max_n_iterations(1).tolerance(F::min_positive_value())),
        ("many_runs_huge_tolerance", KMeans::params_with(2, rng(5), d.clone()).n_runs(4).max_n_iterations(u64::MAX).tolerance(F::cast(1e30)).init_method(KMeansInit::KMeansPlusPlus)),
        // k-means|| draws candidates in a rayon loop (order not fixed): accessors only, no refit
        ("kmeans_para_init", KMeans::params_with(2, rng(6), d.clone()).init_method(KMeansInit::KMeansPara)),
        ("invalid_zero_clusters", KMeans::params_with(0, rng(3), d.clone())),
        ("invalid_tolerance", KMeans::params_with(3, rng(3), d).tolerance(F::cast(-1.0))),
    ]
}

fn kmeans_params(r: &mut Runner) {
    r.inst("f32/L2/column_major_precomputed/p7", |o| {
        let (params, x, q) = kmeans_f_order_params::<f32>(7);
        let obs = |p: &KmP<f32, L2Dist>| {
            let mut ob = Ob::new();
            match p.check_ref() {
                Ok(v) => ob.st("check_verdict", "ok").sub("checked", kmeans_valid_obs(v, &x, &q)),
                Err(e) => ob.st("check_verdict", format!("err: {}", e)),
            };
            ob.done()
        };
        round_trip(o, &Spec::full(&obs), &params);
    });
    fn go<F: SF, D: Distance<F> + Serialize + DeserializeOwned + PartialEq + std::fmt::Debug + 'static>(o: &mut Out, p: KmP<F, D>) {
        let (x, _) = blobs::<F>(60, 2, 3, 12);
        let q = pool::<F>(2, Some(&x));
        let obs = |p: &KmP<F, D>| {
            let mut ob = Ob::new();
            match p.check_ref() {
                Ok(v) => ob.st("check_verdict", "ok").sub("checked", kmeans_valid_obs(v, &x, &q)),
                Err(e) => ob.st("check_verdict", format!("err: {}", e)),
            };
            // fitting through the unchecked builder (ParamGuard blanket impl)
            if format!("{:?}", p).contains("KMeansPara") {
                return ob.done();
            }
            match p.fit(&Dataset::from(x.clone())) {
                Ok(m) => ob.sub("refit", kmeans_obs(&m, &q)),
                Err(e) => ob.st("refit.error", e.to_string()),
            };
            ob.done()
        };
        round_trip(o, &Spec::full(&obs), &p);
    }
    for (name, p) in kmeans_param_points::<f64, _>(L2Dist) {
        r.inst(&format!("f64/L2/{}", name), |o| go(o, p));
    }
    for (name, p) in kmeans_param_points::<f32, _>(LpDist(1.7f32)) {
        r.inst(&format!("f32/Lp(1.7)/{}", name), |o| go(o, p));
    }
    for (name, p) in kmeans_param_points::<f64, _>(LpDist(2.0 + 0.1 + 0.2)).into_iter().take(2) {
        r.inst(&format!("f64/Lp(2.3)/{}", name), |o| go(o, p));
    }
}

/// parameter sets holding column-major Precomputed centroids (5 and 9 features): refit (batch,
/// inside kmeans_valid_obs) must agree bit for bit between original and restored parameters
fn kmeans_f_order_params<F: SF>(p: usize) -> (KmP<F, L2Dist>, Array2<F>, Array2<F>) {
    let (x, _) = blobs::<F>(64, p, 3, 12);
    let init = to_f_order(&x.slice(ndarray::s![0..3, ..]).to_owned());
    let q = pool::<F>(p, Some(&x));
    (KMeans::params_with(3, rng(2), L2Dist).n_runs(1).max_n_iterations(10).init_method(KMeansInit::Precomputed(init)), x, q)
}

fn kmeans_valid_params(r: &mut Runner) {
    for p in [5usize, 9] {
        r.inst(&format!("f64/L2/column_major_precomputed/p{}", p), |o| {
            let (params, x, q) = kmeans_f_order_params::<f64>(p);
            let v = o.need("check", params.check());
            let obs = |v: &KmV<f64, L2Dist>| {
                let mut ob = kmeans_valid_obs(v, &x, &q);
                // incremental first step from the parameters' own centroids
                match v.fit_with(None, &Dataset::from(x.clone())) {
                    Ok(m) | Err(IncrKMeansError::NotConverged(m)) => ob.sub("refit_with", kmeans_obs(&m, &q)),
                    Err(e) => ob.st("refit_with.error", format!("{:?}", e)),
                };
                ob.done()
            };
            round_trip(o, &Spec::full(&obs), &v);
        });
    }
    fn go<F: SF, D: Distance<F> + Serialize + DeserializeOwned + PartialEq + std::fmt::Debug + 'static>(o: &mut Out, p: KmP<F, D>) {
        let (x, _) = blobs::<F>(60, 2, 3, 12);
        let q = pool::<F>(2, Some(&x));
        let v = o.need("check", p.check());
        let obs = |v: &KmV<F, D>| kmeans_valid_obs(v, &x, &q);
        round_trip(o, &Spec::full(&obs), &v);
    }
    for (name, p) in kmeans_param_points::<f64, _>(LpDist(2.0 + 0.1 + 0.2)).into_iter().take(2) {
        r.inst(&format!("f64/Lp(2.3)/{}", name), |o| go(o, p));
    }
    for (name, p) in kmeans_param_points::<f64, _>(L1Dist).into_iter().filter(|(n, _)| !n.starts_with("invalid")) {
        r.inst(&format!("f64/L1/{}", name), |o| go(o, p));
    }
    for (name, p) in kmeans_param_points::<f32, _>(LpDist(2.5f32)).into_iter().filter(|(n, _)| !n.starts_with("invalid")) {
        r.inst(&format!("f32/Lp(2.5)/{}", name), |o| go(o, p));
    }
}

// ---------------------------------------------------------------------------------------------
// Gaussian mixture
// ---------------------------------------------------------------------------------------------
fn gmm_obs<F: Float>(m: &GaussianMixtureModel<F>, q: &Array2<F>) -> Ob {
    let mut ob = Ob::new();
    ob.a1("weights", m.weights()).a2("means", m.means()).a3("covariances", m.covariances()).a3("precisions", m.precisions()).a2("centroids", m.centroids());
    ob.a2("predict_proba", &m.predict_proba(q)).us("predict", m.predict(q).iter().cloned());
    ob.done()
}

fn gmm_model(r: &mut Runner) {
    fn go<F: SF>(o: &mut Out, init: GmmInitMethod, k: usize) {
        let (x, _) = blobs::<F>(120, 2, k, 15);
        let ds = Dataset::from(x.clone());
        let m = o.need("gmm fit", GaussianMixtureModel::params_with_rng(k, rng(5)).n_runs(2).tolerance(F::cast(1e-3)).reg_covariance(F::cast(1e-3)).init_method(init).fit(&ds));
        // query pool without the far points: responsibilities far from the data are C10's subject
        let q = x.clone();
        let obs = |m: &GaussianMixtureModel<F>| gmm_obs(m, &q);
        round_trip(o, &Spec::full(&obs), &m);
    }
    /// three overlapping blobs, several data seeds: the fitted weights sum to one only within a
    /// few ulp, so some of these models carry a weight sum that is off by more than one epsilon
    fn go_overlap<F: SF>(o: &mut Out, seed: u64) {
        let (x, _) = blobs_overlap::<F>(150, 2, 3, seed);
        let ds = Dataset::from(x.clone());
        // EM does not converge from every start on overlapping data: first converging start of a fixed list
        let m = match (0..6u64).find_map(|a| GaussianMixtureModel::params_with_rng(3, rng(seed + 1000 * a)).n_runs(1).tolerance(F::cast(1e-3)).reg_covariance(F::cast(1e-4)).max_n_iterations(300).fit(&ds).ok()) {
            Some(m) => m,
            None => o.machinery("no converging EM start among 6"),
        };
        let off = (m.weights().sum() - F::one()).abs() > F::epsilon();
        o.invariants.insert(format!("weights sum to 1 ({})", std::any::type_name::<F>()), off);
        let q = x.clone();
        let obs = |m: &GaussianMixtureModel<F>| {
            let mut ob = gmm_obs(m, &q);
            ob.f1("weights.sum", m.weights().sum());
            ob.done()
        };
        round_trip(o, &Spec::full(&obs), &m);
    }
    for seed in 101..117u64 {
        r.inst(&format!("f64/overlapping_blobs/seed{}", seed), |o| go_overlap::<f64>(o, seed));
        r.inst(&format!("f32/overlapping_blobs/seed{}", seed), |o| go_overlap::<f32>(o, seed));
    }
    r.inst("f64/kmeans_init/k3", |o| go::<f64>(o, GmmInitMethod::KMeans, 3));
    r.inst("f64/random_init/k2", |o| go::<f64>(o, GmmInitMethod::Random, 2));
    r.inst("f32/kmeans_init/k2", |o| go::<f32>(o, GmmInitMethod::KMeans, 2));
}

fn gmm_covar(r: &mut Runner) {
    r.inst("Full", |o| {
        let obs = |c: &GmmCovarType| {
            let mut ob = Ob::new();
            ob.st("variant", format!("{:?}", c));
            ob.done()
        };
        round_trip(o, &Spec::full(&obs).json().trivial(), &GmmCovarType::Full);
    });
}

fn gmm_init(r: &mut Runner) {
    for (n, v) in [("KMeans", GmmInitMethod::KMeans), ("Random", GmmInitMethod::Random)] {
        r.inst(n, |o| {
            let obs = |c: &GmmInitMethod| {
                let mut ob = Ob::new();
                ob.st("variant", format!("{:?}", c));
                ob.done()
            };
            round_trip(o, &Spec::full(&obs).json().trivial(), &v);
        });
    }
}

type GmP<F> = GmmParams<F, Xoshiro256Plus>;
type GmV<F> = GmmValidParams<F, Xoshiro256Plus>;

fn gmm_valid_obs<F: Float>(v: &GmV<F>, x: &Array2<F>) -> Ob {
    let mut ob = Ob::new();
    ob.u1("n_clusters", v.n_clusters()).st("covariance_type", format!("{:?}", v.covariance_type())).f1("tolerance", v.tolerance()).f1("reg_covariance", v.reg_covariance());
    ob.u1("n_runs", v.n_runs() as usize).u1("max_n_iterations", v.max_n_iterations() as usize).st("init_method", format!("{:?}", v.init_method())).st("rng", format!("{:?}", v.rng()));
    match v.fit(&Dataset::from(x.clone())) {
        Ok(m) => ob.sub("refit", gmm_obs(&m, x)),
        Err(e) => ob.st("refit.error", e.to_string()),
    };
    ob.done()
}

fn gmm_param_points<F: Float>() -> Vec<(&'static str, GmP<F>)> {
    vec![
        ("default", GaussianMixtureModel::params_with_rng(2, rng(42))),
        ("nondefault1", GaussianMixtureModel::params_with_rng(3, rng(1)).tolerance(F::cast(1e-2)).reg_covariance(F::cast(1e-2)).n_runs(2).max_n_iterations(15).init_method(GmmInitMethod::Random)),
        ("nondefault2", GaussianMixtureModel::params_with_rng(2, rng(9)).tolerance(F::cast(0.5)).reg_covariance(F::cast(0.0)).n_runs(1).max_n_iterations(3).covariance_type(GmmCovarType::Full)),
        ("one_cluster_one_run_one_iteration", GaussianMixtureModel::params_with_rng(1, rng(4)).n_runs(1).max_n_iterations(1).tolerance(F::min_positive_value()).reg_covariance(F::cast(1e-6))),
        ("huge_tolerance_many_iterations", GaussianMixtureModel::params_with_rng(2, rng(5)).n_runs(3).max_n_iterations(u64::MAX).tolerance(F::cast(1e30)).reg_covariance(F::cast(10.0))),
        ("invalid_zero_clusters", GaussianMixtureModel::params_with_rng(0, rng(3))),
        ("invalid_reg_covar", GaussianMixtureModel::params_with_rng(2, rng(3)).reg_covariance(F::cast(-1e-3))),
    ]
}

fn gmm_params(r: &mut Runner) {
    fn go<F: SF>(o: &mut Out, p: GmP<F>) {
        let (x, _) = blobs::<F>(80, 2, 2, 16);
        let obs = |p: &GmP<F>| {
            let mut ob = Ob::new();
            match p.check_ref() {
                Ok(v) => ob.st("check_verdict", "ok").sub("checked", gmm_valid_obs(v, &x)),
                Err(e) => ob.st("check_verdict", format!("err: {}", e)),
            };
            match p.fit(&Dataset::from(x.clone())) {
                Ok(m) => ob.sub("refit", gmm_obs(&m, &x)),
                Err(e) => ob.st("refit.error", e.to_string()),
            };
            ob.done()
        };
        round_trip(o, &Spec::full(&obs), &p);
    }
    for (name, p) in gmm_param_points::<f64>() {
        r.inst(&format!("f64/{}", name), |o| go(o, p));
    }
    for (name, p) in gmm_param_points::<f32>() {
        r.inst(&format!("f32/{}", name), |o| go(o, p));
    }
}

fn gmm_valid_params(r: &mut Runner) {
    fn go<F: SF>(o: &mut Out, p: GmP<F>) {
        let (x, _) = blobs::<F>(80, 2, 2, 16);
        let v = o.need("check", p.check());
        let obs = |v: &GmV<F>| gmm_valid_obs(v, &x);
        round_trip(o, &Spec::full(&obs), &v);
    }
    for (name, p) in gmm_param_points::<f64>().into_iter().filter(|(n, _)| !n.starts_with("invalid")) {
        r.inst(&format!("f64/{}", name), |o| go(o, p));
    }
    for (name, p) in gmm_param_points::<f32>().into_iter().filter(|(n, _)| !n.starts_with("invalid")) {
        r.inst(&format!("f32/{}", name), |o| go(o, p));
    }
}

// ---------------------------------------------------------------------------------------------
// DBSCAN / OPTICS
// ---------------------------------------------------------------------------------------------
fn dbscan_unit(r: &mut Runner) {
    r.inst("unit", |o| {
        let obs = |_d: &Dbscan| {
            // the unit struct is only a namespace for `params`: observe that the builder it hands out works
            let (x, _) = blobs::<f64>(40, 2, 2, 17);
            let labels = Dbscan::params::<f64>(3).tolerance(1.0).transform(&x).expect("valid params");
            let mut ob = Ob::new();
            ob.us("transform", labels.iter().map(|l| l.map_or(0, |v| v + 1)));
            ob.done()
        };
        round_trip(o, &Spec::full(&obs).json().trivial(), &Dbscan);
    });
}

fn dbscan_valid_params(r: &mut Runner) {
    fn go<F: SF, D: Distance<F> + Serialize + DeserializeOwned + PartialEq + std::fmt::Debug + 'static>(o: &mut Out, min_points: usize, tol: f64, d: D, nn: CommonNearestNeighbour) {
        let (x, _) = blobs::<F>(60, 2, 3, 17);
        let v = o.need("check", Dbscan::params_with(min_points, d, nn).tolerance(F::cast(tol)).check());
        let obs = |v: &DbscanValidParams<F, D, CommonNearestNeighbour>| {
            let mut ob = Ob::new();
            ob.f1("tolerance", v.tolerance()).u1("minimum_points", v.minimum_points()).st("dist_fn", format!("{:?}", v.dist_fn())).st("nn_algo", format!("{:?}", v.nn_algo()));
            ob.us("transform", v.transform(&x).iter().map(|l| l.map_or(0, |v| v + 1)));
            ob.done()
        };
        round_trip(o, &Spec::full(&obs), &v);
    }
    r.inst("f64/default(min_points=2)", |o| {
        let (x, _) = blobs::<f64>(60, 2, 3, 17);
        let v = o.need("check", Dbscan::params::<f64>(2).check());
        let obs = |v: &DbscanValidParams<f64, L2Dist, CommonNearestNeighbour>| {
            let mut ob = Ob::new();
            ob.f1("tolerance", v.tolerance()).u1("minimum_points", v.minimum_points()).st("dist_fn", format!("{:?}", v.dist_fn())).st("nn_algo", format!("{:?}", v.nn_algo()));
            ob.us("transform", v.transform(&x).iter().map(|l| l.map_or(0, |v| v + 1)));
            ob.done()
        };
        round_trip(o, &Spec::full(&obs), &v);
    });
    r.inst("f64/L2/kdtree/eps0.9/min4", |o| go::<f64, _>(o, 4, 0.9, L2Dist, CommonNearestNeighbour::KdTree));
    r.inst("f64/L1/balltree/eps1.3/min3", |o| go::<f64, _>(o, 3, 1.3, L1Dist, CommonNearestNeighbour::BallTree));
    r.inst("f32/Lp(3)/linear/eps1.1/min5", |o| go::<f32, _>(o, 5, 1.1, LpDist(3.0f32), CommonNearestNeighbour::LinearSearch));
    r.inst("f64/L2/kdtree/eps1e30/min2", |o| go::<f64, _>(o, 2, 1e30, L2Dist, CommonNearestNeighbour::KdTree));
    // (min_points = usize::MAX makes DbscanValidParams::transform panic with `capacity overflow`
    //  - Vec::with_capacity(min_points) - which is not C19's subject; 2^20 is the large point here)
    r.inst("f64/L2/linear/eps_min_positive/min_2pow20", |o| go::<f64, _>(o, 1 << 20, f64::MIN_POSITIVE, L2Dist, CommonNearestNeighbour::LinearSearch));
}

fn optics_unit(r: &mut Runner) {
    r.inst("unit", |o| {
        let obs = |_d: &Optics| {
            let (x, _) = blobs::<f64>(30, 2, 2, 18);
            let res = Optics::params::<f64>(3).tolerance(2.0).transform(x.view()).expect("valid params");
            let mut ob = Ob::new();
            ob.us("transform.order", res.iter().map(|s| s.index()));
            ob.done()
        };
        round_trip(o, &Spec::full(&obs).json().trivial(), &Optics);
    });
}

fn sample_obs<F: Float>(ob: &mut Ob, prefix: &str, s: &Sample<F>) {
    ob.u1(&format!("{}index", prefix), s.index());
    ob.bools(&format!("{}core_is_some", prefix), [s.core_distance().is_some()]);
    ob.fl(&format!("{}core_distance", prefix), s.core_distance().iter().cloned());
    ob.bools(&format!("{}reach_is_some", prefix), [s.reachability_distance().is_some()]);
    ob.fl(&format!("{}reachability_distance", prefix), s.reachability_distance().iter().cloned());
}

fn optics_result<F: Float>(tol: f64) -> (Array2<F>, OpticsAnalysis<F>) {
    let (x, _) = blobs::<F>(50, 2, 3, 18);
    let res = Optics::params::<F>(4).tolerance(F::cast(tol)).transform(x.view()).expect("valid optics params");
    (x, res)
}

fn optics_sample(r: &mut Runner) {
    fn go<F: SF>(o: &mut Out, which: &str) {
        let (_, res) = optics_result::<F>(1.2);
        let s: Sample<F> = match which {
            "first(no reachability)" => res.iter().next().cloned(),
            "core+reachable" => res.iter().find(|s| s.core_distance().is_some() && s.reachability_distance().is_some()).cloned(),
            "noise(no core distance)" => res.iter().find(|s| s.core_distance().is_none()).cloned(),
            _ => None,
        }
        .unwrap_or_else(|| o.machinery("no such OPTICS sample in the fixed result"));
        let obs = |s: &Sample<F>| {
            let mut ob = Ob::new();
            sample_obs(&mut ob, "", s);
            ob.done()
        };
        // Sample's PartialEq only looks at the reachability distance; it is still required to hold
        round_trip(o, &Spec::full(&obs), &s);
    }
    r.inst("f64/zero_distances(duplicate points)", |o| {
        let x: Array2<f64> = ndarray::array![[1.0, 1.0], [1.0, 1.0], [1.0, 1.0], [4.0, 4.0]];
        let res = Optics::params::<f64>(2).tolerance(0.5).transform(x.view()).expect("valid");
        let s: Sample<f64> = res.iter().find(|s| *s.core_distance() == Some(0.0) && *s.reachability_distance() == Some(0.0)).cloned().unwrap_or_else(|| o.machinery("no OPTICS sample with both distances exactly 0"));
        let obs = |s: &Sample<f64>| {
            let mut ob = Ob::new();
            sample_obs(&mut ob, "", s);
            ob.done()
        };
        round_trip(o, &Spec::full(&obs), &s);
    });
    for w in ["first(no reachability)", "core+reachable", "noise(no core distance)"] {
        r.inst(&format!("f64/{}", w), |o| go::<f64>(o, w));
        r.inst(&format!("f32/{}", w), |o| go::<f32>(o, w));
    }
}

fn analysis_obs<F: Float>(a: &OpticsAnalysis<F>) -> Ob {
    let mut ob = Ob::new();
    ob.u1("len", a.as_slice().len());
    ob.us("order", a.iter().map(|s| s.index()));
    ob.bools("core_is_some", a.iter().map(|s| s.core_distance().is_some()));
    ob.fl("core_distances", a.iter().flat_map(|s| s.core_distance().iter().cloned().collect::<Vec<_>>()));
    ob.bools("reach_is_some", a.iter().map(|s| s.reachability_distance().is_some()));
    ob.fl("reachability_distances", a.iter().flat_map(|s| s.reachability_distance().iter().cloned().collect::<Vec<_>>()));
    if !a.as_slice().is_empty() {
        sample_obs(&mut ob, "index0.", &a[0]);
    }
    ob.done()
}

fn optics_analysis(r: &mut Runner) {
    fn go<F: SF>(o: &mut Out, tol: f64) {
        let (_, res) = optics_result::<F>(tol);
        let obs = |a: &OpticsAnalysis<F>| analysis_obs(a);
        round_trip(o, &Spec::full(&obs), &res);
    }
    r.inst("f64/eps1.2", |o| go::<f64>(o, 1.2));
    r.inst("f64/eps0.3(mostly noise)", |o| go::<f64>(o, 0.3));
    r.inst("f32/eps1.2", |o| go::<f32>(o, 1.2));
    r.inst("f64/duplicate_points(distances exactly 0)", |o| {
        let x: Array2<f64> = ndarray::array![[1.0, 1.0], [1.0, 1.0], [1.0, 1.0], [4.0, 4.0], [4.0, 4.0], [9.0, 9.0]];
        let res = Optics::params::<f64>(2).tolerance(0.5).transform(x.view()).expect("valid");
        let obs = |a: &OpticsAnalysis<f64>| analysis_obs(a);
        round_trip(o, &Spec::full(&obs), &res);
    });
    r.inst("f64/empty", |o| {
        let x: Array2<f64> = Array2::zeros((0, 2));
        let res = Optics::params::<f64>(3).tolerance(1.0).transform(x.view()).expect("valid");
        let obs = |a: &OpticsAnalysis<f64>| analysis_obs(a);
        round_trip(o, &Spec::full(&obs).trivial(), &res);
    });
}

type OpP<F, D> = OpticsParams<F, D, CommonNearestNeighbour>;
type OpV<F, D> = OpticsValidParams<F, D, CommonNearestNeighbour>;

fn optics_valid_obs<F: Float, D: Distance<F> + std::fmt::Debug>(v: &OpV<F, D>, x: &Array2<F>) -> Ob {
    let mut ob = Ob::new();
    ob.f1("tolerance", v.tolerance()).u1("minimum_points", v.minimum_points()).st("dist_fn", format!("{:?}", v.dist_fn())).st("nn_algo", format!("{:?}", v.nn_algo()));
    ob.sub("transform", analysis_obs(&v.transform(x.view())));
    ob.done()
}

fn optics_points<F: Float, D: Distance<F> + Clone>(d: D) -> Vec<(&'static str, OpP<F, D>)> {
    vec![
        ("default(min_points=2)", Optics::params_with(2, d.clone(), CommonNearestNeighbour::KdTree)),
        ("nondefault1", Optics::params_with(4, d.clone(), CommonNearestNeighbour::BallTree).tolerance(F::cast(1.5))),
        ("nondefault2", Optics::params_with(3, d.clone(), CommonNearestNeighbour::LinearSearch).tolerance(F::cast(0.1 + 0.2))),
        ("huge_min_points_tiny_tolerance", Optics::params_with(usize::MAX, d.clone(), CommonNearestNeighbour::LinearSearch).tolerance(F::min_positive_value())),
        ("min_points2_huge_tolerance", Optics::params_with(2, d.clone(), CommonNearestNeighbour::BallTree).tolerance(F::cast(1e30))),
        ("invalid_min_points", Optics::params_with(1, d.clone(), CommonNearestNeighbour::KdTree)),
        ("invalid_tolerance", Optics::params_with(3, d, CommonNearestNeighbour::KdTree).tolerance(F::cast(0.0))),
    ]
}

fn optics_params(r: &mut Runner) {
    fn go<F: SF, D: Distance<F> + Serialize + DeserializeOwned + PartialEq + std::fmt::Debug + 'static>(o: &mut Out, p: OpP<F, D>) {
        let (x, _) = blobs::<F>(40, 2, 3, 19);
        let obs = |p: &OpP<F, D>| {
            let mut ob = Ob::new();
            match p.check_ref() {
                Ok(v) => ob.st("check_verdict", "ok").sub("checked", optics_valid_obs(v, &x)),
                Err(e) => ob.st("check_verdict", format!("err: {}", e)),
            };
            match p.transform(x.view()) {
                Ok(a) => ob.sub("transform", analysis_obs(&a)),
                Err(e) => ob.st("transform.error", e.to_string()),
            };
            ob.done()
        };
        round_trip(o, &Spec::full(&obs), &p);
    }
    for (name, p) in optics_points::<f64, _>(L2Dist) {
        r.inst(&format!("f64/L2/{}", name), |o| go(o, p));
    }
    for (name, p) in optics_points::<f64, _>(LpDist(1.0f64 + 0.1 + 0.2)).into_iter().take(2) {
        r.inst(&format!("f64/Lp(1.3)/{}", name), |o| go(o, p));
    }
    for (name, p) in optics_points::<f32, _>(LpDist(1.5f32)) {
        r.inst(&format!("f32/Lp(1.5)/{}", name), |o| go(o, p));
    }
}

fn optics_valid_params(r: &mut Runner) {
    fn go<F: SF, D: Distance<F> + Serialize + DeserializeOwned + PartialEq + std::fmt::Debug + 'static>(o: &mut Out, p: OpP<F, D>) {
        let (x, _) = blobs::<F>(40, 2, 3, 19);
        let v = o.need("check", p.check());
        let obs = |v: &OpV<F, D>| optics_valid_obs(v, &x);
        round_trip(o, &Spec::full(&obs), &v);
    }
    for (name, p) in optics_points::<f64, _>(LpDist(2.0f64 + 0.1 + 0.2)).into_iter().filter(|(n, _)| !n.starts_with("invalid")) {
        r.inst(&format!("f64/Lp(2.5)/{}", name), |o| go(o, p));
    }
    for (name, p) in optics_points::<f32, _>(L2Dist).into_iter().filter(|(n, _)| !n.starts_with("invalid")) {
        r.inst(&format!("f32/L2/{}", name), |o| go(o, p));
    }
}

// ---------------------------------------------------------------------------------------------
// naive Bayes
// ---------------------------------------------------------------------------------------------
fn label_bits<L: std::fmt::Debug>(ob: &mut Ob, name: &str, a: &Array1<L>) {
    ob.st(name, a.iter().map(|l| format!("{:?}", l)).collect::<Vec<_>>().join(","));
}

fn gnb_model(r: &mut Runner) {
    use linfa_bayes::GaussianNb;
    fn go<F: SF, L: linfa::Label + Ord + Default + std::fmt::Debug + Serialize + DeserializeOwned>(o: &mut Out, lab: fn(usize) -> L, var_smoothing: f64) {
        let (x, y) = blobs::<F>(90, 3, 3, 39);
        let ds = Dataset::new(x.clone(), y.mapv(lab));
        let m: GaussianNb<F, L> = o.need("gnb fit", GaussianNb::params().var_smoothing(F::cast(var_smoothing)).fit(&ds));
        let (x2, y2) = blobs::<F>(30, 3, 3, 40);
        let ds2 = Dataset::new(x2, y2.mapv(lab));
        // symmetric tie queries + pool
        let q = pool::<F>(3, Some(&x));
        let vp = GaussianNb::<F, L>::params().var_smoothing(F::cast(var_smoothing)).check().unwrap();
        let obs = |m: &GaussianNb<F, L>| {
            let mut ob = Ob::new();
            label_bits(&mut ob, "predict", &m.predict(&q));
            // the learned state has no accessor: continue the incremental fit from it and predict again
            let cont = vp.fit_with(Some(m.clone()), &ds2).expect("fit_with").expect("model");
            label_bits(&mut ob, "predict.after_fit_with", &cont.predict(&q));
            ob.bools("continued_models_equal_self", [cont == cont.clone()]);
            ob.done()
        };
        let advance = |m: &GaussianNb<F, L>| vp.fit_with(Some(m.clone()), &ds2).expect("fit_with").expect("model");
        round_trip(o, &Spec::full(&obs).with_maps().mutating(&advance), &m);
    }
    r.inst("f64/usize_labels", |o| go::<f64, usize>(o, |c| c, 1e-9));
    r.inst("f64/string_labels", |o| go::<f64, String>(o, |c| ["cat", "dog", "ant"][c].to_string(), 1e-9));
    r.inst("f32/usize_labels", |o| go::<f32, usize>(o, |c| c * 10, 1e-3));
    r.inst("f64/bool_labels", |o| go::<f64, bool>(o, |c| c == 1, 1e-9));
}

fn gnb_params(r: &mut Runner) {
    use linfa_bayes::{GaussianNb, GaussianNbValidParams};
    fn go<F: SF>(o: &mut Out, vs: Option<f64>) {
        let (x, y) = blobs::<F>(60, 2, 3, 41);
        let ds = Dataset::new(x.clone(), y);
        let q = pool::<F>(2, Some(&x));
        let mut p = GaussianNb::<F, usize>::params();
        if let Some(v) = vs {
            p = p.var_smoothing(F::cast(v));
        }
        let v = o.need("check", p.check());
        let obs = |v: &GaussianNbValidParams<F, usize>| {
            let mut ob = Ob::new();
            ob.f1("var_smoothing", v.var_smoothing());
            let m = v.fit(&ds).expect("gnb refit");
            label_bits(&mut ob, "refit.predict", &m.predict(&q));
            ob.st("refit.debug_sorted", {
                let s = format!("{:#?}", m);
                let mut l: Vec<&str> = s.lines().collect();
                l.sort();
                l.join("|")
            });
            ob.done()
        };
        round_trip(o, &Spec::full(&obs), &v);
    }
    r.inst("f64/default", |o| go::<f64>(o, None));
    r.inst("f64/var_smoothing=0.5", |o| go::<f64>(o, Some(0.5)));
    r.inst("f64/var_smoothing=0", |o| go::<f64>(o, Some(0.0)));
    r.inst("f64/var_smoothing=1e300", |o| go::<f64>(o, Some(1e300)));
    r.inst("f64/var_smoothing=0.1+0.2", |o| go::<f64>(o, Some(0.1 + 0.2)));
    r.inst("f32/default", |o| go::<f32>(o, None));
    r.inst("f32/var_smoothing=10", |o| go::<f32>(o, Some(10.0)));
}

fn mnb_model(r: &mut Runner) {
    use linfa_bayes::MultinomialNb;
    fn go<F: SF, L: linfa::Label + Ord + Default + std::fmt::Debug + Serialize + DeserializeOwned>(o: &mut Out, lab: fn(usize) -> L, alpha: f64) {
        let (x, y) = counts::<F>(60, 4, 3, 43);
        let ds = Dataset::new(x.clone(), y.mapv(lab));
        let m: MultinomialNb<F, L> = o.need("mnb fit", MultinomialNb::params().alpha(F::cast(alpha)).fit(&ds));
        let (x2, y2) = counts::<F>(30, 4, 3, 44);
        let ds2 = Dataset::new(x2, y2.mapv(lab));
        let q = pool_nonneg::<F>(4, Some(&x));
        let vp = MultinomialNb::<F, L>::params().alpha(F::cast(alpha)).check().unwrap();
        let obs = |m: &MultinomialNb<F, L>| {
            let mut ob = Ob::new();
            label_bits(&mut ob, "predict", &m.predict(&q));
            let cont = vp.fit_with(Some(m.clone()), &ds2).expect("fit_with").expect("model");
            label_bits(&mut ob, "predict.after_fit_with", &cont.predict(&q));
            ob.done()
        };
        let advance = |m: &MultinomialNb<F, L>| vp.fit_with(Some(m.clone()), &ds2).expect("fit_with").expect("model");
        round_trip(o, &Spec::full(&obs).with_maps().mutating(&advance), &m);
    }
    r.inst("f64/usize_labels", |o| go::<f64, usize>(o, |c| c, 1.0));
    r.inst("f64/string_labels", |o| go::<f64, String>(o, |c| ["spam", "ham", "eggs"][c].to_string(), 0.5));
    r.inst("f32/usize_labels", |o| go::<f32, usize>(o, |c| c + 7, 1.0));
}

fn mnb_params(r: &mut Runner) {
    use linfa_bayes::{MultinomialNb, MultinomialNbValidParams};
    fn go<F: SF>(o: &mut Out, alpha: Option<f64>) {
        let (x, y) = counts::<F>(60, 3, 3, 45);
        let ds = Dataset::new(x.clone(), y);
        let q = pool_nonneg::<F>(3, Some(&x));
        let mut p = MultinomialNb::<F, usize>::params();
        if let Some(v) = alpha {
            p = p.alpha(F::cast(v));
        }
        let v = o.need("check", p.check());
        let obs = |v: &MultinomialNbValidParams<F, usize>| {
            let mut ob = Ob::new();
            ob.f1("alpha", v.alpha());
            let m = v.fit(&ds).expect("mnb refit");
            label_bits(&mut ob, "refit.predict", &m.predict(&q));
            ob.st("refit.debug_sorted", {
                let s = format!("{:#?}", m);
                let mut l: Vec<&str> = s.lines().collect();
                l.sort();
                l.join("|")
            });
            ob.done()
        };
        round_trip(o, &Spec::full(&obs), &v);
    }
    r.inst("f64/default", |o| go::<f64>(o, None));
    r.inst("f64/alpha=0.25", |o| go::<f64>(o, Some(0.25)));
    r.inst("f64/alpha=0", |o| go::<f64>(o, Some(0.0)));
    r.inst("f64/alpha=1e300", |o| go::<f64>(o, Some(1e300)));
    r.inst("f64/alpha=0.1+0.2", |o| go::<f64>(o, Some(0.1 + 0.2)));
    r.inst("f32/default", |o| go::<f32>(o, None));
    r.inst("f32/alpha=3", |o| go::<f32>(o, Some(3.0)));
}
