//! Registry part 1: linfa core error types, nearest-neighbour selectors and metrics, kernels.

use crate::data::*;
use crate::engine::*;
use linfa::traits::Transformer;
use linfa::Float;
use linfa_nn::distance::{Distance, L1Dist, L2Dist, LInfDist, LpDist};
use linfa_nn::{BallTree, CommonNearestNeighbour, KdTree, LinearSearch, NearestNeighbour};
use ndarray::Array2;

pub fn entries() -> Vec<Entry> {
    vec![
        Entry { id: "linfa.Error", sites: &[("src/error.rs", "Error")], run: linfa_error },
        Entry { id: "linfa.PlattError", sites: &[("src/composing/platt_scaling.rs", "PlattError")], run: platt_error },
        Entry { id: "nn.L1Dist", sites: &[("algorithms/linfa-nn/src/distance.rs", "L1Dist")], run: |r| unit_metric(r, L1Dist) },
        Entry { id: "nn.L2Dist", sites: &[("algorithms/linfa-nn/src/distance.rs", "L2Dist")], run: |r| unit_metric(r, L2Dist) },
        Entry { id: "nn.LInfDist", sites: &[("algorithms/linfa-nn/src/distance.rs", "LInfDist")], run: |r| unit_metric(r, LInfDist) },
        Entry { id: "nn.LpDist", sites: &[("algorithms/linfa-nn/src/distance.rs", "LpDist")], run: lp_metric },
        Entry { id: "nn.LinearSearch", sites: &[("algorithms/linfa-nn/src/linear.rs", "LinearSearch")], run: |r| nn_selector(r, &[("unit", LinearSearch)]) },
        Entry { id: "nn.KdTree", sites: &[("algorithms/linfa-nn/src/kdtree.rs", "KdTree")], run: |r| nn_selector(r, &[("unit", KdTree)]) },
        Entry { id: "nn.BallTree", sites: &[("algorithms/linfa-nn/src/balltree.rs", "BallTree")], run: |r| nn_selector(r, &[("unit", BallTree)]) },
        Entry {
            id: "nn.CommonNearestNeighbour",
            sites: &[("algorithms/linfa-nn/src/lib.rs", "CommonNearestNeighbour")],
            run: |r| nn_selector(r, &[("LinearSearch", CommonNearestNeighbour::LinearSearch), ("KdTree", CommonNearestNeighbour::KdTree), ("BallTree", CommonNearestNeighbour::BallTree)]),
        },
        Entry { id: "kernel.KernelMethod", sites: &[("algorithms/linfa-kernel/src/lib.rs", "KernelMethod")], run: kernel_method },
        Entry { id: "kernel.Kernel", sites: &[("algorithms/linfa-kernel/src/lib.rs", "KernelBase")], run: kernel_matrix },
    ]
}

// ---------------------------------------------------------------------------------------------
// error values
// ---------------------------------------------------------------------------------------------
pub fn linfa_errors() -> Vec<(&'static str, linfa::Error, bool)> {
    use linfa::Error as E;
    vec![
        ("Parameters", E::Parameters("alpha must be > 0 (\"quoted\", unicode \u{3b1})".into()), false),
        ("Priors", E::Priors("priors must sum to 1".into()), false),
        ("Parameters(empty string)", E::Parameters(String::new()), false),
        ("NotConverged", E::NotConverged("after 100 iterations".into()), false),
        // documented: `ShapeError` has no serde impl, the variant is `serde(skip)` => serialising refuses
        ("NdShape", E::NdShape(ndarray::ShapeError::from_kind(ndarray::ErrorKind::IncompatibleShape)), true),
        // the two variants AFTER the skipped one: their variant index must survive positional formats
        ("NotEnoughSamples", E::NotEnoughSamples, false),
        ("MismatchedShapes", E::MismatchedShapes(7, usize::MAX), false),
    ]
}

/// Narrow signature for the one characterised failure shape of error values: `linfa::Error` marks
/// its 4th variant `NdShape` as `serde(skip)`; serde_derive then numbers the variants differently
/// when writing (declaration index) and when reading (index among the non-skipped variants), so
/// in formats that encode the variant by index (bincode) the variants declared AFTER `NdShape`
/// do not come back. The narrow signature is assigned only when all of this holds: positional
/// format, a variant declared after the skipped one, a deserialisation error.
pub fn narrow_skipped_variant_sig(o: &mut Out, instance: &str) {
    let variant = instance.rsplit('/').next().unwrap_or("");
    let wrapped = instance.contains('/');
    let is_linfa_error_value = wrapped || o.entry == "linfa.Error";
    if !is_linfa_error_value || !(variant == "NotEnoughSamples" || variant == "MismatchedShapes") {
        return;
    }
    let entry = o.entry.clone();
    for v in o.viols.iter_mut() {
        let positional = v.case.get("format").and_then(|f| f.as_str()) == Some("bincode");
        if positional && v.sig == format!("{}.deserialize.error", entry) && (v.what.contains("unexpected end of file") || v.what.contains("expected variant index")) {
            v.sig = format!("{}.deserialize.variant_index_shifted_after_skipped_ndshape", entry);
        }
    }
}

fn error_obs<E: std::error::Error>(e: &E) -> Ob {
    let mut o = Ob::new();
    o.st("display", e.to_string());
    o.st("debug", format!("{:?}", e));
    o.st("source", format!("{:?}", e.source().map(|s| s.to_string())));
    o.done()
}

fn linfa_error(r: &mut Runner) {
    for (name, e, refuses) in linfa_errors() {
        r.inst(name, |o| {
            let obs = |e: &linfa::Error| error_obs(e);
            let mut spec = Spec::plain(&obs).json();
            spec.expect_ser_refusal = refuses;
            spec.nontrivial = !matches!(e, linfa::Error::NotEnoughSamples);
            round_trip(o, &spec, &e);
            narrow_skipped_variant_sig(o, name);
        });
    }
}

fn platt_error(r: &mut Runner) {
    use linfa::composing::platt_scaling::PlattError as P;
    let mut all: Vec<(String, P, bool, bool)> = vec![
        ("LineSearchNotConverged".into(), P::LineSearchNotConverged, false, false),
        ("MaxIterReached".into(), P::MaxIterReached, false, false),
        ("MaxIterZero".into(), P::MaxIterZero, false, false),
        ("MinStepNegative".into(), P::MinStepNegative(-1e-10), false, true),
        ("SigmaNegative".into(), P::SigmaNegative(-0.1), false, true),
    ];
    for (n, e, refuses) in linfa_errors() {
        all.push((format!("LinfaError/{}", n), P::LinfaError(e), refuses, false));
    }
    for (name, e, refuses, has_float) in all {
        r.inst(&name, |o| {
            let obs = |e: &P| error_obs(e);
            let mut spec = Spec::plain(&obs);
            spec.json = !has_float;
            spec.expect_ser_refusal = refuses;
            spec.nontrivial = has_float || name.starts_with("LinfaError");
            round_trip(o, &spec, &e);
            narrow_skipped_variant_sig(o, &name);
        });
    }
}

// ---------------------------------------------------------------------------------------------
// metrics and selectors
// ---------------------------------------------------------------------------------------------
fn metric_obs<F: Float, D: Distance<F>>(d: &D, pts: &Array2<F>) -> Ob {
    let mut dist = Vec::new();
    let mut rdist = Vec::new();
    let mut conv = Vec::new();
    for i in 0..pts.nrows() {
        for j in 0..pts.nrows() {
            let x = d.distance(pts.row(i), pts.row(j));
            dist.push(x);
            rdist.push(d.rdistance(pts.row(i), pts.row(j)));
            conv.push(d.rdist_to_dist(d.dist_to_rdist(x)));
        }
    }
    let mut o = Ob::new();
    o.fl("predict.distance", dist).fl("predict.rdistance", rdist).fl("predict.rdist_roundtrip", conv);
    o.done()
}

fn unit_metric<D>(r: &mut Runner, d: D)
where
    D: Distance<f64> + Distance<f32> + serde::Serialize + serde::de::DeserializeOwned + PartialEq + std::fmt::Debug,
{
    r.inst("unit", |o| {
        let p64 = pool::<f64>(3, None);
        let p32 = pool::<f32>(3, None);
        let obs = |d: &D| {
            let mut ob = Ob::new();
            ob.sub("f64", metric_obs::<f64, D>(d, &p64)).sub("f32", metric_obs::<f32, D>(d, &p32));
            ob.done()
        };
        round_trip(o, &Spec::full(&obs).json().trivial(), &d);
    });
}

fn lp_metric(r: &mut Runner) {
    fn go<F: Float + serde::Serialize + serde::de::DeserializeOwned>(o: &mut Out, p: f64) {
        let pts = pool::<F>(3, None);
        let obs = |d: &LpDist<F>| {
            let mut ob = metric_obs::<F, _>(d, &pts);
            ob.f1("p", d.0);
            ob.done()
        };
        round_trip(o, &Spec::full(&obs), &LpDist(F::cast(p)));
    }
    for p in [1.0, 1.5, 3.0, 0.1 + 0.2] {
        r.inst(&format!("f64/p={}", p), |o| go::<f64>(o, p));
        r.inst(&format!("f32/p={}", p), |o| go::<f32>(o, p));
    }
}

fn nn_obs<N: NearestNeighbour>(n: &N) -> Ob {
    let (pts, _) = blobs::<f64>(40, 2, 3, 5);
    let q = pool::<f64>(2, None);
    let mut ob = Ob::new();
    ob.st("debug", format!("{:?}", n));
    let idx = n.from_batch_with_leaf_size(&pts, 3, L2Dist).expect("index builds");
    let mut knn = Vec::new();
    let mut rng_ = Vec::new();
    for row in q.rows() {
        knn.extend(idx.k_nearest(row, 4).expect("k_nearest").into_iter().map(|(_, i)| i));
        let mut w: Vec<usize> = idx.within_range(row, 2.5).expect("within_range").into_iter().map(|(_, i)| i).collect();
        w.sort();
        rng_.push(w.len());
        rng_.extend(w);
    }
    ob.us("predict.k_nearest", knn).us("predict.within_range", rng_);
    ob.done()
}

fn nn_selector<N>(r: &mut Runner, variants: &[(&str, N)])
where
    N: NearestNeighbour + Clone + serde::Serialize + serde::de::DeserializeOwned + PartialEq + std::fmt::Debug,
{
    for (name, n) in variants {
        r.inst(name, |o| {
            let obs = |n: &N| nn_obs(n);
            round_trip(o, &Spec::full(&obs).json().trivial(), n);
        });
    }
}

// ---------------------------------------------------------------------------------------------
// kernels
// ---------------------------------------------------------------------------------------------
fn kernel_method(r: &mut Runner) {
    use linfa_kernel::KernelMethod as K;
    fn go<F: Float + serde::Serialize + serde::de::DeserializeOwned>(o: &mut Out, k: K<F>) {
        let pts = pool::<F>(3, None);
        let obs = |k: &K<F>| {
            let mut d = Vec::new();
            for i in 0..pts.nrows() {
                for j in 0..pts.nrows() {
                    d.push(k.distance(pts.row(i), pts.row(j)));
                }
            }
            let mut ob = Ob::new();
            ob.fl("predict.distance", d).bools("is_linear", [k.is_linear()]);
            ob.done()
        };
        let mut spec = Spec::full(&obs);
        spec.nontrivial = !k.is_linear();
        round_trip(o, &spec, &k);
    }
    r.inst("f64/Gaussian(0.5)", |o| go(o, K::Gaussian(0.5f64)));
    r.inst("f64/Gaussian(0.1+0.2)", |o| go(o, K::Gaussian(0.1f64 + 0.2)));
    r.inst("f64/Linear", |o| go(o, K::<f64>::Linear));
    r.inst("f64/Polynomial(1,3)", |o| go(o, K::Polynomial(1.0f64, 3.0)));
    r.inst("f64/Polynomial(0.3,2.5)", |o| go(o, K::Polynomial(0.3f64, 2.5)));
    r.inst("f32/Gaussian(0.7)", |o| go(o, K::Gaussian(0.7f32)));
    r.inst("f32/Linear", |o| go(o, K::<f32>::Linear));
    r.inst("f32/Polynomial(0.1,2)", |o| go(o, K::Polynomial(0.1f32, 2.0)));
}

/// Compile-time probe (autoref specialisation): is `T: Serialize + DeserializeOwned`? When it is,
/// the value goes through the full round-trip oracle; when it is not, `try_round_trip` says so.
#[allow(dead_code)]
pub struct Probe<'a, T>(pub &'a T);
#[allow(dead_code)]
pub trait ViaSerde<T> {
    fn try_round_trip(&self, o: &mut Out, spec: &Spec<T>) -> bool;
}
impl<'a, T: serde::Serialize + serde::de::DeserializeOwned> ViaSerde<T> for Probe<'a, T> {
    fn try_round_trip(&self, o: &mut Out, spec: &Spec<T>) -> bool {
        round_trip(o, spec, self.0);
        true
    }
}
pub trait NotSerde<T> {
    fn try_round_trip(&self, _o: &mut Out, _spec: &Spec<T>) -> bool {
        false
    }
}
impl<'a, 'b, T> NotSerde<T> for &'b Probe<'a, T> {}

fn kernel_matrix(r: &mut Runner) {
    use linfa_kernel::{Kernel, KernelMethod, KernelType};
    fn go<F: Float>(o: &mut Out, kind: KernelType, method: KernelMethod<F>) -> Kernel<F> {
        let (x, _) = blobs::<F>(12, 2, 3, 61);
        let _ = o;
        Kernel::params().kind(kind).method(method).transform(x.view())
    }
    fn kobs<F: Float>(k: &Kernel<F>) -> Ob {
        let rhs = pool::<F>(2, None).slice(ndarray::s![0..12, ..]).to_owned();
        let mut ob = Ob::new();
        ob.u1("size", k.size()).bools("is_linear", [k.is_linear()]).bools("is_dense", [matches!(k.inner, linfa_kernel::KernelInner::Dense(_))]);
        ob.a2("predict.dot", &k.dot(&rhs.view())).a1("sum", &k.sum()).a1("diagonal", &k.diagonal()).fl("upper_triangle", k.to_upper_triangle());
        for i in 0..k.size() {
            ob.fl(&format!("column{}", i), k.column(i));
        }
        // the kernel function itself (field `method`) is not used by dot / column: evaluate it
        let mut d = Vec::new();
        for i in 0..rhs.nrows() {
            for j in 0..rhs.nrows() {
                d.push(k.method.distance(rhs.row(i), rhs.row(j)));
            }
        }
        ob.fl("predict.method.distance", d);
        ob.done()
    }
    macro_rules! kinst {
        ($label:expr, $f:ty, $kind:expr, $method:expr) => {
            r.inst($label, |o| {
                let k: Kernel<$f> = go::<$f>(o, $kind, $method);
                let obs = |k: &Kernel<$f>| kobs(k);
                let spec = Spec::full(&obs);
                // the method call below resolves to the real round trip iff Kernel<F>: Serialize + Deserialize
                let serialisable = (&Probe(&k)).try_round_trip(o, &spec);
                if !serialisable {
                    o.cnt.evals += 1;
                    o.cnt.nontrivial += 1;
                    o.viol(
                        "not_serialisable.kernel_inner_lacks_derive",
                        "compile_time_probe",
                        format!(
                            "`{}` does not implement Serialize/Deserialize although `KernelBase` carries `derive(Serialize, Deserialize)` under the serde feature: the derive is bounded by `KernelInner<K1, K2>: Serialize`, and `KernelInner` (linfa-kernel/src/inner.rs) has no serde impl, so no kernel (dense or sparse) can be serialised",
                            std::any::type_name::<Kernel<$f>>()
                        ),
                    );
                }
            });
        };
    }
    kinst!("f64/dense/gaussian", f64, KernelType::Dense, KernelMethod::Gaussian(2.0 + 0.1));
    kinst!("f64/sparse3/gaussian", f64, KernelType::Sparse(3), KernelMethod::Gaussian(2.0));
    kinst!("f64/dense/polynomial", f64, KernelType::Dense, KernelMethod::Polynomial(1.0, 2.0));
    kinst!("f32/dense/linear", f32, KernelType::Dense, KernelMethod::Linear);
    kinst!("f32/sparse2/gaussian", f32, KernelType::Sparse(2), KernelMethod::Gaussian(1.5));
}
