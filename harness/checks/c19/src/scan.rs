//! Source scanner: lists every site in the linfa tree where `Serialize` / `Deserialize` is derived
//! (or implemented by hand), so that the registry can be checked for completeness at run time.

use std::path::{Path, PathBuf};

#[derive(Clone, Debug, PartialEq, Eq, PartialOrd, Ord)]
pub struct Site {
    /// path relative to the repo root
    pub file: String,
    pub line: usize,
    /// `struct` / `enum` name following the derive (`[<Pls $name>]` for the macro site), or
    /// `impl Serialize for X` for a hand-written impl
    pub ty: String,
}

pub fn repo_root() -> PathBuf {
    PathBuf::from(std::env::var("VERIF_REPO_ROOT").unwrap_or_else(|_| env!("C19_REPO_ROOT").to_string()))
}

fn rs_files(dir: &Path, out: &mut Vec<PathBuf>) {
    let Ok(rd) = std::fs::read_dir(dir) else { return };
    let mut ents: Vec<PathBuf> = rd.flatten().map(|e| e.path()).collect();
    ents.sort();
    for p in ents {
        if p.is_dir() {
            rs_files(&p, out);
        } else if p.extension().map_or(false, |e| e == "rs") {
            out.push(p);
        }
    }
}

/// removes `//` comments (incl. doc comments, whose examples may contain derives) keeping line count
fn strip_comments(src: &str) -> String {
    let mut out = String::with_capacity(src.len());
    for line in src.lines() {
        let mut in_str = false;
        let mut prev = '\0';
        let mut cut = line.len();
        let b: Vec<char> = line.chars().collect();
        let mut i = 0;
        let mut byte = 0;
        while i < b.len() {
            let c = b[i];
            if c == '"' && prev != '\\' {
                in_str = !in_str;
            }
            if !in_str && c == '/' && i + 1 < b.len() && b[i + 1] == '/' {
                cut = byte;
                break;
            }
            prev = c;
            byte += c.len_utf8();
            i += 1;
        }
        out.push_str(&line[..cut]);
        out.push('\n');
    }
    out
}

pub fn scan(root: &Path) -> Result<Vec<Site>, String> {
    let mut files = Vec::new();
    rs_files(&root.join("src"), &mut files);
    let algos = root.join("algorithms");
    let Ok(rd) = std::fs::read_dir(&algos) else {
        return Err(format!("cannot list {}", algos.display()));
    };
    let mut crates: Vec<PathBuf> = rd.flatten().map(|e| e.path()).filter(|p| p.is_dir()).collect();
    crates.sort();
    for c in &crates {
        rs_files(&c.join("src"), &mut files);
    }
    if files.len() < 50 {
        return Err(format!("only {} source files found under {} — wrong repo root?", files.len(), root.display()));
    }
    let mut sites = Vec::new();
    for f in &files {
        let raw = std::fs::read_to_string(f).map_err(|e| format!("{}: {}", f.display(), e))?;
        let rel = f.strip_prefix(root).unwrap().to_string_lossy().to_string();
        scan_source(&rel, &raw, &mut sites)?;
    }
    sites.sort();
    Ok(sites)
}

/// scans one source text
pub fn scan_source(rel: &str, raw: &str, sites: &mut Vec<Site>) -> Result<(), String> {
    let derive_re = regex::Regex::new(r"(?s)derive\s*\(([^)]*)\)").unwrap();
    let decl_re = regex::Regex::new(r"(?m)^\s*(?:pub(?:\([a-z:]+\))?\s+)?(?:struct|enum|union)\s+(\[<[^>]*>\]|[A-Za-z_][A-Za-z0-9_]*)").unwrap();
    let impl_re = regex::Regex::new(r"(?m)^\s*(?:unsafe\s+)?impl\s*(?:<[^{]*?>)?\s*(?:[A-Za-z_:]+::)?((?:Serialize|Deserialize)(?:<[^>]*>)?)\s+for\s+([A-Za-z_][A-Za-z0-9_]*)").unwrap();
    let src = strip_comments(raw);
    for m in derive_re.captures_iter(&src) {
        let list = m.get(1).unwrap().as_str();
        let has = list.split(|c: char| !(c.is_alphanumeric() || c == '_')).any(|t| t == "Serialize" || t == "Deserialize");
        if !has {
            continue;
        }
        let end = m.get(0).unwrap().end();
        let line = src[..m.get(0).unwrap().start()].matches('\n').count() + 1;
        let ty = match decl_re.captures(&src[end..]) {
            Some(c) => c.get(1).unwrap().as_str().to_string(),
            None => return Err(format!("{}:{}: derive(Serialize..) without a following type declaration", rel, line)),
        };
        sites.push(Site { file: rel.to_string(), line, ty });
    }
    for m in impl_re.captures_iter(&src) {
        let line = src[..m.get(0).unwrap().start()].matches('\n').count() + 1;
        sites.push(Site { file: rel.to_string(), line, ty: format!("impl {} for {}", m.get(1).unwrap().as_str(), m.get(2).unwrap().as_str()) });
    }
    Ok(())
}

/// the scanner run on a synthetic source with every form a serde site can take
pub fn selftest() -> Result<(), String> {
    let src = r#"
/// doc example, must be ignored:
/// #[derive(Serialize, Deserialize)]
/// struct InDocComment;
#[cfg_attr(
    feature = "serde",
    derive(Serialize, Deserialize),
    serde(crate = "serde_crate")
)]
#[derive(Debug, Clone)]
/// docs between attribute and item
pub struct MultiLine<F: Float> { a: F }
#[cfg_attr(feature = "serde", derive(Serialize, Deserialize))]
pub(crate) enum OneLine { A, B }
#[derive(Clone, Debug, Serialize, Deserialize)]
#[cfg(feature = "serde")]
struct Plain(u8);
#[cfg_attr(feature = "serde", derive(
    Serialize,
    Deserialize
))]
pub struct SplitDerive;
#[derive(Debug, Clone, PartialEq)] // derive(Serialize) in a trailing comment
pub struct NotSerde;
#[cfg_attr(feature = "serde", derive(Deserialize))]
pub struct OnlyDe { x: u8 }
macro_rules! m { ($name:ident) => { paste::item! {
    #[cfg_attr(feature = "serde", derive(Serialize, Deserialize))]
    pub struct [<Pls $name>]<F>(F);
} } }
impl<F: Float> Serialize for ByHand<F> { }
impl<'de> serde::Deserialize<'de> for ByHand2 { }
"#;
    let mut sites = Vec::new();
    scan_source("selftest.rs", src, &mut sites)?;
    let got: Vec<String> = sites.iter().map(|s| s.ty.clone()).collect();
    let want = ["MultiLine", "OneLine", "Plain", "SplitDerive", "OnlyDe", "[<Pls $name>]", "impl Serialize for ByHand", "impl Deserialize<'de> for ByHand2"];
    if got != want {
        return Err(format!("scanner self-test: expected {:?}, got {:?}", want, got));
    }
    Ok(())
}

/// true when `file` (relative) contains the pattern after comment stripping
pub fn file_contains(root: &Path, file: &str, pat: &str) -> bool {
    std::fs::read_to_string(root.join(file)).map(|s| strip_comments(&s).contains(pat)).unwrap_or(false)
}
