//! Registry part 4: linfa-preprocessing (scalers, whiteners, vectorisers), linfa-svm, linfa-trees.

use crate::data::*;
use crate::engine::*;
use crate::reg_cluster::SF;
use linfa::prelude::*;
use linfa::Float;
use ndarray::{Array1, Array2};

pub fn entries() -> Vec<Entry> {
    vec![
        Entry { id: "preprocessing.ScalingMethod", sites: &[("algorithms/linfa-preprocessing/src/linear_scaling.rs", "ScalingMethod")], run: scaling_method },
        Entry { id: "preprocessing.LinearScalerParams", sites: &[("algorithms/linfa-preprocessing/src/linear_scaling.rs", "LinearScalerParams")], run: scaler_params },
        Entry { id: "preprocessing.LinearScaler", sites: &[("algorithms/linfa-preprocessing/src/linear_scaling.rs", "LinearScaler")], run: scaler_model },
        Entry { id: "preprocessing.NormScaler", sites: &[("algorithms/linfa-preprocessing/src/norm_scaling.rs", "NormScaler")], run: norm_scaler },
        Entry { id: "preprocessing.WhiteningMethod", sites: &[("algorithms/linfa-preprocessing/src/whitening.rs", "WhiteningMethod")], run: whitening_method },
        Entry { id: "preprocessing.Whitener", sites: &[("algorithms/linfa-preprocessing/src/whitening.rs", "Whitener")], run: whitener_params },
        Entry { id: "preprocessing.FittedWhitener", sites: &[("algorithms/linfa-preprocessing/src/whitening.rs", "FittedWhitener")], run: whitener_model },
        Entry { id: "preprocessing.CountVectorizerParams", sites: &[("algorithms/linfa-preprocessing/src/countgrams/hyperparams.rs", "CountVectorizerParams")], run: cv_params },
        Entry { id: "preprocessing.CountVectorizerValidParams", sites: &[("algorithms/linfa-preprocessing/src/countgrams/hyperparams.rs", "CountVectorizerValidParams")], run: cv_valid_params },
        Entry { id: "preprocessing.CountVectorizer", sites: &[("algorithms/linfa-preprocessing/src/countgrams/mod.rs", "CountVectorizer")], run: cv_model },
        Entry { id: "preprocessing.TfIdfMethod", sites: &[("algorithms/linfa-preprocessing/src/tf_idf_vectorization.rs", "TfIdfMethod")], run: tfidf_method },
        Entry { id: "preprocessing.TfIdfVectorizer", sites: &[("algorithms/linfa-preprocessing/src/tf_idf_vectorization.rs", "TfIdfVectorizer")], run: tfidf_params },
        Entry { id: "preprocessing.FittedTfIdfVectorizer", sites: &[("algorithms/linfa-preprocessing/src/tf_idf_vectorization.rs", "FittedTfIdfVectorizer")], run: tfidf_model },
        Entry { id: "svm.ExitReason", sites: &[("algorithms/linfa-svm/src/lib.rs", "ExitReason")], run: svm_exit_reason },
        Entry { id: "svm.SeparatingHyperplane", sites: &[("algorithms/linfa-svm/src/solver_smo.rs", "SeparatingHyperplane")], run: svm_hyperplane },
        Entry { id: "svm.Svm", sites: &[("algorithms/linfa-svm/src/lib.rs", "Svm")], run: svm_model },
        Entry { id: "trees.SplitQuality", sites: &[("algorithms/linfa-trees/src/decision_trees/hyperparams.rs", "SplitQuality")], run: split_quality },
        Entry { id: "trees.DecisionTreeParams", sites: &[("algorithms/linfa-trees/src/decision_trees/hyperparams.rs", "DecisionTreeParams")], run: tree_params },
        Entry { id: "trees.DecisionTreeValidParams", sites: &[("algorithms/linfa-trees/src/decision_trees/hyperparams.rs", "DecisionTreeValidParams")], run: tree_valid_params },
        Entry { id: "trees.TreeNode", sites: &[("algorithms/linfa-trees/src/decision_trees/algorithm.rs", "TreeNode")], run: tree_node },
        Entry { id: "trees.DecisionTree", sites: &[("algorithms/linfa-trees/src/decision_trees/algorithm.rs", "DecisionTree")], run: tree_model },
    ]
}

// ---------------------------------------------------------------------------------------------
// linear scalers / norm scaler / whiteners
// ---------------------------------------------------------------------------------------------
use linfa_preprocessing::linear_scaling::{LinearScaler, LinearScalerParams, ScalingMethod};

fn scaler_obs<F: Float>(m: &LinearScaler<F>, q: &Array2<F>) -> Ob {
    let mut ob = Ob::new();
    ob.a1("offsets", m.offsets()).a1("scales", m.scales()).st("method", format!("{:?} / {}", m.method(), m.method()));
    ob.a2("transform", &m.transform(q.clone()));
    ob.done()
}

fn scaling_method(r: &mut Runner) {
    fn go<F: SF>(o: &mut Out, m: ScalingMethod<F>) {
        let (x, _) = blobs::<F>(30, 3, 2, 45);
        let q = pool::<F>(3, Some(&x));
        let obs = |m: &ScalingMethod<F>| {
            let mut ob = Ob::new();
            ob.st("debug", format!("{:?}", m)).st("display", format!("{}", m));
            match LinearScalerParams::new(m.clone()).fit(&Dataset::from(x.clone())) {
                Ok(s) => ob.sub("refit", scaler_obs(&s, &q)),
                Err(e) => ob.st("refit.error", e.to_string()),
            };
            ob.done()
        };
        round_trip(o, &Spec::full(&obs), &m);
    }
    r.inst("f64/Standard(true,true)", |o| go::<f64>(o, ScalingMethod::Standard(true, true)));
    r.inst("f64/Standard(false,true)", |o| go::<f64>(o, ScalingMethod::Standard(false, true)));
    r.inst("f64/Standard(true,false)", |o| go::<f64>(o, ScalingMethod::Standard(true, false)));
    r.inst("f64/MinMax(0,1)", |o| go::<f64>(o, ScalingMethod::MinMax(0.0, 1.0)));
    r.inst("f64/MinMax(-1,0.1+0.2)", |o| go::<f64>(o, ScalingMethod::MinMax(-1.0, 0.1 + 0.2)));
    r.inst("f64/MinMax(2,1)invalid", |o| go::<f64>(o, ScalingMethod::MinMax(2.0, 1.0)));
    r.inst("f64/MaxAbs", |o| go::<f64>(o, ScalingMethod::MaxAbs));
    r.inst("f64/Standard(false,false)", |o| go::<f64>(o, ScalingMethod::Standard(false, false)));
    r.inst("f64/MinMax(0,0)", |o| go::<f64>(o, ScalingMethod::MinMax(0.0, 0.0)));
    r.inst("f64/MinMax(-1e300,1e300)", |o| go::<f64>(o, ScalingMethod::MinMax(-1e300, 1e300)));
    r.inst("f32/MinMax(-2,3)", |o| go::<f32>(o, ScalingMethod::MinMax(-2.0, 3.0)));
    r.inst("f32/Standard(true,true)", |o| go::<f32>(o, ScalingMethod::Standard(true, true)));
}

fn scaler_points<F: Float>() -> Vec<(&'static str, LinearScalerParams<F>)> {
    vec![
        ("standard", LinearScaler::standard()),
        ("standard_no_mean", LinearScaler::standard_no_mean()),
        ("standard_no_std", LinearScaler::standard_no_std()),
        ("min_max", LinearScaler::min_max()),
        ("min_max_range(-1,2)", LinearScaler::min_max_range(F::cast(-1.0), F::cast(2.0))),
        ("max_abs", LinearScaler::max_abs()),
        ("invalid_min_max_range(3,1)", LinearScaler::min_max_range(F::cast(3.0), F::cast(1.0))),
    ]
}

fn scaler_params(r: &mut Runner) {
    fn go<F: SF>(o: &mut Out, p: LinearScalerParams<F>) {
        let (x, _) = blobs::<F>(30, 3, 2, 45);
        let q = pool::<F>(3, Some(&x));
        let obs = |p: &LinearScalerParams<F>| {
            let mut ob = Ob::new();
            match p.fit(&Dataset::from(x.clone())) {
                Ok(s) => ob.st("check_verdict", "fit ok").sub("refit", scaler_obs(&s, &q)),
                Err(e) => ob.st("check_verdict", format!("fit err: {}", e)),
            };
            ob.done()
        };
        round_trip(o, &Spec::full(&obs), &p);
    }
    for (n, p) in scaler_points::<f64>() {
        r.inst(&format!("f64/{}", n), |o| go(o, p));
    }
    for (n, p) in scaler_points::<f32>().into_iter().skip(3).take(3) {
        r.inst(&format!("f32/{}", n), |o| go(o, p));
    }
}

fn scaler_model(r: &mut Runner) {
    fn go<F: SF>(o: &mut Out, p: LinearScalerParams<F>) {
        let (x, _) = blobs::<F>(30, 3, 2, 45);
        let q = pool::<F>(3, Some(&x));
        let m = o.need("scaler fit", p.fit(&Dataset::from(x.clone())));
        let obs = |m: &LinearScaler<F>| scaler_obs(m, &q);
        round_trip(o, &Spec::full(&obs), &m);
    }
    for (n, p) in scaler_points::<f64>().into_iter().take(6) {
        r.inst(&format!("f64/{}", n), |o| go(o, p));
    }
    for (n, p) in scaler_points::<f32>().into_iter().take(6).step_by(2) {
        r.inst(&format!("f32/{}", n), |o| go(o, p));
    }
}

fn norm_scaler(r: &mut Runner) {
    use linfa_preprocessing::norm_scaling::NormScaler;
    for (n, s) in [("l1", NormScaler::l1()), ("l2", NormScaler::l2()), ("max", NormScaler::max())] {
        r.inst(n, |o| {
            // no all-zero row in the pool (NaN there is C16's subject); NaN would still compare equal
            let q64 = pool::<f64>(3, None).mapv(|v| v + 0.125);
            let q32 = pool::<f32>(3, None).mapv(|v| v + 0.125);
            let obs = |s: &NormScaler| {
                let mut ob = Ob::new();
                ob.st("debug", format!("{:?}", s));
                ob.a2("transform.f64", &s.transform(q64.clone())).a2("transform.f32", &s.transform(q32.clone()));
                ob.done()
            };
            round_trip(o, &Spec::full(&obs).json(), &s);
        });
    }
}

use linfa_preprocessing::whitening::{FittedWhitener, Whitener, WhiteningMethod};

fn whitener_obs<F: Float>(m: &FittedWhitener<F>, q: &Array2<F>) -> Ob {
    let mut ob = Ob::new();
    ob.a2("transformation_matrix", &m.transformation_matrix()).a1("mean", &m.mean()).a2("transform", &m.transform(q.clone()));
    ob.done()
}

fn whitening_method(r: &mut Runner) {
    for (n, m) in [("Pca", WhiteningMethod::Pca), ("Zca", WhiteningMethod::Zca), ("Cholesky", WhiteningMethod::Cholesky)] {
        r.inst(n, |o| {
            let (x, _) = blobs::<f64>(40, 3, 2, 46);
            let q = pool::<f64>(3, Some(&x));
            let obs = |m: &WhiteningMethod| {
                let mut ob = Ob::new();
                ob.st("debug", format!("{:?}", m));
                let w = Whitener::pca().method(m.clone()).fit(&Dataset::from(x.clone())).expect("whitener");
                ob.sub("refit", whitener_obs(&w, &q));
                ob.done()
            };
            round_trip(o, &Spec::full(&obs).json().trivial(), &m);
        });
    }
}

fn whitener_params(r: &mut Runner) {
    for (n, w) in [("pca", Whitener::pca()), ("zca", Whitener::zca()), ("cholesky", Whitener::cholesky()), ("pca_then_method(Zca)", Whitener::pca().method(WhiteningMethod::Zca))] {
        r.inst(n, |o| {
            let (x, _) = blobs::<f64>(40, 3, 2, 46);
            let q = pool::<f64>(3, Some(&x));
            let (x32, _) = blobs::<f32>(40, 3, 2, 46);
            let q32 = pool::<f32>(3, Some(&x32));
            let obs = |w: &Whitener| {
                let mut ob = Ob::new();
                ob.sub("refit.f64", whitener_obs(&w.fit(&Dataset::from(x.clone())).expect("whitener"), &q));
                ob.sub("refit.f32", whitener_obs(&w.fit(&Dataset::from(x32.clone())).expect("whitener f32"), &q32));
                ob.done()
            };
            round_trip(o, &Spec::full(&obs).json(), &w);
        });
    }
}

fn whitener_model(r: &mut Runner) {
    fn go<F: SF>(o: &mut Out, w: Whitener) {
        let (x, _) = blobs::<F>(40, 3, 2, 46);
        let q = pool::<F>(3, Some(&x));
        let m = o.need("whitener fit", w.fit(&Dataset::from(x.clone())));
        let obs = |m: &FittedWhitener<F>| whitener_obs(m, &q);
        round_trip(o, &Spec::full(&obs), &m);
    }
    r.inst("f64/pca", |o| go::<f64>(o, Whitener::pca()));
    r.inst("f64/zca", |o| go::<f64>(o, Whitener::zca()));
    r.inst("f64/cholesky", |o| go::<f64>(o, Whitener::cholesky()));
    r.inst("f32/zca", |o| go::<f32>(o, Whitener::zca()));
    r.inst("f32/cholesky", |o| go::<f32>(o, Whitener::cholesky()));
}

// ---------------------------------------------------------------------------------------------
// vectorisers
// ---------------------------------------------------------------------------------------------
use linfa_preprocessing::tf_idf_vectorization::{FittedTfIdfVectorizer, TfIdfMethod, TfIdfVectorizer};
use linfa_preprocessing::{CountVectorizer, CountVectorizerParams, CountVectorizerValidParams, Tokenizer};

/// the training / query documents as small temporary files (for the file-based entry points
/// fit_files / transform_files); the directory is removed when the value is dropped
pub struct TempDocs {
    dir: std::path::PathBuf,
    pub train: Vec<std::path::PathBuf>,
    pub query: Vec<std::path::PathBuf>,
}
impl TempDocs {
    pub fn new() -> TempDocs {
        static N: std::sync::atomic::AtomicU64 = std::sync::atomic::AtomicU64::new(0);
        let dir = std::env::temp_dir().join(format!("c19-docs-{}-{}", std::process::id(), N.fetch_add(1, std::sync::atomic::Ordering::Relaxed)));
        std::fs::create_dir_all(&dir).expect("temp dir");
        let write = |name: &str, all: &[&str]| -> Vec<std::path::PathBuf> {
            all.iter()
                .enumerate()
                .map(|(i, d)| {
                    let p = dir.join(format!("{}{}.txt", name, i));
                    std::fs::write(&p, d.as_bytes()).expect("temp file");
                    p
                })
                .collect()
        };
        let train = write("train", &DOCS);
        let query = write("query", &QUERY_DOCS);
        TempDocs { dir, train, query }
    }
}
impl Drop for TempDocs {
    fn drop(&mut self) {
        let _ = std::fs::remove_dir_all(&self.dir);
    }
}
fn utf8() -> encoding::EncodingRef {
    encoding::all::UTF_8
}

/// counts per word (columns ordered by word) of a sparse count / tf-idf matrix
fn canonical_columns<T: Clone>(vocab: &[String], dense: &ndarray::Array2<T>) -> Vec<T> {
    let mut order: Vec<usize> = (0..vocab.len()).collect();
    order.sort_by(|&a, &b| vocab[a].cmp(&vocab[b]));
    let mut v = Vec::new();
    for &j in &order {
        v.extend(dense.column(j).iter().cloned());
    }
    v
}

/// file-based entry points of a fitted count vectoriser
fn cv_files_obs(ob: &mut Ob, prefix: &str, cv: &CountVectorizer, files: &TempDocs) {
    for (name, paths) in [("train", &files.train), ("query", &files.query)] {
        match cv.transform_files(paths, utf8(), encoding::DecoderTrap::Strict) {
            Ok(m) => ob.us(&format!("{}transform_files.{}", prefix, name), canonical_columns(cv.vocabulary(), &m.to_dense())),
            Err(e) => ob.st(&format!("{}transform_files.{}.error", prefix, name), format!("{:?}", e)),
        };
    }
}
fn tfidf_files_obs(ob: &mut Ob, prefix: &str, m: &FittedTfIdfVectorizer, files: &TempDocs) {
    for (name, paths) in [("train", &files.train), ("query", &files.query)] {
        match m.transform_files(paths, utf8(), encoding::DecoderTrap::Strict) {
            Ok(x) => ob.fl(&format!("{}transform_files.{}", prefix, name), canonical_columns(m.vocabulary(), &x.to_dense())),
            Err(e) => ob.st(&format!("{}transform_files.{}.error", prefix, name), format!("{:?}", e)),
        };
    }
}

fn docs() -> Array1<&'static str> {
    Array1::from_iter(DOCS.iter().cloned())
}
fn qdocs() -> Array1<&'static str> {
    Array1::from_iter(QUERY_DOCS.iter().cloned())
}

/// exact observation of a fitted vectoriser (column order included): for round trips of the
/// fitted value itself
fn cv_exact_obs(ob: &mut Ob, prefix: &str, cv: &CountVectorizer) {
    // reproducible part: counts per word (columns ordered by word)
    cv_canonical_obs(ob, prefix, cv);
    ob.u1(&format!("{}nentries", prefix), cv.nentries());
    // exact part: column order and raw matrices must be identical too; their content depends on
    // the hash order of the run that fitted the vocabulary, so a difference is reported opaquely
    ob.st(&format!("{}vocabulary{}", prefix, Ob::OPAQUE), cv.vocabulary().join("|"));
    for (name, d) in [("train", docs()), ("query", qdocs())] {
        if let Ok(m) = cv.transform(&d) {
            let dense = m.to_dense();
            ob.us(&format!("{}transform.{}.shape", prefix, name), [dense.nrows(), dense.ncols()]);
            ob.us(&format!("{}transform.{}.raw{}", prefix, name, Ob::OPAQUE), dense.iter().cloned());
        }
    }
}

/// canonical observation of a REFITTED vectoriser: as a word -> column map (columns re-ordered by
/// word), because the column order of a fresh fit follows HashMap iteration order (C20's subject)
fn cv_canonical_obs(ob: &mut Ob, prefix: &str, cv: &CountVectorizer) {
    let mut order: Vec<usize> = (0..cv.vocabulary().len()).collect();
    order.sort_by(|&a, &b| cv.vocabulary()[a].cmp(&cv.vocabulary()[b]));
    ob.st(&format!("{}vocabulary_sorted", prefix), order.iter().map(|&j| cv.vocabulary()[j].clone()).collect::<Vec<_>>().join("|"));
    for (name, d) in [("train", docs()), ("query", qdocs())] {
        match cv.transform(&d) {
            Ok(m) => {
                let dense = m.to_dense();
                let mut v = Vec::new();
                for &j in &order {
                    v.extend(dense.column(j).iter().cloned());
                }
                ob.us(&format!("{}transform.{}", prefix, name), v)
            }
            Err(e) => ob.st(&format!("{}transform.{}.error", prefix, name), e.to_string()),
        };
    }
}

fn valid_params_obs(ob: &mut Ob, v: &CountVectorizerValidParams) {
    ob.bools("convert_to_lowercase", [v.convert_to_lowercase()]).us("n_gram_range", [v.n_gram_range().0, v.n_gram_range().1]).bools("normalize", [v.normalize()]);
    ob.f32s("document_frequency", [v.document_frequency().0, v.document_frequency().1]);
    ob.st("max_features", format!("{:?}", v.max_features()));
    ob.st("stopwords", {
        let mut s: Vec<String> = v.stopwords().as_ref().map(|h| h.iter().cloned().collect()).unwrap_or_default();
        s.sort();
        format!("{:?}/{}", v.stopwords().is_some(), s.join("|"))
    });
    ob.bools("tokenizer_function_is_some", [v.tokenizer_function().is_some()]);
}

/// split expression with upper-case classes: what it matches depends on how the case of the
/// documents and of the expression is handled, i.e. on state beyond the pattern text
const CASED_REGEX: &str = r"\b(?:[a-z]{2,}|[A-Z]\d+)\b";
/// split expression with upper-case literals
const CASED_LITERAL_REGEX: &str = r"\b(?:A320|B52|Boeing\d+|[a-z]+)\b";

/// valid points first, the points whose name starts with `invalid` last
fn cv_points() -> Vec<(&'static str, CountVectorizerParams)> {
    vec![
        ("default", CountVectorizer::params()),
        ("ngram12_df_stopwords", CountVectorizer::params().n_gram_range(1, 2).document_frequency(0.2, 0.9).stopwords(&["two", "nine"])),
        ("regex_tokenizer_case_sensitive_max5", CountVectorizer::params().tokenizer(Tokenizer::Regex(r"\b[a-zA-Z]+\b".to_string())).convert_to_lowercase(false).normalize(false).max_features(Some(5))),
        ("cased_regex_lowercase_on", CountVectorizer::params().tokenizer(Tokenizer::Regex(CASED_REGEX.to_string()))),
        ("cased_regex_lowercase_off", CountVectorizer::params().tokenizer(Tokenizer::Regex(CASED_REGEX.to_string())).convert_to_lowercase(false)),
        ("cased_literal_regex_lowercase_on_ngram12", CountVectorizer::params().tokenizer(Tokenizer::Regex(CASED_LITERAL_REGEX.to_string())).n_gram_range(1, 2)),
        ("cased_literal_regex_lowercase_off_no_normalize", CountVectorizer::params().tokenizer(Tokenizer::Regex(CASED_LITERAL_REGEX.to_string())).convert_to_lowercase(false).normalize(false)),
        ("inline_case_insensitive_flag_regex", CountVectorizer::params().tokenizer(Tokenizer::Regex(r"(?i)\b(?:[A-Z]\d+|[a-z]{3,})\b".to_string())).convert_to_lowercase(false)),
        // Option<usize> max_features at Some(0) / Some(1) / Some(huge); empty stop-word list; boundary frequencies and n-grams
        ("max_features0", CountVectorizer::params().max_features(Some(0))),
        ("max_features1_empty_stopwords_ngram22", CountVectorizer::params().max_features(Some(1)).stopwords::<&str>(&[]).n_gram_range(2, 2)),
        ("max_features_huge_df_0_0", CountVectorizer::params().max_features(Some(usize::MAX)).document_frequency(0.0, 0.0)),
        ("df_1_1_ngram_1_huge", CountVectorizer::params().document_frequency(1.0, 1.0).n_gram_range(1, usize::MAX)),
        ("invalid_flipped_ngrams", CountVectorizer::params().n_gram_range(3, 1)),
        ("invalid_regex", CountVectorizer::params().tokenizer(Tokenizer::Regex("(unclosed".to_string()))),
    ]
}
fn cv_valid_points() -> Vec<(&'static str, CountVectorizerParams)> {
    cv_points().into_iter().filter(|(n, _)| !n.starts_with("invalid")).collect()
}

fn cv_params(r: &mut Runner) {
    for (n, p) in cv_points() {
        r.inst(n, |o| {
            let obs = |p: &CountVectorizerParams| {
                let mut ob = Ob::new();
                match p.check_ref() {
                    Ok(v) => {
                        ob.st("check_verdict", "ok");
                        valid_params_obs(&mut ob, v);
                        ob.st("split_regex", v.split_regex().as_str())
                    }
                    Err(e) => ob.st("check_verdict", format!("err: {}", e)),
                };
                match p.fit(&docs()) {
                    Ok(cv) => cv_canonical_obs(&mut ob, "refit.", &cv),
                    Err(e) => {
                        ob.st("refit.error", e.to_string());
                    }
                };
                {
                    let files = TempDocs::new();
                    match p.fit_files(&files.train, utf8(), encoding::DecoderTrap::Strict) {
                        Ok(cv) => {
                            cv_canonical_obs(&mut ob, "refit_files.", &cv);
                            cv_files_obs(&mut ob, "refit_files.", &cv, &files);
                        }
                        Err(e) => {
                            ob.st("refit_files.error", e.to_string());
                        }
                    };
                }
                match p.fit_vocabulary(&["two", "three", "one two", "zebra"]) {
                    Ok(cv) => cv_canonical_obs(&mut ob, "refit_vocabulary.", &cv),
                    Err(e) => {
                        ob.st("refit_vocabulary.error", e.to_string());
                    }
                };
                ob.done()
            };
            // no PartialEq; `check_ref` caches the compiled regex in a RefCell, which shows in Debug
            // depending on whether the value was checked before: Debug is taken before any check
            let spec = Spec::plain(&obs).with_maps().no_debug("split_regex is a lazily filled cache (RefCell) that observe() itself populates");
            round_trip(o, &spec, &p);
        });
    }
    // function tokeniser: the fn pointer is `serde(skip)`; restored parameters must not silently fit
    // with the regex instead
    r.inst("function_tokenizer", |o| function_tokenizer_params(o, false));
}

/// Parameter set with a function tokeniser (CountVectorizerParams, or TfIdfVectorizer when
/// `tfidf`): the documented guard (`tokenizer_deserialization_guard`) must make the restored value
/// refuse to work until the function is supplied again, and then agree with the original.
fn function_tokenizer_params(o: &mut Out, tfidf: bool) {
    let p = CountVectorizer::params().tokenizer(Tokenizer::Function(space_tokenizer)).n_gram_range(1, 2);
    let t = TfIdfVectorizer::default().tokenizer(Tokenizer::Function(space_tokenizer)).n_gram_range(1, 2);
    let canon_cv = |cv: &CountVectorizer| {
        let mut ob = Ob::new();
        cv_canonical_obs(&mut ob, "", cv);
        ob.done()
    };
    let canon_tf = |m: &FittedTfIdfVectorizer| {
        let mut ob = Ob::new();
        tfidf_canonical_obs(&mut ob, "", m);
        ob.done()
    };
    if tfidf {
        audit(o, &t);
    } else {
        audit(o, &p);
    }
    let original: Ob = if tfidf { canon_tf(&o.need("fit", t.fit(&docs()))) } else { canon_cv(&o.need("fit", p.fit(&docs()))) };
    // sanity of the harness: the function tokeniser really differs from the default regex
    let with_regex = canon_cv(&CountVectorizer::params().n_gram_range(1, 2).fit(&docs()).unwrap());
    if !tfidf && with_regex == original {
        o.machinery("function tokeniser instance does not differ from the regex tokeniser");
    }
    for f in BINARY_FORMATS {
        let fname = f.name();
        o.cnt.evals += 1;
        o.cnt.nontrivial += 1;
        o.cnt.guard_checks += 1;
        *o.per_format.entry(fname).or_insert(0) += 1;
        // (restored fit outcome, outcome after re-supplying the function)
        let outcome: Result<(Result<Ob, String>, Ob), String> = match lvmc_core::guarded(|| if tfidf {
            f.ser(&t).and_then(|b| f.de::<TfIdfVectorizer>(&b)).map(|rt| {
                let first = rt.fit(&docs()).map(|m| canon_tf(&m)).map_err(|e| e.to_string());
                let again = rt.tokenizer(Tokenizer::Function(space_tokenizer));
                (first, canon_tf(&again.fit(&docs()).expect("fit after re-supplying the tokenizer")))
            })
        } else {
            f.ser(&p).and_then(|b| f.de::<CountVectorizerParams>(&b)).map(|rp| {
                let first = rp.fit(&docs()).map(|m| canon_cv(&m)).map_err(|e| e.to_string());
                let again = rp.tokenizer(Tokenizer::Function(space_tokenizer));
                (first, canon_cv(&again.fit(&docs()).expect("fit after re-supplying the tokenizer")))
            })
        }) {
            Ok(x) => x,
            Err(p) => {
                o.viol("function_tokenizer.panic", fname, format!("using restored parameters with a function tokeniser panicked: {}", p));
                continue;
            }
        };
        match outcome {
            Err(e) => o.viol("function_tokenizer.round_trip_error", fname, format!("parameters with a function tokeniser do not survive serialisation: {}", e)),
            Ok((first, again)) => {
                match first {
                    Err(_) => {} // refuses: the documented guard behaviour
                    Ok(m) if m == original => {}
                    Ok(m) => {
                        let (name, what) = original.diff(&m).unwrap();
                        let _ = name;
                        o.viol(
                            "function_tokenizer.restored_params_fit_silently_with_regex",
                            fname,
                            format!("parameters built with Tokenizer::Function, once restored, fit WITHOUT error using the split regex instead of the (not serialisable) function — the guard `tokenizer_deserialization_guard` is only consulted by the fitted vectoriser's transform, never by fit — and give a different model: {}", what),
                        );
                    }
                }
                if let Some((_, what)) = original.diff(&again) {
                    o.viol("function_tokenizer.differs_after_resupply", fname, format!("after re-supplying the function the refit still differs: {}", what));
                }
            }
        }
    }
}

fn cv_valid_params(r: &mut Runner) {
    for (n, p) in cv_valid_points() {
        r.inst(n, |o| {
            let v = o.need("check", p.check());
            let obs = |v: &CountVectorizerValidParams| {
                let mut ob = Ob::new();
                valid_params_obs(&mut ob, v);
                ob.st("split_regex", v.split_regex().as_str());
                match v.fit(&docs()) {
                    Ok(cv) => cv_canonical_obs(&mut ob, "refit.", &cv),
                    Err(e) => {
                        ob.st("refit.error", e.to_string());
                    }
                };
                {
                    let files = TempDocs::new();
                    match v.fit_files(&files.train, utf8(), encoding::DecoderTrap::Strict) {
                        Ok(cv) => {
                            cv_canonical_obs(&mut ob, "refit_files.", &cv);
                            cv_files_obs(&mut ob, "refit_files.", &cv, &files);
                        }
                        Err(e) => {
                            ob.st("refit_files.error", e.to_string());
                        }
                    };
                }
                ob.done()
            };
            // checked parameters hold the compiled regex: Debug shows it and must agree (recompiled on load)
            round_trip(o, &Spec::plain(&obs).with_maps(), &v);
        });
    }
    r.inst("function_tokenizer", function_tokenizer_valid_params);
}

/// CHECKED parameters with a function tokeniser: the restored value has lost the fn pointer and
/// has no setter to get it back; it must refuse to fit (guard) rather than fit with the regex
fn function_tokenizer_valid_params(o: &mut Out) {
    let v = o.need("check", CountVectorizer::params().tokenizer(Tokenizer::Function(space_tokenizer)).n_gram_range(1, 2).check());
    audit(o, &v);
    let canon_cv = |cv: &CountVectorizer| {
        let mut ob = Ob::new();
        cv_canonical_obs(&mut ob, "", cv);
        ob.done()
    };
    let original = canon_cv(&o.need("fit", v.fit(&docs())));
    for f in BINARY_FORMATS {
        let fname = f.name();
        o.cnt.evals += 1;
        o.cnt.nontrivial += 1;
        o.cnt.guard_checks += 1;
        *o.per_format.entry(fname).or_insert(0) += 1;
        let first = match lvmc_core::guarded(|| f.ser(&v).and_then(|b| f.de::<CountVectorizerValidParams>(&b)).map(|rv| rv.fit(&docs()).map(|m| canon_cv(&m)).map_err(|e| e.to_string()))) {
            Ok(Ok(x)) => x,
            Ok(Err(e)) => {
                o.viol("function_tokenizer.round_trip_error", fname, format!("checked parameters with a function tokeniser do not survive serialisation: {}", e));
                continue;
            }
            Err(p) => {
                o.viol("function_tokenizer.panic", fname, format!("using restored checked parameters with a function tokeniser panicked: {}", p));
                continue;
            }
        };
        match first {
            Err(_) => {} // refuses: the guard behaviour
            Ok(m) if m == original => {}
            Ok(m) => {
                let (_, what) = original.diff(&m).unwrap();
                o.viol(
                    "function_tokenizer.restored_checked_params_fit_silently_with_regex",
                    fname,
                    format!("CHECKED parameters (CountVectorizerValidParams) built with Tokenizer::Function, once restored, fit WITHOUT error using the split regex instead of the (not serialisable) function: `tokenizer_deserialization_guard` is consulted by CountVectorizerParams::check_ref and by the fitted vectoriser's transform, but not by CountVectorizerValidParams::fit, and the checked type has no way to supply the function again; the model differs: {}", what),
                );
            }
        }
    }
}

fn cv_model(r: &mut Runner) {
    for (n, p) in cv_valid_points() {
        r.inst(n, |o| {
            let m = o.need("fit", p.fit(&docs()));
            let obs = |m: &CountVectorizer| {
                let mut ob = Ob::new();
                cv_exact_obs(&mut ob, "", m);
                cv_files_obs(&mut ob, "", m, &TempDocs::new());
                ob.done()
            };
            round_trip(o, &Spec::plain(&obs).with_maps().opaque_debug(), &m);
        });
    }
    r.inst("fit_vocabulary", |o| {
        let m = o.need("fit_vocabulary", CountVectorizer::params().n_gram_range(1, 2).fit_vocabulary(&["two", "three", "one two", "zebra"]));
        let obs = |m: &CountVectorizer| {
            let mut ob = Ob::new();
            cv_exact_obs(&mut ob, "", m);
            ob.done()
        };
        round_trip(o, &Spec::plain(&obs).with_maps().opaque_debug(), &m);
    });
    r.inst("function_tokenizer_guard", |o| {
        let m = o.need("fit", CountVectorizer::params().tokenizer(Tokenizer::Function(space_tokenizer)).n_gram_range(1, 2).fit(&docs()));
        let mut ob0 = Ob::new();
        cv_exact_obs(&mut ob0, "", &m);
        audit(o, &m);
        for f in BINARY_FORMATS {
            let fname = f.name();
            o.cnt.evals += 1;
            o.cnt.nontrivial += 1;
            o.cnt.guard_checks += 1;
            *o.per_format.entry(fname).or_insert(0) += 1;
            let mut restored: CountVectorizer = match lvmc_core::guarded(|| f.ser(&m).and_then(|b| f.de(&b))).unwrap_or_else(|p| Err(format!("panic: {}", p))) {
                Ok(r) => r,
                Err(e) => {
                    o.viol("function_tokenizer.round_trip_error", fname, format!("fitted vectoriser with a function tokeniser does not survive serialisation: {}", e));
                    continue;
                }
            };
            if restored.vocabulary() != m.vocabulary() || restored.nentries() != m.nentries() {
                o.viol("function_tokenizer.vocabulary_differs", fname, "vocabulary of the restored vectoriser differs".to_string());
            }
            match lvmc_core::guarded(|| restored.transform(&qdocs()).map(|_| ())) {
                Ok(Err(e)) if matches!(e, linfa_preprocessing::PreprocessingError::TokenizerNotSet) => {}
                Ok(Err(e)) => o.viol("function_tokenizer.guard_wrong_error", fname, format!("transform before re-supplying the tokenizer failed with `{}` instead of TokenizerNotSet", e)),
                Ok(Ok(())) => o.viol("function_tokenizer.guard_missing", fname, "the restored vectoriser transforms although its tokenizer function has not been re-supplied (documented guard: must refuse)".to_string()),
                Err(p) => o.viol("function_tokenizer.guard_panic", fname, format!("transform of the restored vectoriser panicked instead of refusing: {}", p)),
            }
            restored.force_tokenizer_function_redefinition(space_tokenizer);
            let mut ob1 = Ob::new();
            if let Err(p) = lvmc_core::guarded(|| cv_exact_obs(&mut ob1, "", &restored)) {
                o.viol("function_tokenizer.panic_after_resupply", fname, format!("using the restored vectoriser after re-supplying the tokenizer panicked: {}", p));
                continue;
            }
            if let Some((name, what)) = ob0.diff(&ob1) {
                o.viol(&format!("function_tokenizer.differs_after_resupply.{}", name.replace(' ', "_")), fname, what);
            }
        }
        // every generation history of length <= 4 (quick) / 5 (thorough) over {round trip, repair, use}
        let depth = if std::env::var("VERIF_TIER").as_deref() == Ok("thorough") { 5 } else { 4 };
        let files = TempDocs::new();
        let spec = Repairable::<CountVectorizer> {
            repair: &|cv: &mut CountVectorizer| cv.force_tokenizer_function_redefinition(space_tokenizer),
            // both entry points: in-memory transform and transform_files; they must refuse together
            // (unrepaired generation) or answer together (function attached)
            use_it: &|cv: &CountVectorizer| {
                let mem = cv.transform(&qdocs()).map(|_| ()).map_err(|e| format!("{:?}", e));
                let file = cv.transform_files(&files.query, utf8(), encoding::DecoderTrap::Strict).map(|_| ()).map_err(|e| format!("{:?}", e));
                match (&mem, &file) {
                    (Err(a), Err(b)) if a == b => return Err(a.clone()),
                    _ => {}
                }
                let mut ob = Ob::new();
                ob.st("entry_points", format!("transform: {:?}, transform_files: {:?}", mem, file));
                cv_canonical_obs(&mut ob, "", cv);
                cv_files_obs(&mut ob, "", cv, &files);
                Ok(ob.done())
            },
            // error KIND compared through Debug (by-catch: the Display texts of TokenizerNotSet and FlippedMinMaxRange are swapped in linfa-preprocessing/src/error.rs:16-19)
            guard_error: format!("{:?}", linfa_preprocessing::PreprocessingError::TokenizerNotSet),
        };
        for f in BINARY_FORMATS {
            explore_generations(o, f, &m, &spec, depth);
        }
    });
}

fn tfidf_method(r: &mut Runner) {
    for (n, m) in [("Smooth", TfIdfMethod::Smooth), ("NonSmooth", TfIdfMethod::NonSmooth), ("Textbook", TfIdfMethod::Textbook)] {
        r.inst(n, |o| {
            let obs = |m: &TfIdfMethod| {
                let mut ob = Ob::new();
                ob.st("debug", format!("{:?}", m));
                let mut v = Vec::new();
                for n in [1usize, 5, 8] {
                    for df in 0..=n {
                        v.push(m.compute_idf(n, df));
                    }
                }
                ob.fl("predict.compute_idf", v);
                ob.done()
            };
            round_trip(o, &Spec::full(&obs).json().trivial(), &m);
        });
    }
}

fn tfidf_exact_obs(ob: &mut Ob, prefix: &str, m: &FittedTfIdfVectorizer) {
    tfidf_canonical_obs(ob, prefix, m);
    ob.u1(&format!("{}nentries", prefix), m.nentries());
    ob.st(&format!("{}vocabulary{}", prefix, Ob::OPAQUE), m.vocabulary().join("|"));
    for (name, d) in [("train", docs()), ("query", qdocs())] {
        if let Ok(x) = m.transform(&d) {
            ob.a2(&format!("{}transform.{}.raw{}", prefix, name, Ob::OPAQUE), &x.to_dense());
        }
    }
}

fn tfidf_canonical_obs(ob: &mut Ob, prefix: &str, m: &FittedTfIdfVectorizer) {
    let mut order: Vec<usize> = (0..m.vocabulary().len()).collect();
    order.sort_by(|&a, &b| m.vocabulary()[a].cmp(&m.vocabulary()[b]));
    ob.st(&format!("{}vocabulary_sorted", prefix), order.iter().map(|&j| m.vocabulary()[j].clone()).collect::<Vec<_>>().join("|")).st(&format!("{}method", prefix), format!("{:?}", m.method()));
    for (name, d) in [("train", docs()), ("query", qdocs())] {
        match m.transform(&d) {
            Ok(x) => {
                let dense = x.to_dense();
                let mut v = Vec::new();
                for &j in &order {
                    v.extend(dense.column(j).iter().cloned());
                }
                ob.fl(&format!("{}transform.{}", prefix, name), v)
            }
            Err(e) => ob.st(&format!("{}transform.{}.error", prefix, name), e.to_string()),
        };
    }
}

fn tfidf_points() -> Vec<(&'static str, TfIdfVectorizer)> {
    vec![
        ("default", TfIdfVectorizer::default()),
        // (TfIdfVectorizer has no public setter for `method`: only Smooth is constructible)
        ("ngram12_stopwords", TfIdfVectorizer::default().n_gram_range(1, 2).stopwords(&["two"]).document_frequency(0.1, 1.0)),
        ("regex_max4", TfIdfVectorizer::default().tokenizer(Tokenizer::Regex(r"\b[a-z]+\b".to_string())).max_features(Some(4)).convert_to_lowercase(false).normalize(false)),
        ("cased_regex_lowercase_on", TfIdfVectorizer::default().tokenizer(Tokenizer::Regex(CASED_REGEX.to_string()))),
        ("cased_regex_lowercase_off", TfIdfVectorizer::default().tokenizer(Tokenizer::Regex(CASED_REGEX.to_string())).convert_to_lowercase(false)),
        ("cased_literal_regex_lowercase_on", TfIdfVectorizer::default().tokenizer(Tokenizer::Regex(CASED_LITERAL_REGEX.to_string()))),
        ("max_features0", TfIdfVectorizer::default().max_features(Some(0))),
        ("max_features1_empty_stopwords", TfIdfVectorizer::default().max_features(Some(1)).stopwords::<&str>(&[])),
        ("invalid_zero_ngram", TfIdfVectorizer::default().n_gram_range(0, 1)),
    ]
}

fn tfidf_params(r: &mut Runner) {
    for (n, p) in tfidf_points() {
        r.inst(n, |o| {
            let obs = |p: &TfIdfVectorizer| {
                let mut ob = Ob::new();
                {
                    let files = TempDocs::new();
                    match p.fit_files(&files.train, utf8(), encoding::DecoderTrap::Strict) {
                        Ok(m) => {
                            tfidf_canonical_obs(&mut ob, "refit_files.", &m);
                            tfidf_files_obs(&mut ob, "refit_files.", &m, &files);
                        }
                        Err(e) => {
                            ob.st("refit_files.error", e.to_string());
                        }
                    };
                }
                match p.fit(&docs()) {
                    Ok(m) => {
                        ob.st("check_verdict", "fit ok");
                        tfidf_canonical_obs(&mut ob, "refit.", &m)
                    }
                    Err(e) => {
                        ob.st("check_verdict", format!("fit err: {}", e));
                    }
                };
                match p.fit_vocabulary(&["two", "three", "zebra"]) {
                    Ok(m) => tfidf_canonical_obs(&mut ob, "refit_vocabulary.", &m),
                    Err(e) => {
                        ob.st("refit_vocabulary.error", e.to_string());
                    }
                };
                ob.done()
            };
            let spec = Spec::plain(&obs).with_maps().no_debug("split_regex is a lazily filled cache (RefCell) that observe() itself populates");
            round_trip(o, &spec, &p);
        });
    }
    r.inst("function_tokenizer", |o| function_tokenizer_params(o, true));
}

fn tfidf_model(r: &mut Runner) {
    for (n, p) in tfidf_points().into_iter().filter(|(n, _)| !n.starts_with("invalid")) {
        r.inst(n, |o| {
            let m = o.need("fit", p.fit(&docs()));
            let obs = |m: &FittedTfIdfVectorizer| {
                let mut ob = Ob::new();
                tfidf_exact_obs(&mut ob, "", m);
                tfidf_files_obs(&mut ob, "", m, &TempDocs::new());
                ob.done()
            };
            round_trip(o, &Spec::plain(&obs).with_maps().opaque_debug(), &m);
        });
    }
    r.inst("function_tokenizer_guard", |o| {
        let m = o.need("fit", TfIdfVectorizer::default().tokenizer(Tokenizer::Function(space_tokenizer)).fit(&docs()));
        let mut ob0 = Ob::new();
        tfidf_exact_obs(&mut ob0, "", &m);
        audit(o, &m);
        for f in BINARY_FORMATS {
            let fname = f.name();
            o.cnt.evals += 1;
            o.cnt.nontrivial += 1;
            o.cnt.guard_checks += 1;
            *o.per_format.entry(fname).or_insert(0) += 1;
            let mut restored: FittedTfIdfVectorizer = match lvmc_core::guarded(|| f.ser(&m).and_then(|b| f.de(&b))).unwrap_or_else(|p| Err(format!("panic: {}", p))) {
                Ok(r) => r,
                Err(e) => {
                    o.viol("function_tokenizer.round_trip_error", fname, format!("fitted tf-idf vectoriser with a function tokeniser does not survive serialisation: {}", e));
                    continue;
                }
            };
            match lvmc_core::guarded(|| restored.transform(&qdocs()).map(|_| ())) {
                Ok(Err(e)) if matches!(e, linfa_preprocessing::PreprocessingError::TokenizerNotSet) => {}
                Ok(Err(e)) => o.viol("function_tokenizer.guard_wrong_error", fname, format!("transform before re-supplying the tokenizer failed with `{}` instead of TokenizerNotSet", e)),
                Ok(Ok(())) => o.viol("function_tokenizer.guard_missing", fname, "the restored tf-idf vectoriser transforms although its tokenizer function has not been re-supplied".to_string()),
                Err(p) => o.viol("function_tokenizer.guard_panic", fname, format!("transform of the restored tf-idf vectoriser panicked instead of refusing: {}", p)),
            }
            restored.force_tokenizer_redefinition(space_tokenizer);
            let mut ob1 = Ob::new();
            if let Err(p) = lvmc_core::guarded(|| tfidf_exact_obs(&mut ob1, "", &restored)) {
                o.viol("function_tokenizer.panic_after_resupply", fname, format!("using the restored tf-idf vectoriser after re-supplying the tokenizer panicked: {}", p));
                continue;
            }
            if let Some((name, what)) = ob0.diff(&ob1) {
                o.viol(&format!("function_tokenizer.differs_after_resupply.{}", name.replace(' ', "_")), fname, what);
            }
        }
        let depth = if std::env::var("VERIF_TIER").as_deref() == Ok("thorough") { 5 } else { 4 };
        let files = TempDocs::new();
        let spec = Repairable::<FittedTfIdfVectorizer> {
            repair: &|v: &mut FittedTfIdfVectorizer| v.force_tokenizer_redefinition(space_tokenizer),
            use_it: &|v: &FittedTfIdfVectorizer| {
                let mem = v.transform(&qdocs()).map(|_| ()).map_err(|e| format!("{:?}", e));
                let file = v.transform_files(&files.query, utf8(), encoding::DecoderTrap::Strict).map(|_| ()).map_err(|e| format!("{:?}", e));
                match (&mem, &file) {
                    (Err(a), Err(b)) if a == b => return Err(a.clone()),
                    _ => {}
                }
                let mut ob = Ob::new();
                ob.st("entry_points", format!("transform: {:?}, transform_files: {:?}", mem, file));
                tfidf_canonical_obs(&mut ob, "", v);
                tfidf_files_obs(&mut ob, "", v, &files);
                Ok(ob.done())
            },
            // error KIND compared through Debug (by-catch: the Display texts of TokenizerNotSet and FlippedMinMaxRange are swapped in linfa-preprocessing/src/error.rs:16-19)
            guard_error: format!("{:?}", linfa_preprocessing::PreprocessingError::TokenizerNotSet),
        };
        for f in BINARY_FORMATS {
            explore_generations(o, f, &m, &spec, depth);
        }
    });
}

// ---------------------------------------------------------------------------------------------
// SVM
// ---------------------------------------------------------------------------------------------
use linfa_svm::{ExitReason, SeparatingHyperplane, Svm};

fn svm_exit_reason(r: &mut Runner) {
    for (n, e) in [("ReachedThreshold", ExitReason::ReachedThreshold), ("ReachedIterations", ExitReason::ReachedIterations)] {
        r.inst(n, |o| {
            let obs = |e: &ExitReason| {
                let mut ob = Ob::new();
                ob.st("debug", format!("{:?}", e));
                ob.done()
            };
            round_trip(o, &Spec::full(&obs).json().trivial(), &e);
        });
    }
}

fn svm_hyperplane(r: &mut Runner) {
    fn go<F: SF>(o: &mut Out, h: SeparatingHyperplane<F>) {
        let obs = |h: &SeparatingHyperplane<F>| {
            let mut ob = Ob::new();
            match h {
                SeparatingHyperplane::Linear(a) => ob.st("variant", "Linear").a1("weights", a),
                SeparatingHyperplane::WeightedCombination(a) => ob.st("variant", "WeightedCombination").a2("support_vectors", a),
            };
            ob.done()
        };
        round_trip(o, &Spec::full(&obs), &h);
    }
    r.inst("f64/Linear", |o| go::<f64>(o, SeparatingHyperplane::Linear(ndarray::array![0.1 + 0.2, -0.0, 1e-310])));
    r.inst("f64/WeightedCombination", |o| go::<f64>(o, SeparatingHyperplane::WeightedCombination(blobs::<f64>(5, 2, 2, 3).0)));
    r.inst("f32/Linear", |o| go::<f32>(o, SeparatingHyperplane::Linear(ndarray::array![0.7f32, -3.0])));
    r.inst("f64/WeightedCombination(column-major 6x5)", |o| go::<f64>(o, SeparatingHyperplane::WeightedCombination(to_f_order(&blobs::<f64>(6, 5, 2, 3).0))));
    r.inst("f32/WeightedCombination", |o| go::<f32>(o, SeparatingHyperplane::WeightedCombination(blobs::<f32>(4, 3, 2, 3).0)));
}

fn svm_common_obs<F: Float, T>(m: &Svm<F, T>, q: &Array2<F>) -> Ob {
    let mut ob = Ob::new();
    ob.fl("alpha", m.alpha.iter().cloned()).f1("rho", m.rho).u1("nsupport", m.nsupport());
    // Display shows the private solver summary (exit reason, iterations, objective)
    ob.st("display", format!("{}", m));
    ob.fl("predict.weighted_sum", q.rows().into_iter().map(|r| m.weighted_sum(&r)));
    ob.done()
}

fn svm_model(r: &mut Runner) {
    fn class_bool<F: SF>(o: &mut Out, linear: bool, nu: bool) {
        let (x, y) = blobs::<F>(60, 2, 2, 33);
        let ds = Dataset::new(x.clone(), y.mapv(|c| c == 1));
        let mut p = Svm::<F, bool>::params();
        p = if linear { p.linear_kernel() } else { p.gaussian_kernel(F::cast(2.0)) };
        p = if nu { p.nu_weight(F::cast(0.3)) } else { p.pos_neg_weights(F::cast(1.0), F::cast(2.0)) };
        let m = o.need("svm fit", p.fit(&ds));
        let q = pool::<F>(2, Some(&x));
        let obs = |m: &Svm<F, bool>| {
            let mut ob = svm_common_obs(m, &q);
            ob.bools("predict", m.predict(&q).iter().cloned());
            ob.done()
        };
        round_trip(o, &Spec::full(&obs), &m);
    }
    fn class_pr<F: SF>(o: &mut Out, poly: bool) {
        let (x, y) = blobs::<F>(60, 2, 2, 35);
        let ds = Dataset::new(x.clone(), y.mapv(|c| c == 1));
        let p = if poly { Svm::<F, Pr>::params().polynomial_kernel(F::cast(1.0), F::cast(2.0)) } else { Svm::<F, Pr>::params().gaussian_kernel(F::cast(2.0)) };
        let m = o.need("svm fit", p.fit(&ds));
        let q = pool::<F>(2, Some(&x)).mapv(|v| if v.abs() > F::cast(50.0) { v / F::cast(25.0) } else { v });
        let obs = |m: &Svm<F, Pr>| {
            let mut ob = svm_common_obs(m, &q);
            // probabilities come from the private Platt coefficients
            ob.f32s("predict", m.predict(&q).iter().map(|p| **p));
            ob.done()
        };
        round_trip(o, &Spec::full(&obs), &m);
    }
    macro_rules! regress_for {
        ($name:ident, $f:ty) => {
            fn $name(o: &mut Out, nu: bool) {
                type F = $f;
                let (x, y) = regression::<F>(50, 2, 1, 36);
                let ds = Dataset::new(x.clone(), y.column(0).to_owned());
                let p = if nu { Svm::<F, F>::params().nu_svr(0.5, Some(1.0)).gaussian_kernel(5.0) } else { Svm::<F, F>::params().c_svr(1.0, Some(0.1)).linear_kernel() };
                let m = o.need("svr fit", p.fit(&ds));
                let q = pool::<F>(2, Some(&x));
                let obs = |m: &Svm<F, F>| {
                    let mut ob = svm_common_obs(m, &q);
                    ob.a1("predict", &m.predict(&q));
                    ob.done()
                };
                round_trip(o, &Spec::full(&obs), &m);
            }
        };
    }
    regress_for!(regress64, f64);
    regress_for!(regress32, f32);
    fn one_class<F: SF>(o: &mut Out) {
        let (x, _) = blobs::<F>(50, 2, 1, 37);
        let ds = Dataset::new(x.clone(), Array1::from_elem(50, ()));
        let m = o.need("one-class fit", Svm::<F, Pr>::params().gaussian_kernel(F::cast(3.0)).nu_weight(F::cast(0.2)).fit(&ds));
        let q = pool::<F>(2, Some(&x));
        let obs = |m: &Svm<F, bool>| {
            let mut ob = svm_common_obs(m, &q);
            ob.bools("predict", m.predict(&q).iter().cloned());
            ob.done()
        };
        round_trip(o, &Spec::full(&obs), &m);
    }
    r.inst("f64/bool/gaussian/C", |o| class_bool::<f64>(o, false, false));
    // degenerate solution on this data (rho = NaN, r = inf, all alpha = +-0): kept on purpose, it carries NaN / inf / -0.0 through every format
    r.inst("f64/bool/linear/nu(degenerate: NaN rho)", |o| class_bool::<f64>(o, true, true));
    r.inst("f64/bool/gaussian/nu", |o| class_bool::<f64>(o, false, true));
    r.inst("f64/bool/linear/C", |o| class_bool::<f64>(o, true, false));
    r.inst("f32/bool/gaussian/C", |o| class_bool::<f32>(o, false, false));
    r.inst("f64/Pr/gaussian(platt)", |o| class_pr::<f64>(o, false));
    r.inst("f64/Pr/polynomial(platt)", |o| class_pr::<f64>(o, true));
    r.inst("f32/Pr/gaussian(platt)", |o| class_pr::<f32>(o, false));
    r.inst("f64/regression/c_svr_linear", |o| regress64(o, false));
    r.inst("f64/regression/nu_svr_gaussian", |o| regress64(o, true));
    r.inst("f32/regression/c_svr_linear", |o| regress32(o, false));
    r.inst("f64/one_class", |o| one_class::<f64>(o));
}

// ---------------------------------------------------------------------------------------------
// decision trees
// ---------------------------------------------------------------------------------------------
use linfa_trees::{DecisionTree, DecisionTreeParams, DecisionTreeValidParams, SplitQuality, TreeNode};

fn node_obs<F: Float, L: linfa::Label + std::fmt::Debug>(ob: &mut Ob, prefix: &str, n: &TreeNode<F, L>) {
    let (f, v, imp) = n.split();
    ob.bools(&format!("{}is_leaf", prefix), [n.is_leaf()]).u1(&format!("{}depth", prefix), n.depth()).u1(&format!("{}feature", prefix), f);
    ob.fl(&format!("{}split_value_impurity", prefix), [v, imp]);
    ob.st(&format!("{}prediction", prefix), format!("{:?}", n.prediction())).st(&format!("{}feature_name", prefix), format!("{:?}", n.feature_name()));
    ob.bools(&format!("{}children_present", prefix), n.children().iter().map(|c| c.is_some()));
}

fn subtree_obs<F: Float, L: linfa::Label + std::fmt::Debug>(ob: &mut Ob, prefix: &str, n: &TreeNode<F, L>) {
    node_obs(ob, prefix, n);
    for (i, c) in n.children().into_iter().enumerate() {
        if let Some(c) = c {
            subtree_obs(ob, &format!("{}{}.", prefix, if i == 0 { "L" } else { "R" }), c);
        }
    }
}

fn tree_obs<F: Float, L: linfa::Label + std::fmt::Debug + Default>(m: &DecisionTree<F, L>, q: &Array2<F>) -> Ob {
    let mut ob = Ob::new();
    for (i, n) in m.iter_nodes().enumerate() {
        node_obs(&mut ob, &format!("node{}.", i), n);
    }
    // by-catch (C20's subject, not a round-trip matter): DecisionTree::features() is documented as
    // breadth-first order but returns the iteration order of a HashSet (algorithm.rs:565-575), which
    // differs between two calls on the SAME tree; observed as a set here
    let mut feats = m.features();
    feats.sort();
    ob.us("features(sorted)", feats).fl("mean_impurity_decrease", m.mean_impurity_decrease()).fl("relative_impurity_decrease", m.relative_impurity_decrease()).fl("feature_importance", m.feature_importance());
    ob.u1("max_depth", m.max_depth()).u1("num_leaves", m.num_leaves());
    ob.st("tikz", m.export_to_tikz().with_legend().to_string());
    ob.st("predict", m.predict(q).iter().map(|l| format!("{:?}", l)).collect::<Vec<_>>().join(","));
    ob.done()
}

fn split_quality(r: &mut Runner) {
    for (n, s) in [("Gini", SplitQuality::Gini), ("Entropy", SplitQuality::Entropy)] {
        r.inst(n, |o| {
            let obs = |s: &SplitQuality| {
                let mut ob = Ob::new();
                ob.st("debug", format!("{:?}", s));
                ob.done()
            };
            round_trip(o, &Spec::full(&obs).json().trivial(), &s);
        });
    }
}

fn tree_points<F: Float>() -> Vec<(&'static str, DecisionTreeParams<F, usize>)> {
    vec![
        ("default", DecisionTree::params()),
        ("entropy_depth3", DecisionTree::params().split_quality(SplitQuality::Entropy).max_depth(Some(3)).min_weight_split(4.0).min_weight_leaf(2.0)),
        ("gini_depth1_min_impurity", DecisionTree::params().max_depth(Some(1)).min_impurity_decrease(F::cast(0.1 + 0.2))),
        // Option<usize> depth limit at Some(0) (a legal single-leaf tree), Some(1) is above, Some(huge); numeric extremes
        ("depth0_single_leaf", DecisionTree::params().max_depth(Some(0))),
        ("depth_huge_eps_impurity", DecisionTree::params().max_depth(Some(usize::MAX)).min_impurity_decrease(F::epsilon())),
        // (fitting with both minimum weights at 0 panics `assertion failed: n_samples > 0.0`: not C19's subject, the panic text is the observation)
        ("zero_weights", DecisionTree::params().max_depth(Some(2)).min_weight_split(0.0).min_weight_leaf(0.0)),
        ("huge_weights_huge_impurity", DecisionTree::params().max_depth(None).min_weight_split(f32::MAX).min_weight_leaf(f32::MAX).min_impurity_decrease(F::cast(1e30))),
        ("invalid_min_impurity", DecisionTree::params().min_impurity_decrease(F::cast(0.0))),
    ]
}

fn tree_valid_obs<F: Float>(v: &DecisionTreeValidParams<F, usize>, x: &Array2<F>, y: &Array1<usize>, q: &Array2<F>) -> Ob {
    let mut ob = Ob::new();
    ob.st("split_quality", format!("{:?}", v.split_quality())).st("max_depth", format!("{:?}", v.max_depth())).f32s("min_weights", [v.min_weight_split(), v.min_weight_leaf()]).f1("min_impurity_decrease", v.min_impurity_decrease());
    match v.fit(&Dataset::new(x.clone(), y.clone())) {
        Ok(m) => ob.sub("refit", tree_obs(&m, q)),
        Err(e) => ob.st("refit.error", e.to_string()),
    };
    ob.done()
}

fn tree_params(r: &mut Runner) {
    fn go<F: SF>(o: &mut Out, p: DecisionTreeParams<F, usize>) {
        let (x, y) = tree_data::<F>();
        let q = pool::<F>(3, Some(&x));
        let obs = |p: &DecisionTreeParams<F, usize>| {
            let mut ob = Ob::new();
            match p.check_ref() {
                Ok(v) => ob.st("check_verdict", "ok").sub("checked", tree_valid_obs(v, &x, &y, &q)),
                Err(e) => ob.st("check_verdict", format!("err: {}", e)),
            };
            match p.fit(&Dataset::new(x.clone(), y.clone())) {
                Ok(m) => ob.sub("refit", tree_obs(&m, &q)),
                Err(e) => ob.st("refit.error", e.to_string()),
            };
            ob.done()
        };
        round_trip(o, &Spec::full(&obs), &p);
    }
    for (n, p) in tree_points::<f64>() {
        r.inst(&format!("f64/{}", n), |o| go(o, p));
    }
    for (n, p) in tree_points::<f32>().into_iter().take(3) {
        r.inst(&format!("f32/{}", n), |o| go(o, p));
    }
}

fn tree_valid_params(r: &mut Runner) {
    fn go<F: SF>(o: &mut Out, p: DecisionTreeParams<F, usize>) {
        let (x, y) = tree_data::<F>();
        let q = pool::<F>(3, Some(&x));
        let v = o.need("check", p.check());
        let obs = |v: &DecisionTreeValidParams<F, usize>| tree_valid_obs(v, &x, &y, &q);
        round_trip(o, &Spec::full(&obs), &v);
    }
    for (n, p) in tree_points::<f64>().into_iter().filter(|(n, _)| !n.starts_with("invalid")) {
        r.inst(&format!("f64/{}", n), |o| go(o, p));
    }
    for (n, p) in tree_points::<f32>().into_iter().take(3) {
        r.inst(&format!("f32/{}", n), |o| go(o, p));
    }
}

/// blob records with labels that need two different features to be told apart (class 0: x1 <= 1;
/// class 1: x1 > 1 and x0 + x2 <= 3; class 2: the rest), so that the fitted trees split on more than
/// feature 0 (a tree whose every node has feature_idx 0 could lose that field unnoticed)
fn tree_data<F: Float>() -> (Array2<F>, Array1<usize>) {
    let (x, _) = blobs::<F>(90, 3, 3, 38);
    let y = Array1::from_iter(x.rows().into_iter().map(|r| if r[1] <= F::cast(1.0) { 0usize } else if r[0] + r[2] <= F::cast(3.0) { 1 } else { 2 }));
    (x, y)
}

fn fitted_tree<F: Float, L: linfa::Label + std::fmt::Debug + Default>(lab: fn(usize) -> L, named: bool, depth: Option<usize>) -> (DecisionTree<F, L>, Array2<F>) {
    let (x, y) = tree_data::<F>();
    let mut ds = Dataset::new(x.clone(), y.mapv(lab));
    if named {
        ds = ds.with_feature_names(vec!["sepal length", "petal \"width\"", "x_3"]);
    }
    let m = DecisionTree::params().max_depth(depth).fit(&ds).expect("tree fit");
    (m, x)
}

fn tree_node(r: &mut Runner) {
    fn go<F: SF, L: linfa::Label + std::fmt::Debug + Default + serde::Serialize + serde::de::DeserializeOwned>(o: &mut Out, lab: fn(usize) -> L, which: &str) {
        let (m, _) = fitted_tree::<F, L>(lab, true, Some(3));
        let node: TreeNode<F, L> = match which {
            "root_subtree" => m.root_node().clone(),
            "leaf" => m.iter_nodes().find(|n| n.is_leaf()).cloned().unwrap(),
            _ => unreachable!(),
        };
        let obs = |n: &TreeNode<F, L>| {
            let mut ob = Ob::new();
            subtree_obs(&mut ob, "", n);
            ob.done()
        };
        // TreeNode's PartialEq only compares the feature index; still required to hold
        round_trip(o, &Spec::full(&obs), &node);
    }
    r.inst("f64/noisy4class/entropy/root_subtree", |o| {
        let (x, y) = blobs_overlap::<f64>(160, 3, 4, 206);
        let m: DecisionTree<f64, usize> = o.need("tree fit", DecisionTree::params().split_quality(SplitQuality::Entropy).max_depth(Some(4)).fit(&Dataset::new(x, y)));
        let node = m.root_node().clone();
        let obs = |n: &TreeNode<f64, usize>| {
            let mut ob = Ob::new();
            subtree_obs(&mut ob, "", n);
            ob.done()
        };
        round_trip(o, &Spec::full(&obs), &node);
    });
    r.inst("f64/usize/root_subtree", |o| go::<f64, usize>(o, |c| c, "root_subtree"));
    r.inst("f64/string/leaf", |o| go::<f64, String>(o, |c| ["a", "b", "c"][c].to_string(), "leaf"));
    r.inst("f32/usize/root_subtree", |o| go::<f32, usize>(o, |c| c, "root_subtree"));
}

fn tree_model(r: &mut Runner) {
    fn go<F: SF, L: linfa::Label + std::fmt::Debug + Default + serde::Serialize + serde::de::DeserializeOwned>(o: &mut Out, lab: fn(usize) -> L, named: bool, depth: Option<usize>) {
        let (m, x) = fitted_tree::<F, L>(lab, named, depth);
        let q = pool::<F>(3, Some(&x));
        let obs = |m: &DecisionTree<F, L>| tree_obs(m, &q);
        round_trip(o, &Spec::full(&obs), &m);
    }
    /// overlapping 4-class blobs: impure splits, so impurity decreases / importances are generic
    /// floating-point numbers (not exactly representable in f32) at many nodes
    fn go_noisy<F: SF>(o: &mut Out, quality: SplitQuality, depth: Option<usize>, seed: u64) {
        let (x, y) = blobs_overlap::<F>(160, 3, 4, seed);
        let ds = Dataset::new(x.clone(), y);
        let m: DecisionTree<F, usize> = o.need("tree fit", DecisionTree::params().split_quality(quality).max_depth(depth).min_weight_leaf(2.0).fit(&ds));
        let q = pool::<F>(3, Some(&x));
        let obs = |m: &DecisionTree<F, usize>| tree_obs(m, &q);
        round_trip(o, &Spec::full(&obs), &m);
    }
    for seed in [201u64, 202, 203] {
        r.inst(&format!("f64/noisy4class/entropy/depth4/seed{}", seed), |o| go_noisy::<f64>(o, SplitQuality::Entropy, Some(4), seed));
        r.inst(&format!("f64/noisy4class/gini/unbounded/seed{}", seed), |o| go_noisy::<f64>(o, SplitQuality::Gini, None, seed));
    }
    r.inst("f64/noisy4class/entropy/unbounded/seed204", |o| go_noisy::<f64>(o, SplitQuality::Entropy, None, 204));
    r.inst("f32/noisy4class/entropy/depth5/seed205", |o| go_noisy::<f32>(o, SplitQuality::Entropy, Some(5), 205));
    r.inst("f64/usize/unbounded", |o| go::<f64, usize>(o, |c| c, false, None));
    r.inst("f64/usize/feature_names/depth3", |o| go::<f64, usize>(o, |c| c, true, Some(3)));
    r.inst("f64/string/depth2", |o| go::<f64, String>(o, |c| ["cat", "dog", "ant"][c].to_string(), true, Some(2)));
    r.inst("f64/bool/depth0(single leaf)", |o| go::<f64, bool>(o, |c| c == 1, false, Some(0)));
    r.inst("f32/usize/depth4", |o| go::<f32, usize>(o, |c| c * 2, false, Some(4)));
}
