//! Round-trip engine of C19: formats, observations, the generic oracle and the instance runner.

use lvmc_core::{guarded, json, Value, Violation};
use serde::de::DeserializeOwned;
use serde::Serialize;

// ---------------------------------------------------------------------------------------------
// formats
// ---------------------------------------------------------------------------------------------
#[derive(Clone, Copy, Debug, PartialEq, Eq)]
pub enum Format {
    Bincode,
    MsgPack,
    MsgPackNamed,
    Cbor,
    Json,
}

pub const BINARY_FORMATS: [Format; 4] = [Format::Bincode, Format::MsgPack, Format::MsgPackNamed, Format::Cbor];

impl Format {
    pub fn name(&self) -> &'static str {
        match self {
            Format::Bincode => "bincode",
            Format::MsgPack => "msgpack",
            Format::MsgPackNamed => "msgpack_named",
            Format::Cbor => "cbor",
            Format::Json => "json",
        }
    }
    pub fn ser<T: Serialize>(&self, v: &T) -> Result<Vec<u8>, String> {
        match self {
            Format::Bincode => bincode::serialize(v).map_err(|e| e.to_string()),
            Format::MsgPack => rmp_serde::to_vec(v).map_err(|e| e.to_string()),
            Format::MsgPackNamed => rmp_serde::to_vec_named(v).map_err(|e| e.to_string()),
            Format::Cbor => {
                let mut buf = Vec::new();
                ciborium::ser::into_writer(v, &mut buf).map_err(|e| e.to_string())?;
                Ok(buf)
            }
            Format::Json => serde_json::to_vec(v).map_err(|e| e.to_string()),
        }
    }
    pub fn de<T: DeserializeOwned>(&self, b: &[u8]) -> Result<T, String> {
        match self {
            Format::Bincode => bincode::deserialize(b).map_err(|e| e.to_string()),
            Format::MsgPack | Format::MsgPackNamed => rmp_serde::from_slice(b).map_err(|e| e.to_string()),
            Format::Cbor => ciborium::de::from_reader(b).map_err(|e| e.to_string()),
            Format::Json => serde_json::from_slice(b).map_err(|e| e.to_string()),
        }
    }
}

// ---------------------------------------------------------------------------------------------
// observations: a named list of bit patterns (floats as canonical f64 bits, NaN collapsed)
// ---------------------------------------------------------------------------------------------
#[derive(Clone, Debug, Default, PartialEq)]
pub struct Ob(pub Vec<(String, bool, Vec<u64>)>); // (name, is_float, bits)

fn canon(x: f64) -> u64 {
    if x.is_nan() {
        0x7ff8_0000_0000_0000
    } else {
        x.to_bits()
    }
}

impl Ob {
    pub fn new() -> Ob {
        Ob(Vec::new())
    }
    /// floats of either width; f32 -> f64 is exact and injective, so equal bits <=> equal values
    pub fn fl<F: linfa::Float>(&mut self, name: &str, it: impl IntoIterator<Item = F>) -> &mut Self {
        self.0.push((name.to_string(), true, it.into_iter().map(|x| canon(x.to_f64().unwrap())).collect()));
        self
    }
    pub fn f1<F: linfa::Float>(&mut self, name: &str, x: F) -> &mut Self {
        self.fl(name, [x])
    }
    pub fn f32s(&mut self, name: &str, it: impl IntoIterator<Item = f32>) -> &mut Self {
        self.0.push((name.to_string(), true, it.into_iter().map(|x| canon(x as f64)).collect()));
        self
    }
    pub fn us(&mut self, name: &str, it: impl IntoIterator<Item = usize>) -> &mut Self {
        self.0.push((name.to_string(), false, it.into_iter().map(|x| x as u64).collect()));
        self
    }
    pub fn u1(&mut self, name: &str, x: usize) -> &mut Self {
        self.us(name, [x])
    }
    pub fn bools(&mut self, name: &str, it: impl IntoIterator<Item = bool>) -> &mut Self {
        self.0.push((name.to_string(), false, it.into_iter().map(|x| x as u64).collect()));
        self
    }
    /// text observation; ndarray's `strides=.., layout=..` (memory layout, not content) is removed
    pub fn st(&mut self, name: &str, s: impl AsRef<str>) -> &mut Self {
        let text = if s.as_ref().contains("layout=") { strip_layout(s.as_ref().to_string()) } else { s.as_ref().to_string() };
        self.0.push((name.to_string(), false, text.bytes().map(|b| b as u64).collect()));
        self
    }
    /// 2-d array with its shape
    pub fn a2<F: linfa::Float, S: ndarray::Data<Elem = F>>(&mut self, name: &str, a: &ndarray::ArrayBase<S, ndarray::Ix2>) -> &mut Self {
        self.us(&format!("{}.shape", name), [a.nrows(), a.ncols()]);
        self.fl(name, a.iter().cloned())
    }
    pub fn a1<F: linfa::Float, S: ndarray::Data<Elem = F>>(&mut self, name: &str, a: &ndarray::ArrayBase<S, ndarray::Ix1>) -> &mut Self {
        self.fl(name, a.iter().cloned())
    }
    pub fn a3<F: linfa::Float, S: ndarray::Data<Elem = F>>(&mut self, name: &str, a: &ndarray::ArrayBase<S, ndarray::Ix3>) -> &mut Self {
        self.us(&format!("{}.shape", name), a.shape().iter().cloned());
        self.fl(name, a.iter().cloned())
    }
    /// all entries of another observation under a prefix
    pub fn sub(&mut self, prefix: &str, o: Ob) -> &mut Self {
        for (n, f, b) in o.0 {
            self.0.push((format!("{}.{}", prefix, n), f, b));
        }
        self
    }
    pub fn done(&mut self) -> Ob {
        std::mem::take(self)
    }
    fn render(is_float: bool, bits: &[u64], at: usize) -> String {
        match bits.get(at) {
            None => "<absent>".to_string(),
            Some(&b) if is_float => format!("{:?} (bits {:#018x})", f64::from_bits(b), b),
            Some(&b) => format!("{}", b),
        }
    }
    /// marker suffix of observations whose CONTENT depends on the hash order of the run (column
    /// order of a freshly fitted vocabulary): compared exactly, but a difference is reported
    /// without content so that the violation text is reproducible
    pub const OPAQUE: &'static str = "(hash_order_of_this_run)";
    /// first difference between two observations: (name, description)
    pub fn diff(&self, other: &Ob) -> Option<(String, String)> {
        for i in 0..self.0.len().max(other.0.len()) {
            match (self.0.get(i), other.0.get(i)) {
                (Some(a), Some(b)) => {
                    if a.0 != b.0 {
                        return Some((a.0.clone(), format!("observation list diverges: original has `{}`, restored has `{}`", a.0, b.0)));
                    }
                    if a.2 != b.2 && a.0.ends_with(Ob::OPAQUE) {
                        return Some((a.0.clone(), format!("`{}` differs between original and restored (the content depends on the hash order of this run and is not shown)", a.0)));
                    }
                    if a.2 != b.2 {
                        let at = (0..a.2.len().max(b.2.len())).find(|&k| a.2.get(k) != b.2.get(k)).unwrap();
                        let texty = !a.1 && (a.2.len() > 1 || b.2.len() > 1) && a.2.iter().chain(b.2.iter()).all(|&c| c == 9 || c == 10 || (32..256).contains(&c));
                        let shown = if texty {
                            // a string observation: show a window around the first difference
                            let lo = at.saturating_sub(40);
                            let win = |v: &Vec<u64>| -> String { String::from_utf8_lossy(&v[lo.min(v.len())..(at + 40).min(v.len())].iter().map(|&c| c as u8).collect::<Vec<u8>>()).into_owned() };
                            format!("first difference at byte {}: original `..{}..` vs restored `..{}..`", at, win(&a.2), win(&b.2))
                        } else {
                            format!("element {} of {}: original {} vs restored {}", at, a.2.len(), Ob::render(a.1, &a.2, at), Ob::render(b.1, &b.2, at))
                        };
                        return Some((a.0.clone(), format!("`{}` differs, {}", a.0, shown)));
                    }
                }
                (Some(a), None) => return Some((a.0.clone(), format!("restored value lacks observation `{}`", a.0))),
                (None, Some(b)) => return Some((b.0.clone(), format!("restored value has extra observation `{}`", b.0))),
                (None, None) => unreachable!(),
            }
        }
        None
    }
    pub fn count_prefixed(&self, p: &str) -> u64 {
        self.0.iter().filter(|(n, _, _)| n.starts_with(p) || n.contains(&format!(".{}", p))).count() as u64
    }
}

// ---------------------------------------------------------------------------------------------
// spec of one serialisable type + how to look at a value of it
// ---------------------------------------------------------------------------------------------
#[derive(Clone, Copy, Debug, PartialEq)]
pub enum DebugMode {
    /// `{:?}` of original and restored must be identical
    Exact,
    /// the type holds a HashMap / HashSet whose iteration order is unspecified: compare the sorted
    /// lines of `{:#?}` (a multiset of field lines, invariant under map order)
    SortedLines,
    /// not compared (reason is stated in the registry entry)
    Off(&'static str),
}

pub struct Spec<'a, T> {
    /// `PartialEq` of the type, where it exists
    pub eq: Option<fn(&T, &T) -> bool>,
    /// public accessors, predictions / transforms on the query pool, check() verdict, refit ...
    pub observe: &'a dyn Fn(&T) -> Ob,
    pub debug: Option<fn(&T) -> String>,
    pub debug_mode: DebugMode,
    /// Err(reason): the bytes-equal fixed point oracle is skipped for this type
    pub fixed_point: Result<(), &'static str>,
    /// the type holds no floats: JSON is a lossless format for it too
    pub json: bool,
    /// non-trivial = the value carries data (not a unit struct / field-less enum variant)
    pub nontrivial: bool,
    /// documented refusal: serialising this value must fail (e.g. `Error::NdShape` is `serde(skip)`)
    pub expect_ser_refusal: bool,
    /// the Debug text depends on the hash order of the run (column indices of a freshly fitted
    /// vocabulary): it is compared, but a difference is reported without quoting it
    pub opaque_debug: bool,
    /// a public call that advances the value (fit_with on an incremental model ...): the history
    /// round trip -> mutate -> round trip must end in a value that observes like mutate(original)
    pub mutate: Option<&'a dyn Fn(&T) -> T>,
    /// unstripped Debug text (layout audit)
    pub debug_raw: Option<fn(&T) -> String>,
}

#[derive(Default, Clone, Debug)]
pub struct Counters {
    pub evals: u64,
    pub nontrivial: u64,
    pub bytes: u64,
    pub eq_checked: u64,
    pub eq_not_reflexive: u64,
    pub debug_checked: u64,
    pub debug_skipped: u64,
    pub observations_compared: u64,
    pub predictions_compared: u64,
    pub refits_compared: u64,
    pub verdicts_compared: u64,
    pub fixed_point_checked: u64,
    pub fixed_point_skipped: u64,
    pub documented_refusals: u64,
    pub guard_checks: u64,
    pub mutation_histories: u64,
    pub history_states: u64,
    pub history_transitions: u64,
    pub histories: u64,
}

/// panic payload: an instance of a further data variant could not be built (not a verdict)
pub struct SkipVariant(pub String);

pub struct Out {
    pub entry: String,
    pub instance: String,
    pub variant: u64,
    pub f_order: bool,
    pub viols: Vec<Violation>,
    pub cnt: Counters,
    /// per format: round trips done
    pub per_format: std::collections::BTreeMap<&'static str, u64>,
    pub sample: Option<Value>,
    /// field audit: path of every serialised leaf field -> was it ever seen with a value that
    /// differs from what `Default` would give (0, false, None, "", empty)? A field that all
    /// instances of an entry leave at its default could be dropped by a round trip unnoticed.
    pub fields: std::collections::BTreeMap<String, FieldSeen>,
    /// arrays with >= 2 dimensions seen inside the ORIGINAL values (from ndarray's Debug output)
    /// and how many of them were not in standard (row-major) layout: memory layout is state that
    /// serialisation drops (a restored array is always row-major)
    pub arrays_2d: u64,
    pub arrays_2d_non_standard: u64,
    /// nominal invariants of learned quantities (weights summing to one ...): name -> was an
    /// instance seen that is off from the nominal value by more than one epsilon?
    pub invariants: std::collections::BTreeMap<String, bool>,
    /// panic text when using the ORIGINAL value panicked (observed as behaviour, listed in evidence)
    pub original_panics: Option<String>,
}

/// what the instances of an entry showed at one serialised leaf path
#[derive(Clone, Debug, Default)]
pub struct FieldSeen {
    /// a value different from what Default gives
    pub nondefault: bool,
    /// null (None) seen: the field is optional
    pub null: bool,
    /// a present scalar equal to zero / false / "" seen (for an optional field: Some(0))
    pub zero: bool,
    /// text leaves (unit enum variants, error kinds ...), first few distinct ones
    pub texts: std::collections::BTreeSet<String>,
    /// a floating-point leaf was seen here
    pub float: bool,
    /// ... and one whose value is NOT exactly representable as f32 (a generic f64)
    pub float_beyond_f32: bool,
    /// ... and one that is not an integer (a count stored in a float is always f32-exact)
    pub float_non_integer: bool,
}
impl FieldSeen {
    pub fn merge(&mut self, o: &FieldSeen) {
        self.nondefault |= o.nondefault;
        self.null |= o.null;
        self.zero |= o.zero;
        self.float |= o.float;
        self.float_beyond_f32 |= o.float_beyond_f32;
        self.float_non_integer |= o.float_non_integer;
        for t in &o.texts {
            if self.texts.len() < 16 {
                self.texts.insert(t.clone());
            }
        }
    }
}

/// feeds a value that does not go through `round_trip` (hand-written guard scenarios) to the field audit
pub fn audit<T: Serialize>(o: &mut Out, v: &T) {
    let mut buf = Vec::new();
    if ciborium::ser::into_writer(v, &mut buf).is_ok() {
        if let Ok(tree) = ciborium::de::from_reader::<ciborium::value::Value, _>(&buf[..]) {
            audit_walk(&tree, "", &mut o.fields);
        }
    }
}

/// fields through which a type contains itself (Box recursion): their segment is dropped from the
/// audit path so that all nodes of a tree are audited as one struct
const RECURSIVE_FIELDS: [&str; 2] = ["left_child", "right_child"];

fn audit_walk(v: &ciborium::value::Value, path: &str, out: &mut std::collections::BTreeMap<String, FieldSeen>) {
    use ciborium::value::Value as V;
    // kind: 0 = null, 1 = present zero-like scalar, 2 = present non-default scalar, 3 = empty container
    let mut leaf = |kind: u8, text: Option<&str>| {
        let e = out.entry(path.to_string()).or_default();
        match kind {
            0 => e.null = true,
            1 => e.zero = true,
            2 => e.nondefault = true,
            _ => {}
        }
        if let Some(t) = text {
            if e.texts.len() < 16 && t.len() <= 40 {
                e.texts.insert(t.to_string());
            }
        }
    };
    match v {
        V::Integer(i) => leaf(if i128::from(*i) != 0 { 2 } else { 1 }, None),
        V::Float(f) => {
            leaf(if *f != 0.0 { 2 } else { 1 }, None);
            let e = out.entry(path.to_string()).or_default();
            e.float = true;
            if f.is_finite() {
                e.float_beyond_f32 |= (*f as f32) as f64 != *f;
                e.float_non_integer |= f.fract() != 0.0;
            }
        }
        V::Bool(b) => leaf(if *b { 2 } else { 1 }, None),
        V::Null => leaf(0, None),
        V::Text(t) => leaf(if !t.is_empty() { 2 } else { 1 }, Some(t)),
        V::Bytes(b) => leaf(if !b.is_empty() { 2 } else { 1 }, None),
        V::Tag(_, inner) => audit_walk(inner, path, out),
        V::Array(a) => {
            if a.is_empty() {
                leaf(3, None);
            }
            for x in a {
                audit_walk(x, &format!("{}[]", path), out);
            }
        }
        V::Map(m) => {
            if m.is_empty() {
                leaf(3, None);
            }
            for (k, x) in m {
                match k {
                    V::Text(t) if RECURSIVE_FIELDS.contains(&t.as_str()) => {
                        // presence of a child is itself a field value (Option<Box<..>>)
                        let e = out.entry(format!("{}.{}", path, t)).or_default();
                        if matches!(x, V::Null) {
                            e.null = true;
                        } else {
                            e.nondefault = true;
                        }
                        audit_walk(x, path, out)
                    }
                    V::Text(t) => audit_walk(x, &format!("{}.{}", path, t), out),
                    _ => audit_walk(x, &format!("{}.*", path), out),
                }
            }
        }
        _ => leaf(2, None),
    }
}

impl Out {
    pub fn new(entry: &str, instance: &str) -> Out {
        Out { entry: entry.to_string(), instance: instance.to_string(), variant: crate::data::variant(), f_order: crate::data::f_order(), viols: Vec::new(), cnt: Counters::default(), per_format: Default::default(), sample: None, fields: Default::default(), arrays_2d: 0, arrays_2d_non_standard: 0, invariants: Default::default(), original_panics: None }
    }
    pub fn case(&self, format: &str) -> Value {
        json!({"entry": self.entry, "instance": self.instance, "variant": self.variant, "f_order": self.f_order, "format": format})
    }
    pub fn viol(&mut self, shape: &str, format: &str, what: String) {
        let sig = format!("{}.{}", self.entry, shape);
        let what = format!("[{} / {} / {}] {}", self.entry, self.instance, format, what);
        self.viols.push(Violation::new(sig, what, self.case(format)));
    }
    /// a problem of the harness itself (fitting the instance failed ...): never a verdict
    pub fn machinery(&self, msg: &str) -> ! {
        if self.variant > 0 || self.f_order {
            // further data variants are best effort: a data set on which the instance cannot be
            // built (fit fails, no such OPTICS sample ...) is counted as out of domain
            std::panic::panic_any(SkipVariant(format!("{} / {} / variant {}: {}", self.entry, self.instance, self.variant, msg)));
        }
        println!("MACHINERY-ERROR C19 entry {} instance {}: {}", self.entry, self.instance, msg);
        std::process::exit(2);
    }
    pub fn need<T, E: std::fmt::Debug>(&self, what: &str, r: Result<T, E>) -> T {
        match r {
            Ok(v) => v,
            Err(e) => self.machinery(&format!("building the instance failed at `{}`: {:?}", what, e)),
        }
    }
}

fn sorted_lines(s: &str) -> String {
    let mut l: Vec<&str> = s.lines().map(|x| x.trim().trim_end_matches(',')).collect();
    l.sort();
    l.join("\n")
}

fn sanitize(n: &str) -> String {
    n.chars().map(|c| if c.is_ascii_alphanumeric() || c == '_' || c == '.' { c } else { '_' }).collect()
}

/// The oracle: for every format, value -> bytes -> value' and
///  (1) value' == value (where PartialEq exists), (2) Debug representation identical,
///  (3) every observation identical bit for bit, (4) bytes(value') == bytes(value),
///  (5) value'' = de(bytes(value')) observes identically again (double round trip).
pub fn round_trip<T: Serialize + DeserializeOwned>(o: &mut Out, spec: &Spec<T>, v: &T) {
    // a panic while using the ORIGINAL value (boundary parameter points on which a fit panics ...)
    // is not C19's subject: the panic text becomes the observation, the restored value must behave
    // the same; such instances are listed in the evidence
    let panic_obs = |p: String| {
        let mut ob = Ob::new();
        ob.st("observe.panic", p);
        ob.done()
    };
    let obs0 = match guarded(|| (spec.observe)(v)) {
        Ok(x) => x,
        Err(p) => {
            o.original_panics = Some(p.clone());
            panic_obs(p)
        }
    };
    let dbg0 = spec.debug.map(|d| d(v));
    if let Some(raw) = spec.debug_raw {
        let (n, bad) = count_layouts(&raw(v));
        o.arrays_2d += n;
        o.arrays_2d_non_standard += bad;
    }
    let mut formats: Vec<Format> = BINARY_FORMATS.to_vec();
    if spec.json {
        formats.push(Format::Json);
    }
    for f in formats {
        let fname = f.name();
        o.cnt.evals += 1;
        if spec.nontrivial {
            o.cnt.nontrivial += 1;
        }
        *o.per_format.entry(fname).or_insert(0) += 1;
        let bytes = match guarded(|| f.ser(v)) {
            Ok(Ok(b)) => {
                if spec.expect_ser_refusal {
                    o.viol("serialize.skipped_variant_accepted", fname, format!("a value documented as not serialisable was serialised into {} bytes", b.len()));
                    continue;
                }
                b
            }
            Ok(Err(e)) => {
                if spec.expect_ser_refusal {
                    o.cnt.documented_refusals += 1;
                } else {
                    o.viol("serialize.error", fname, format!("serialising the value failed: {}", e));
                }
                continue;
            }
            Err(p) => {
                o.viol("serialize.panic", fname, format!("serialising the value panicked: {}", p));
                continue;
            }
        };
        o.cnt.bytes += bytes.len() as u64;
        if f == Format::Cbor {
            if let Ok(tree) = ciborium::de::from_reader::<ciborium::value::Value, _>(&bytes[..]) {
                audit_walk(&tree, "", &mut o.fields);
            }
        }
        let restored: T = match guarded(|| f.de::<T>(&bytes)) {
            Ok(Ok(r)) => r,
            Ok(Err(e)) => {
                o.viol("deserialize.error", fname, format!("the {} bytes just written do not deserialise: {}", bytes.len(), e));
                continue;
            }
            Err(p) => {
                o.viol("deserialize.panic", fname, format!("deserialising panicked: {}", p));
                continue;
            }
        };
        compare(o, spec, v, &restored, &obs0, dbg0.as_deref(), fname, "");
        // fixed point / double round trip
        match guarded(|| f.ser(&restored)) {
            Ok(Ok(b2)) => {
                match spec.fixed_point {
                    Ok(()) => {
                        o.cnt.fixed_point_checked += 1;
                        if b2 != bytes {
                            let at = (0..b2.len().max(bytes.len())).find(|&i| b2.get(i) != bytes.get(i)).unwrap();
                            o.viol("bytes_not_a_fixed_point", fname, format!("re-serialising the restored value gives {} bytes vs {} originally, first difference at byte {}", b2.len(), bytes.len(), at));
                        }
                    }
                    Err(_) => o.cnt.fixed_point_skipped += 1,
                }
                match guarded(|| f.de::<T>(&b2)) {
                    Ok(Ok(r2)) => compare(o, spec, v, &r2, &obs0, dbg0.as_deref(), fname, "second_round_trip."),
                    Ok(Err(e)) => o.viol("second_round_trip.deserialize.error", fname, format!("bytes of the restored value do not deserialise: {}", e)),
                    Err(p) => o.viol("second_round_trip.deserialize.panic", fname, format!("panicked: {}", p)),
                }
            }
            Ok(Err(e)) => o.viol("second_round_trip.serialize.error", fname, format!("re-serialising the restored value failed: {}", e)),
            Err(p) => o.viol("second_round_trip.serialize.panic", fname, format!("re-serialising the restored value panicked: {}", p)),
        }
    }
    // generation history with a mutation in between: x -> rt -> mutate -> rt  vs  mutate(x)
    if let Some(mutate) = spec.mutate {
        match guarded(|| {
            let m0 = mutate(v);
            ((spec.observe)(&m0), spec.debug.map(|d| d(&m0)), m0)
        }) {
            Err(p) => o.machinery(&format!("mutating the ORIGINAL value panicked: {}", p)),
            Ok((obs_m0, dbg_m0, m0)) => {
                for f in BINARY_FORMATS {
                    let fname = f.name();
                    o.cnt.mutation_histories += 1;
                    let r = guarded(|| -> Result<T, String> {
                        let g1: T = f.de(&f.ser(v)?)?;
                        let g1m = mutate(&g1);
                        f.de(&f.ser(&g1m)?)
                    });
                    match r {
                        Ok(Ok(g2)) => compare(o, spec, &m0, &g2, &obs_m0, dbg_m0.as_deref(), fname, "after_mutation_second_generation."),
                        Ok(Err(e)) => o.viol("after_mutation_second_generation.round_trip_error", fname, format!("round trip -> mutate -> round trip failed: {}", e)),
                        Err(p) => o.viol("after_mutation_second_generation.panic", fname, format!("round trip -> mutate -> round trip panicked: {}", p)),
                    }
                }
            }
        }
    }
    if o.sample.is_none() {
        o.sample = Some(json!({
            "entry": o.entry, "instance": o.instance,
            "observations": obs0.0.iter().map(|(n, _, b)| format!("{}[{}]", n, b.len())).collect::<Vec<_>>(),
        }));
    }
}

#[allow(clippy::too_many_arguments)]
fn compare<T>(o: &mut Out, spec: &Spec<T>, v: &T, restored: &T, obs0: &Ob, dbg0: Option<&str>, fname: &str, stage: &str) {
    // PartialEq is only an oracle where it is reflexive on the original (a NaN inside makes
    // `original == original` false; such values are compared through Debug and observations only)
    let reflexive = spec.eq.map_or(false, |eq| guarded(|| eq(v, v)).unwrap_or(false));
    if spec.eq.is_some() && !reflexive {
        o.cnt.eq_not_reflexive += 1;
    }
    if let (Some(eq), true) = (spec.eq, reflexive) {
        o.cnt.eq_checked += 1;
        match guarded(|| eq(restored, v)) {
            Ok(true) => {}
            Ok(false) => o.viol(&format!("{}not_equal_after_round_trip", stage), fname, "`restored == original` is false".to_string()),
            Err(p) => o.viol(&format!("{}eq.panic", stage), fname, format!("comparing restored and original panicked: {}", p)),
        }
    }
    match (spec.debug_mode, spec.debug, dbg0) {
        (DebugMode::Off(_), _, _) | (_, None, _) | (_, _, None) => o.cnt.debug_skipped += 1,
        (mode, Some(d), Some(d0)) => {
            o.cnt.debug_checked += 1;
            let d1 = d(restored);
            let same = if mode == DebugMode::Exact { d1 == d0 } else { sorted_lines(&d1) == sorted_lines(d0) };
            if !same && spec.opaque_debug {
                o.viol(&format!("{}debug_repr_differs", stage), fname, "Debug output differs between original and restored (its text depends on the hash order of this run and is not quoted)".to_string());
            } else if !same {
                let (a, b) = if mode == DebugMode::Exact { (d0.to_string(), d1.clone()) } else { (sorted_lines(d0), sorted_lines(&d1)) };
                let at = a.char_indices().zip(b.char_indices()).find(|(x, y)| x.1 != y.1).map(|(x, _)| x.0).unwrap_or(a.len().min(b.len()));
                let lo = a[..at.min(a.len())].char_indices().rev().nth(60).map(|x| x.0).unwrap_or(0);
                let cut = |s: &str| -> String { s.get(lo..).unwrap_or("").chars().take(160).collect() };
                o.viol(&format!("{}debug_repr_differs", stage), fname, format!("Debug output differs near offset {}: original `..{}` vs restored `..{}`", at, cut(&a), cut(&b)));
            }
        }
    }
    let r1 = guarded(|| (spec.observe)(restored));
    let r1 = match r1 {
        Err(p) if o.original_panics.is_some() => {
            let mut ob = Ob::new();
            ob.st("observe.panic", p);
            Ok(ob.done())
        }
        x => x,
    };
    match r1 {
        Ok(obs1) => {
            o.cnt.observations_compared += obs0.0.len() as u64;
            o.cnt.predictions_compared += obs0.count_prefixed("predict") + obs0.count_prefixed("transform");
            o.cnt.refits_compared += obs0.0.iter().filter(|x| x.0.starts_with("refit.")).count().min(1) as u64;
            o.cnt.verdicts_compared += obs0.count_prefixed("check_verdict");
            if let Some((name, what)) = obs0.diff(&obs1) {
                o.viol(&format!("{}differs.{}", stage, sanitize(&name)), fname, what);
            }
        }
        Err(p) => o.viol(&format!("{}restored_value_panics", stage), fname, format!("using the restored value panicked: {}", p)),
    }
    let _ = v;
}

/// Narrow signature for one characterised failure shape: a refit from restored parameters differs
/// from the refit from the original ones only in the last bits (relative 1e-9), and the original
/// parameters held an array in non-standard memory layout (which a round trip turns into
/// row-major): the estimator's sums run in memory order. Assigned only when the quoted numbers
/// really are that close; any other difference keeps its generic signature.
pub fn narrow_layout_dependent_refit(o: &mut Out, new_shape: &str) {
    let re = regex::Regex::new(r"original (-?[0-9.eE+-]+|NaN|inf|-inf) \(bits [^)]*\) vs restored (-?[0-9.eE+-]+|NaN|inf|-inf) \(bits").unwrap();
    let entry = o.entry.clone();
    for v in o.viols.iter_mut() {
        if !(v.sig.contains(".differs.refit") || v.sig.contains(".differs.checked.refit")) {
            continue;
        }
        if let Some(c) = re.captures(&v.what) {
            if let (Ok(a), Ok(b)) = (c[1].parse::<f64>(), c[2].parse::<f64>()) {
                if (a - b).abs() <= 1e-9 * a.abs().max(b.abs()).max(1.0) {
                    let second = if v.sig.contains("second_round_trip") { "second_round_trip." } else { "" };
                    v.sig = format!("{}.{}{}", entry, second, new_shape);
                }
            }
        }
    }
}

pub fn eq_of<T: PartialEq>(a: &T, b: &T) -> bool {
    a == b
}
/// ndarray's Debug prints `strides=[..], layout=..` — memory layout, not content; it legitimately
/// differs after deserialisation (always standard layout), so it is removed before comparing
fn strip_layout(s: String) -> String {
    static RE: std::sync::OnceLock<regex::Regex> = std::sync::OnceLock::new();
    let re = RE.get_or_init(|| regex::Regex::new(r"strides=\[[^\]]*\], layout=[A-Za-z]+ \(0x[0-9a-f]+\)").unwrap());
    re.replace_all(&s, "strides/layout").into_owned()
}
/// (arrays with ndim >= 2, those of them not C-contiguous) in a raw Debug text
pub fn count_layouts(raw: &str) -> (u64, u64) {
    static RE: std::sync::OnceLock<regex::Regex> = std::sync::OnceLock::new();
    let re = RE.get_or_init(|| regex::Regex::new(r"shape=\[([^\]]*)\], strides=\[[^\]]*\], layout=([A-Za-z]*) \(0x[0-9a-f]+\), (?:const|dynamic) ndim=(\d+)").unwrap());
    let mut n = 0;
    let mut bad = 0;
    for c in re.captures_iter(raw) {
        let ndim: usize = c[3].parse().unwrap_or(0);
        // arrays with a dimension of length <= 1 are both C and F; empty ones have no layout to speak of
        let degenerate = c[1].split(',').filter_map(|x| x.trim().parse::<usize>().ok()).filter(|&d| d > 1).count() < 2;
        if ndim >= 2 && !degenerate {
            n += 1;
            if !c[2].contains('C') {
                bad += 1;
            }
        }
    }
    (n, bad)
}
pub fn dbg_raw<T: std::fmt::Debug>(x: &T) -> String {
    format!("{:?}", x)
}
pub fn dbg_of<T: std::fmt::Debug>(x: &T) -> String {
    strip_layout(format!("{:?}", x))
}
pub fn dbg_pretty<T: std::fmt::Debug>(x: &T) -> String {
    strip_layout(format!("{:#?}", x))
}

impl<'a, T: std::fmt::Debug> Spec<'a, T> {
    /// type with Debug but without (usable) PartialEq
    pub fn plain(observe: &'a dyn Fn(&T) -> Ob) -> Spec<'a, T> {
        Spec { eq: None, observe, debug: Some(dbg_of::<T>), debug_mode: DebugMode::Exact, fixed_point: Ok(()), json: false, nontrivial: true, expect_ser_refusal: false, opaque_debug: false, mutate: None, debug_raw: Some(dbg_raw::<T>) }
    }
}
impl<'a, T: std::fmt::Debug + PartialEq> Spec<'a, T> {
    /// type with PartialEq and Debug, plain data (no maps): all oracles on
    pub fn full(observe: &'a dyn Fn(&T) -> Ob) -> Spec<'a, T> {
        Spec { eq: Some(eq_of::<T>), ..Spec::plain(observe) }
    }
}
impl<'a, T> Spec<'a, T> {
    /// the value holds a HashMap / HashSet: Debug compared as sorted lines, bytes-equal skipped
    pub fn with_maps(mut self) -> Self
    where
        T: std::fmt::Debug,
    {
        self.debug = Some(dbg_pretty::<T>);
        self.debug_mode = DebugMode::SortedLines;
        self.fixed_point = Err("holds a HashMap/HashSet: serialised in iteration order, which is unspecified and differs between two maps with equal content");
        self
    }
    pub fn json(mut self) -> Self {
        self.json = true;
        self
    }
    pub fn mutating(mut self, m: &'a dyn Fn(&T) -> T) -> Self {
        self.mutate = Some(m);
        self
    }
    pub fn opaque_debug(mut self) -> Self {
        self.opaque_debug = true;
        self
    }
    pub fn trivial(mut self) -> Self {
        self.nontrivial = false;
        self
    }
    pub fn no_debug(mut self, why: &'static str) -> Self {
        self.debug_mode = DebugMode::Off(why);
        self
    }
}

// ---------------------------------------------------------------------------------------------
// generation histories for types with a post-deserialisation repair API (serde(skip) fields)
// ---------------------------------------------------------------------------------------------
#[derive(Clone, Copy, Debug, PartialEq)]
pub enum Step {
    /// serialise and deserialise (the skipped field is lost)
    RoundTrip,
    /// the public repair / re-attachment call
    Repair,
    /// use the value (transform): compared with the reference model at this point of the history
    Use,
}

pub struct Repairable<'a, T> {
    /// re-attaches what serialisation cannot carry
    pub repair: &'a dyn Fn(&mut T),
    /// Ok(observation) or Err(error text)
    pub use_it: &'a dyn Fn(&T) -> Result<Ob, String>,
    /// the documented refusal of an unrepaired restored value
    pub guard_error: String,
}

/// Explores EVERY history of length <= `depth` over {RoundTrip, Repair, Use} from the original
/// value, for one format, stepping the real value and the reference model (one bit: "is the
/// function attached?") in lock-step. Reference: RoundTrip clears the bit, Repair sets it, Use
/// leaves it; Use must give the original's observation when the bit is set and the documented
/// guard error when it is clear.
pub fn explore_generations<T: Serialize + DeserializeOwned + Clone>(o: &mut Out, f: Format, original: &T, spec: &Repairable<T>, depth: usize) {
    let fname = f.name();
    let expected = match guarded(|| (spec.use_it)(original)) {
        Ok(Ok(ob)) => ob,
        Ok(Err(e)) => o.machinery(&format!("using the ORIGINAL value failed: {}", e)),
        Err(p) => o.machinery(&format!("using the ORIGINAL value panicked: {}", p)),
    };
    // a state = (value, attached bit, history)
    // breadth-first, so the first history reported for a failure shape is a shortest one
    let mut stack: std::collections::VecDeque<(T, bool, Vec<Step>)> = std::collections::VecDeque::from(vec![(original.clone(), true, Vec::new())]);
    let mut reported: std::collections::BTreeSet<String> = Default::default();
    while let Some((val, attached, hist)) = stack.pop_front() {
        o.cnt.history_states += 1;
        if hist.len() == depth {
            o.cnt.histories += 1;
            continue;
        }
        for step in [Step::RoundTrip, Step::Repair, Step::Use] {
            o.cnt.history_transitions += 1;
            let mut h = hist.clone();
            h.push(step);
            let hs = h.iter().map(|s| format!("{:?}", s)).collect::<Vec<_>>().join(" -> ");
            match step {
                Step::RoundTrip => match guarded(|| f.ser(&val).and_then(|b| f.de::<T>(&b))) {
                    Ok(Ok(next)) => stack.push_back((next, false, h)),
                    Ok(Err(e)) => {
                        if reported.insert(format!("rt{}", e)) {
                            o.viol("generations.round_trip_error", fname, format!("history [{}]: round trip failed: {}", hs, e));
                        }
                    }
                    Err(p) => o.viol("generations.round_trip_panic", fname, format!("history [{}]: round trip panicked: {}", hs, p)),
                },
                Step::Repair => {
                    let mut next = val.clone();
                    match guarded(|| (spec.repair)(&mut next)) {
                        Ok(()) => stack.push_back((next, true, h)),
                        Err(p) => o.viol("generations.repair_panic", fname, format!("history [{}]: the repair call panicked: {}", hs, p)),
                    }
                }
                Step::Use => {
                    let got = guarded(|| (spec.use_it)(&val));
                    let shape = match (&got, attached) {
                        (Err(p), _) => Some(("generations.use_panic", format!("panicked: {}", p))),
                        (Ok(Ok(ob)), true) => expected.diff(ob).map(|(_, what)| ("generations.repaired_generation_differs_from_original", format!("the function is attached but the result differs from the original's: {}", what))),
                        (Ok(Err(e)), true) => Some(("generations.repaired_generation_refuses", format!("the function is attached but the value refuses: {}", e))),
                        (Ok(Err(e)), false) if *e == spec.guard_error => None,
                        (Ok(Err(e)), false) => Some(("generations.unrepaired_generation_wrong_error", format!("unrepaired restored value fails with `{}` instead of `{}`", e, spec.guard_error))),
                        (Ok(Ok(ob)), false) => Some((
                            "generations.unrepaired_generation_answers_without_function",
                            match expected.diff(ob) {
                                Some((_, what)) => format!("a restored value whose function was NOT supplied again in this generation answers instead of refusing with `{}`, and answers differently from the original: {}", spec.guard_error, what),
                                None => format!("a restored value whose function was NOT supplied again in this generation answers instead of refusing with `{}`", spec.guard_error),
                            },
                        )),
                    };
                    if let Some((sig, what)) = shape {
                        // one report per failure shape: the first (= a shortest) history that shows it
                        if reported.insert(sig.to_string()) {
                            o.viol(sig, fname, format!("history [{}]: {}", hs, what));
                        }
                    }
                    stack.push_back((val.clone(), attached, h));
                }
            }
        }
    }
}

// ---------------------------------------------------------------------------------------------
// registry plumbing
// ---------------------------------------------------------------------------------------------
pub enum Mode<'a> {
    List(Vec<String>),
    Run(&'a str, &'a mut Out, bool),
}

pub struct Runner<'a> {
    pub mode: Mode<'a>,
}

impl<'a> Runner<'a> {
    /// declares one instance; in run mode executes it when it is the selected one
    pub fn inst(&mut self, label: &str, f: impl FnOnce(&mut Out)) {
        match &mut self.mode {
            Mode::List(v) => v.push(label.to_string()),
            Mode::Run(sel, out, hit) => {
                if *sel == label {
                    *hit = true;
                    f(&mut **out)
                }
            }
        }
    }
}

pub struct Entry {
    /// registry id, also the signature prefix: `<crate>.<type>`
    pub id: &'static str,
    /// derive sites (file relative to the repo root, type name) exercised directly by this entry
    pub sites: &'static [(&'static str, &'static str)],
    pub run: fn(&mut Runner),
}

impl Entry {
    pub fn instances(&self) -> Vec<String> {
        let mut r = Runner { mode: Mode::List(Vec::new()) };
        (self.run)(&mut r);
        match r.mode {
            Mode::List(v) => v,
            _ => unreachable!(),
        }
    }
    pub fn run_instance(&self, instance: &str) -> Out {
        let mut out = Out::new(self.id, instance);
        let hit;
        {
            let mut r = Runner { mode: Mode::Run(instance, &mut out, false) };
            (self.run)(&mut r);
            hit = matches!(r.mode, Mode::Run(_, _, true));
        }
        if !hit {
            println!("MACHINERY-ERROR C19 entry {} has no instance `{}`", self.id, instance);
            std::process::exit(2);
        }
        out
    }
}
