//! Registry of estimators for C20: each entry fits the estimator on fixed data with fixed
//! hyper-parameters and seed and returns the bit patterns of every learned quantity that the public
//! API exposes, plus predictions / transforms. Everything here is deterministic on the harness
//! side (data come from a fixed LCG, not from an entropy source).
//!
//! ACCESSOR COVERAGE (audited against the `pub fn`s of the fitted-model types in /repo; a public
//! accessor that is not part of a fingerprint is a blind spot - `DecisionTree::features()` was one).
//! Conventions: the ORDER of a returned Vec / slice / iterator is compared as returned unless the
//! rustdoc (or the property statement) says it is unordered; those cases are sorted HERE and marked
//! "(as set)" / "(as map)". `bj` = key-sorted serde form, `bd` = Debug form (only for types without
//! hash collections), both for learned fields that have no accessor.
//!   KMeans            centroids, cluster_count, inertia, predict (matrix + single row), transform
//!   GaussianMixture   weights, means, centroids (alias), covariances, precisions, predict_proba,
//!                     predict; bd: precisions_chol, covar_type
//!   Dbscan            transform(array) for the 3 index types, transform(dataset) targets + records
//!   OpticsAnalysis    iter, as_slice, Index; Sample::{index, core_distance, reachability_distance}; bd
//!   Hierarchical      targets of the returned dataset, kernel size
//!   LinearRegression  params, intercept, predict
//!   Isotonic          predict (training, between, outside); bd: regressor / response (no accessors)
//!   Tweedie           coef, intercept (pub fields), predict; bd: link
//!   ElasticNet        hyperplane, intercept, duality_gap, n_steps, z_score, confidence_95th, predict
//!   MultiTaskEN       hyperplane, intercept, duality_gap, n_steps, predict, z_score / confidence_95th
//!                     (both panic on the unchanged tree - see multitask_elasticnet; panic text compared)
//!   PlsRegression / PlsCanonical / PlsCca   coefficients, weights, loadings, rotations (both halves),
//!                     predict, transform, inverse_transform; bd: scores, means, stds
//!   PlsSvd            weights (both), transform; bd: means, stds
//!   Logistic (binary) params, intercept, labels (pos / neg class + numeric label), set_threshold,
//!                     predict_probabilities, predict
//!   Logistic (multi)  params, intercept, classes (ordered: maps columns to labels),
//!                     predict_probabilities, predict
//!   Svm               alpha, rho (pub fields), nsupport, weighted_sum, predict (matrix + single row),
//!                     Display (exit reason, iterations, obj); bd: r, hyperplane / support vectors,
//!                     probability coefficients
//!   DecisionTree      iter_nodes (documented level order), root_node, features (documented BFT order),
//!                     feature_importance, mean_ / relative_impurity_decrease, max_depth, num_leaves,
//!                     export_to_tikz (default, with_legend, complete(false)), predict;
//!                     TreeNode::{depth, is_leaf, split, prediction, feature_name, children}; bj: every
//!                     stored field incl. the modal class of internal nodes
//!   GaussianNb / MultinomialNb   predict; bj: class_info (a HashMap: compared as map) - no accessors
//!   Ftrl              z, n, get_weights, alpha, beta, l1_ratio, l2_ratio, predict
//!   Pca               components, singular_values, mean, explained_variance(_ratio), predict,
//!                     inverse_transform, transform(dataset)
//!   RandomProjection  transform (3 calling forms) incl. of the identity = the matrix itself (no accessor)
//!   DiffusionMap      embedding, eigvals, estimate_clusters
//!   FastIca           predict; bd: mean, components (no accessors)
//!   LinearScaler      offsets, scales, method, transform (array, dataset + feature_names order)
//!   NormScaler        transform (array, dataset)
//!   FittedWhitener    transformation_matrix, mean, transform (array, dataset)
//!   CountVectorizer / FittedTfIdfVectorizer   nentries, vocabulary + transform (as word -> column map,
//!                     the statement says so), method, fit / fit_vocabulary / stop words / max_features
//!   Platt             predict; bd: A, B and the wrapped model (no accessors)
//!   MultiClassModel   predict (it has no accessors)
//!   ConfusionMatrix   precision, recall, accuracy, f1_score, f_score, mcc, split_one_vs_all,
//!                     split_one_vs_one, Debug (members in their documented sorted order + counts)
//!   dataset helpers   one_vs_all (as map label -> view, incl. each view's label_count), labels,
//!                     combined_labels, label_set (as sets), label_count, label_frequencies (as maps),
//!                     silhouette_score
//!   Kernel            sum, diagonal, dot, size, to_upper_triangle, column
//! Deliberately NOT observed: parameter builders' getters (they echo the caller's input, nothing is
//! learned); `fit_files` / `transform_files` of the vectorisers (file I/O in front of the same code);
//! `force_tokenizer_*_redefinition` (mutators); `Kernel::{view, to_owned, is_linear}` (no learned
//! content); `AppxDbscan` (a type alias of `Dbscan` in this tree; the hash-table based module
//! `appx_dbscan/` is not compiled); the excluded facilities of the statement (k-means||, t-SNE, unseeded FastICA, p-values).

use linfa::prelude::*;
use linfa::Dataset;
use linfa::dataset::{AsSingleTargets, Labels};
use ndarray::{Array1, Array2, Axis};
use rand_xoshiro::rand_core::SeedableRng;
use rand_xoshiro::Xoshiro256Plus;

pub type Fp = Vec<u64>;

pub struct Entry {
    pub name: &'static str,
    /// true: the estimator iterates a hash map somewhere (tie datasets) — used for reporting only
    pub run: fn() -> Result<Fp, String>,
}

// ---------- fingerprint helpers ----------
pub fn b1(fp: &mut Fp, a: &Array1<f64>) {
    fp.push(a.len() as u64);
    fp.extend(a.iter().map(|x| x.to_bits()));
}
pub fn b2(fp: &mut Fp, a: &Array2<f64>) {
    fp.push(a.nrows() as u64);
    fp.push(a.ncols() as u64);
    fp.extend(a.iter().map(|x| x.to_bits()));
}
pub fn b2f32(fp: &mut Fp, a: &Array2<f32>) {
    fp.push(a.nrows() as u64);
    fp.push(a.ncols() as u64);
    fp.extend(a.iter().map(|x| x.to_bits() as u64));
}
pub fn bu(fp: &mut Fp, a: &[usize]) {
    fp.push(a.len() as u64);
    fp.extend(a.iter().map(|&x| x as u64));
}
pub fn bf(fp: &mut Fp, x: f64) {
    fp.push(x.to_bits());
}
pub fn b3(fp: &mut Fp, a: &ndarray::Array3<f64>) {
    fp.extend(a.shape().iter().map(|&d| d as u64));
    fp.extend(a.iter().map(|x| x.to_bits()));
}
/// a `Vec<F>` result (length + bit patterns, in the order returned)
pub fn bv(fp: &mut Fp, a: &[f64]) {
    fp.push(a.len() as u64);
    fp.extend(a.iter().map(|x| x.to_bits()));
}
/// a string result (length + bytes)
pub fn bs(fp: &mut Fp, s: &str) {
    fp.push(s.len() as u64);
    fp.extend(s.bytes().map(|b| b as u64));
}
/// The `Debug` form (`{:#?}`: ndarray does not elide long arrays in the alternate form) of a model
/// whose learned quantities have neither an accessor nor a serde form in this build. ONLY for types
/// without hash collections inside (a derived Debug prints a map in its iteration order); floats are
/// printed in their shortest round-trip form, so two different bit patterns print differently
/// (except NaN payloads).
pub fn bd<T: std::fmt::Debug>(fp: &mut Fp, t: &T) {
    bs(fp, &format!("{:#?}", t));
}
/// `Result<array, E>` accessors (elastic-net z-scores): the Err text is compared like a value
fn bres<T, E: std::fmt::Debug>(fp: &mut Fp, r: Result<T, E>, ok: impl FnOnce(&mut Fp, &T)) {
    match r {
        Ok(v) => {
            fp.push(1);
            ok(fp, &v)
        }
        Err(x) => {
            fp.push(0);
            bs(fp, &e(x))
        }
    }
}


/// Fingerprint of every serialisable field of a model (for learned quantities that have no public
/// accessor, e.g. the class priors of naive Bayes): the serde form with object keys sorted, so that
/// hash-map order inside the model does not show - only the values do.
pub fn bj<T: serde::Serialize>(fp: &mut Fp, t: &T) {
    fn canon(v: &serde_json::Value, out: &mut String) {
        match v {
            serde_json::Value::Object(m) => {
                let mut keys: Vec<&String> = m.keys().collect();
                keys.sort();
                out.push('{');
                for k in keys {
                    out.push_str(k);
                    out.push(':');
                    canon(&m[k], out);
                    out.push(',');
                }
                out.push('}');
            }
            serde_json::Value::Array(a) => {
                out.push('[');
                for x in a {
                    canon(x, out);
                    out.push(',');
                }
                out.push(']');
            }
            other => out.push_str(&other.to_string()),
        }
    }
    let v = serde_json::to_value(t).expect("model serialises");
    let mut s = String::new();
    canon(&v, &mut s);
    fp.push(s.len() as u64);
    fp.extend(s.bytes().map(|b| b as u64));
}

// ---------- deterministic data ----------
struct Lcg(u64);
impl Lcg {
    fn next(&mut self) -> f64 {
        self.0 = self.0.wrapping_mul(6364136223846793005).wrapping_add(1442695040888963407);
        ((self.0 >> 11) as f64) / ((1u64 << 53) as f64)
    }
    fn normalish(&mut self) -> f64 {
        // sum of 4 uniforms, centred
        (self.next() + self.next() + self.next() + self.next() - 2.0) * 1.2
    }
}

/// n rows, p columns, `k` blobs; returns (records, blob id)
pub fn blobs(n: usize, p: usize, k: usize, seed: u64) -> (Array2<f64>, Array1<usize>) {
    let mut g = Lcg(seed);
    let mut x = Array2::zeros((n, p));
    let mut y = Array1::zeros(n);
    for i in 0..n {
        let c = i % k;
        y[i] = c;
        for j in 0..p {
            let centre = ((c * (j + 2)) % 5) as f64 * 2.5 - 3.0;
            x[(i, j)] = centre + g.normalish();
        }
    }
    (x, y)
}

pub fn regression(n: usize, p: usize, t: usize, seed: u64) -> (Array2<f64>, Array2<f64>) {
    let mut g = Lcg(seed);
    let mut x = Array2::zeros((n, p));
    let mut y = Array2::zeros((n, t));
    for i in 0..n {
        for j in 0..p {
            x[(i, j)] = g.normalish() * (1.0 + j as f64);
        }
        for c in 0..t {
            let mut s = 0.5 * (c as f64 + 1.0);
            for j in 0..p {
                s += x[(i, j)] * ((j + c + 1) as f64 * 0.3 - 0.4);
            }
            y[(i, c)] = s + 0.1 * g.normalish();
        }
    }
    (x, y)
}

fn rng(seed: u64) -> Xoshiro256Plus {
    Xoshiro256Plus::seed_from_u64(seed)
}

fn e<T: std::fmt::Debug>(x: T) -> String {
    format!("{:?}", x)
}

// ---------- clustering ----------
/// every accessor of a fitted k-means model
fn kmeans_acc<D: linfa_nn::distance::Distance<f64>>(fp: &mut Fp, model: &linfa_clustering::KMeans<f64, D>) {
    b2(fp, model.centroids());
    b1(fp, model.cluster_count());
    bf(fp, model.inertia());
}
fn kmeans_common(model: &linfa_clustering::KMeans<f64, linfa_nn::distance::L2Dist>, x: &Array2<f64>) -> Fp {
    let mut fp = Fp::new();
    kmeans_acc(&mut fp, model);
    let pred = model.predict(x);
    bu(&mut fp, pred.as_slice().unwrap());
    let tr = model.transform(x);
    b1(&mut fp, &tr);
    // the single-observation form of predict
    for i in 0..x.nrows().min(8) {
        let c: usize = model.predict(&x.row(i));
        fp.push(c as u64);
    }
    fp
}
/// every accessor of a fitted Gaussian mixture; the Debug form shows the Cholesky factors of the
/// precisions (learned, no accessor)
fn gmm_acc(fp: &mut Fp, m: &linfa_clustering::GaussianMixtureModel<f64>) {
    b1(fp, m.weights());
    b2(fp, m.means());
    b2(fp, m.centroids());
    b3(fp, m.covariances());
    b3(fp, m.precisions());
    bd(fp, m);
}
fn gmm_fp(m: &linfa_clustering::GaussianMixtureModel<f64>, x: &Array2<f64>) -> Fp {
    let mut fp = Fp::new();
    gmm_acc(&mut fp, m);
    b2(&mut fp, &m.predict_proba(x));
    bu(&mut fp, m.predict(x).as_slice().unwrap());
    fp
}

fn kmeans_random_big() -> Result<Fp, String> {
    use linfa_clustering::{KMeans, KMeansInit};
    let (x, _) = blobs(2000, 3, 4, 11);
    let ds = Dataset::from(x.clone());
    let m = KMeans::params_with_rng(4, rng(7)).init_method(KMeansInit::Random).n_runs(2).max_n_iterations(20).fit(&ds).map_err(e)?;
    Ok(kmeans_common(&m, &x))
}
fn kmeans_pp_big() -> Result<Fp, String> {
    use linfa_clustering::{KMeans, KMeansInit};
    let (x, _) = blobs(2000, 3, 4, 12);
    let ds = Dataset::from(x.clone());
    let m = KMeans::params_with_rng(4, rng(8)).init_method(KMeansInit::KMeansPlusPlus).n_runs(2).max_n_iterations(20).fit(&ds).map_err(e)?;
    Ok(kmeans_common(&m, &x))
}
fn kmeans_default_seed() -> Result<Fp, String> {
    use linfa_clustering::KMeans;
    let (x, _) = blobs(600, 2, 3, 13);
    let ds = Dataset::from(x.clone());
    let m = KMeans::params(3).max_n_iterations(15).fit(&ds).map_err(e)?;
    Ok(kmeans_common(&m, &x))
}
fn kmeans_precomputed_ties() -> Result<Fp, String> {
    use linfa_clustering::{KMeans, KMeansInit};
    // lattice data with equidistant centroids (ties in closest_centroid)
    let mut v = Vec::new();
    for a in 0..5 {
        for b in 0..5 {
            v.push([a as f64, b as f64]);
        }
    }
    let x = Array2::from_shape_fn((25, 2), |(i, j)| v[i][j]);
    let init = ndarray::array![[0.0, 0.0], [4.0, 4.0], [0.0, 4.0]];
    let ds = Dataset::from(x.clone());
    let m = KMeans::params(3).init_method(KMeansInit::Precomputed(init)).n_runs(1).max_n_iterations(5).fit(&ds).map_err(e)?;
    Ok(kmeans_common(&m, &x))
}
fn kmeans_incremental() -> Result<Fp, String> {
    use linfa_clustering::{IncrKMeansError, KMeans};
    let (x, _) = blobs(900, 2, 3, 14);
    let params = KMeans::params_with_rng(3, rng(3)).tolerance(1e-3);
    let mut model = None;
    for chunk in x.axis_chunks_iter(Axis(0), 300) {
        let ds = Dataset::from(chunk.to_owned());
        model = Some(match params.fit_with(model, &ds) {
            Ok(m) => m,
            Err(IncrKMeansError::NotConverged(m)) => m,
            Err(err) => return Err(e(err)),
        });
    }
    Ok(kmeans_common(&model.unwrap(), &x))
}
fn gmm_kmeans_init() -> Result<Fp, String> {
    use linfa_clustering::GaussianMixtureModel;
    let (x, _) = blobs(400, 2, 3, 15);
    let ds = Dataset::from(x.clone());
    let m = GaussianMixtureModel::params_with_rng(3, rng(5)).n_runs(2).tolerance(1e-4).fit(&ds).map_err(e)?;
    Ok(gmm_fp(&m, &x))
}
/// more than 4096 rows: size thresholds that switch to parallel / different code paths
fn gmm_big_5000() -> Result<Fp, String> {
    use linfa_clustering::GaussianMixtureModel;
    let (x, _) = blobs(5000, 2, 3, 51);
    let ds = Dataset::from(x.clone());
    let m = GaussianMixtureModel::params_with_rng(3, rng(6)).n_runs(1).max_n_iterations(15).tolerance(1e-3).fit(&ds).map_err(e)?;
    Ok(gmm_fp(&m, &x))
}
fn kmeans_pp_5000() -> Result<Fp, String> {
    use linfa_clustering::{KMeans, KMeansInit};
    let (x, _) = blobs(5000, 3, 5, 52);
    let ds = Dataset::from(x.clone());
    let m = KMeans::params_with_rng(5, rng(9)).init_method(KMeansInit::KMeansPlusPlus).n_runs(2).max_n_iterations(10).fit(&ds).map_err(e)?;
    Ok(kmeans_common(&m, &x))
}
fn gmm_random_init_default_seed() -> Result<Fp, String> {
    use linfa_clustering::{GaussianMixtureModel, GmmInitMethod};
    let (x, _) = blobs(300, 2, 2, 16);
    let ds = Dataset::from(x.clone());
    let m = GaussianMixtureModel::params(2).init_method(GmmInitMethod::Random).reg_covariance(1e-3).fit(&ds).map_err(e)?;
    Ok(gmm_fp(&m, &x))
}
fn dbscan_all_indices() -> Result<Fp, String> {
    use linfa_clustering::Dbscan;
    use linfa_nn::{distance::L2Dist, CommonNearestNeighbour};
    let (x, _) = blobs(300, 2, 3, 17);
    let mut fp = Fp::new();
    for nn in [CommonNearestNeighbour::LinearSearch, CommonNearestNeighbour::KdTree, CommonNearestNeighbour::BallTree] {
        let r = Dbscan::params_with(4, L2Dist, nn).tolerance(0.9).transform(&x).map_err(e)?;
        fp.extend(r.iter().map(|o| o.map(|v| v as u64 + 1).unwrap_or(0)));
    }
    // the dataset form: the cluster ids arrive as the targets of the returned dataset
    let r = Dbscan::params(4).tolerance(0.9).transform(Dataset::from(x.clone())).map_err(e)?;
    fp.push(r.targets().len() as u64);
    fp.extend(r.targets().iter().map(|o| o.map(|v| v as u64 + 1).unwrap_or(0)));
    b2(&mut fp, r.records());
    Ok(fp)
}
fn optics_default() -> Result<Fp, String> {
    use linfa_clustering::Optics;
    let (x, _) = blobs(200, 2, 3, 18);
    let r = Optics::params(4).tolerance(2.0).transform(x.view()).map_err(e)?;
    let mut fp = Fp::new();
    let one = |fp: &mut Fp, s: &linfa_clustering::Sample<f64>| {
        fp.push(s.index() as u64);
        fp.push(s.core_distance().map(|v: f64| v.to_bits()).unwrap_or(1));
        fp.push(s.reachability_distance().map(|v: f64| v.to_bits()).unwrap_or(1));
    };
    // the three read paths of the analysis: iter(), as_slice(), Index
    for s in r.iter() {
        one(&mut fp, s);
    }
    fp.push(r.as_slice().len() as u64);
    for s in r.as_slice() {
        one(&mut fp, s);
    }
    for i in 0..r.as_slice().len() {
        one(&mut fp, &r[i]);
    }
    bd(&mut fp, &r);
    Ok(fp)
}
fn hierarchical_with(method: linfa_hierarchical::Method, nclusters: usize) -> Result<Fp, String> {
    use linfa_hierarchical::HierarchicalCluster;
    use linfa_kernel::{Kernel, KernelMethod};
    let (x, _) = blobs(40, 2, 3, 19);
    let kernel = Kernel::params().method(KernelMethod::Gaussian(3.0)).transform(x.view());
    let r = HierarchicalCluster::default().with_method(method).num_clusters(nclusters).transform(kernel).map_err(e)?;
    let mut fp = Fp::new();
    bu(&mut fp, r.targets());
    fp.push(r.records().size() as u64);
    Ok(fp)
}
fn hierarchical_ward3() -> Result<Fp, String> {
    hierarchical_with(linfa_hierarchical::Method::Ward, 3)
}
fn hierarchical_single2() -> Result<Fp, String> {
    hierarchical_with(linfa_hierarchical::Method::Single, 2)
}

// ---------- regression ----------
fn ols() -> Result<Fp, String> {
    use linfa_linear::LinearRegression;
    let (x, y) = regression(80, 3, 1, 21);
    let ds = Dataset::new(x.clone(), y.column(0).to_owned());
    let m = LinearRegression::new().fit(&ds).map_err(e)?;
    let mut fp = Fp::new();
    b1(&mut fp, m.params());
    bf(&mut fp, m.intercept());
    b1(&mut fp, &m.predict(&x));
    Ok(fp)
}
fn isotonic() -> Result<Fp, String> {
    use linfa_linear::IsotonicRegression;
    let (x, y) = regression(60, 1, 1, 22);
    let ds = Dataset::new(x.clone(), y.column(0).to_owned());
    let m = IsotonicRegression::new().fit(&ds).map_err(e)?;
    let mut fp = Fp::new();
    b1(&mut fp, &m.predict(&x));
    // the learned step function (regressor / response arrays) has no accessor: Debug form, and
    // predictions between / outside the training abscissae
    bd(&mut fp, &m);
    let lo = x.iter().cloned().fold(f64::INFINITY, f64::min);
    let hi = x.iter().cloned().fold(f64::NEG_INFINITY, f64::max);
    let q = Array2::from_shape_fn((41, 1), |(i, _)| lo - 1.0 + (hi - lo + 2.0) * i as f64 / 40.0);
    b1(&mut fp, &m.predict(&q));
    Ok(fp)
}
fn tweedie() -> Result<Fp, String> {
    use linfa_linear::TweedieRegressor;
    let (x, y) = regression(80, 2, 1, 23);
    let ypos = y.column(0).mapv(|v| (v * 0.2).exp());
    let ds = Dataset::new(x.clone(), ypos);
    let m = TweedieRegressor::params().power(1.0).alpha(0.1).fit(&ds).map_err(e)?;
    let mut fp = Fp::new();
    b1(&mut fp, &m.coef);
    bf(&mut fp, m.intercept);
    b1(&mut fp, &m.predict(&x));
    bd(&mut fp, &m); // + the link function kept by the model (private)
    Ok(fp)
}
fn elasticnet() -> Result<Fp, String> {
    use linfa_elasticnet::ElasticNet;
    let (x, y) = regression(80, 4, 1, 24);
    let ds = Dataset::new(x.clone(), y.column(0).to_owned());
    let m = ElasticNet::params().penalty(0.1).l1_ratio(0.5).fit(&ds).map_err(e)?;
    let mut fp = Fp::new();
    b1(&mut fp, m.hyperplane());
    bf(&mut fp, m.intercept());
    bf(&mut fp, m.duality_gap());
    fp.push(m.n_steps() as u64);
    b1(&mut fp, &m.predict(&x));
    bres(&mut fp, m.z_score(), |fp, z| b1(fp, z));
    bres(&mut fp, m.confidence_95th(), |fp, c| {
        fp.push(c.len() as u64);
        fp.extend(c.iter().flat_map(|(a, b)| [a.to_bits(), b.to_bits()]));
    });
    Ok(fp)
}
fn multitask_elasticnet() -> Result<Fp, String> {
    use linfa_elasticnet::MultiTaskElasticNet;
    let (x, y) = regression(80, 4, 2, 25);
    let ds = Dataset::new(x.clone(), y);
    let m = MultiTaskElasticNet::params().penalty(0.1).l1_ratio(0.5).fit(&ds).map_err(e)?;
    let mut fp = Fp::new();
    b2(&mut fp, m.hyperplane());
    b1(&mut fp, m.intercept());
    bf(&mut fp, m.duality_gap());
    fp.push(m.n_steps() as u64);
    b2(&mut fp, &m.predict(&x));
    // On the unchanged tree both calls PANIC whenever n_tasks != n_features (the per-feature variance
    // [n_features] is broadcast against the [n_features, n_tasks] hyperplane along the wrong axis;
    // reported, fix proposed in fixes_proposed/multitask_elasticnet_z_score_broadcast.diff). That is a
    // deterministic failure, not a C20 matter: as in the hard-input entries the panic text is compared
    // like a result, and once the accessor works its values are compared.
    match lvmc_core::guarded(|| m.z_score()) {
        Ok(r) => bres(&mut fp, r, |fp, z| b2(fp, z)),
        Err(p) => bs(&mut fp, &p),
    }
    match lvmc_core::guarded(|| m.confidence_95th()) {
        Ok(r) => bres(&mut fp, r, |fp, c| {
            fp.extend(c.shape().iter().map(|&d| d as u64));
            fp.extend(c.iter().flat_map(|(a, b)| [a.to_bits(), b.to_bits()]));
        }),
        Err(p) => bs(&mut fp, &p),
    }
    Ok(fp)
}
fn pls_family() -> Result<Fp, String> {
    use linfa_pls::{PlsCanonical, PlsCca, PlsRegression};
    let (x, y) = regression(60, 4, 2, 26);
    let ds = Dataset::new(x.clone(), y.clone());
    let mut fp = Fp::new();
    // the three wrappers share their accessors (a macro in linfa-pls) but are distinct types
    macro_rules! pls_all {
        ($m:expr) => {{
            let m = $m;
            b2(&mut fp, m.coefficients());
            b2(&mut fp, m.weights().0);
            b2(&mut fp, m.weights().1);
            b2(&mut fp, m.loadings().0);
            b2(&mut fp, m.loadings().1);
            b2(&mut fp, m.rotations().0);
            b2(&mut fp, m.rotations().1);
            b2(&mut fp, &m.predict(&x));
            let t = m.transform(Dataset::new(x.clone(), y.clone()));
            b2(&mut fp, t.records());
            b2(&mut fp, t.targets());
            let back = m.inverse_transform(t);
            b2(&mut fp, back.records());
            b2(&mut fp, back.targets());
            // scores, means and standard deviations have no public accessor
            bd(&mut fp, &m);
        }};
    }
    pls_all!(PlsRegression::<f64>::params(2).fit(&ds).map_err(e)?);
    pls_all!(PlsCanonical::<f64>::params(2).fit(&ds).map_err(e)?);
    pls_all!(PlsCca::<f64>::params(2).fit(&ds).map_err(e)?);
    Ok(fp)
}

// ---------- classification ----------
fn logistic_binary() -> Result<Fp, String> {
    use linfa_logistic::LogisticRegression;
    let (x, y) = blobs(120, 2, 2, 31);
    let ds = Dataset::new(x.clone(), y.mapv(|c| c == 1));
    let m = LogisticRegression::default().alpha(0.5).max_iterations(200).fit(&ds).map_err(e)?;
    let mut fp = Fp::new();
    b1(&mut fp, m.params());
    bf(&mut fp, m.intercept());
    b1(&mut fp, &m.predict_probabilities(&x));
    fp.extend(m.predict(&x).iter().map(|&b| b as u64));
    // which class became the positive one, and the numeric labels given to both
    let l = m.labels();
    fp.extend([l.pos.class as u64, l.pos.label.to_bits(), l.neg.class as u64, l.neg.label.to_bits()]);
    // the same with string classes and a moved threshold
    let names = ["yes", "no"];
    let ds = Dataset::new(x.clone(), y.mapv(|c| names[c].to_string()));
    let m = LogisticRegression::default().alpha(0.5).max_iterations(200).fit(&ds).map_err(e)?;
    b1(&mut fp, m.params());
    bf(&mut fp, m.intercept());
    let l = m.labels();
    bs(&mut fp, &l.pos.class);
    bf(&mut fp, l.pos.label);
    bs(&mut fp, &l.neg.class);
    bf(&mut fp, l.neg.label);
    let m = m.set_threshold(0.3);
    for p in m.predict(&x).iter() {
        bs(&mut fp, p);
    }
    Ok(fp)
}
fn logistic_multi_strings() -> Result<Fp, String> {
    use linfa_logistic::MultiLogisticRegression;
    let (x, y) = blobs(150, 2, 3, 32);
    let names = ["cat", "dog", "ant"];
    let ds = Dataset::new(x.clone(), y.mapv(|c| names[c].to_string()));
    let m = MultiLogisticRegression::default().alpha(0.5).max_iterations(200).fit(&ds).map_err(e)?;
    let mut fp = Fp::new();
    b2(&mut fp, m.params());
    b1(&mut fp, m.intercept());
    b2(&mut fp, &m.predict_probabilities(&x));
    // the class list maps column indices to labels: its order is part of the result
    fp.push(m.classes().len() as u64);
    for c in m.classes() {
        bs(&mut fp, c);
    }
    for p in m.predict(&x).iter() {
        fp.push(p.as_bytes()[0] as u64);
    }
    Ok(fp)
}
fn svm_fp<T: std::fmt::Debug>(m: &linfa_svm::Svm<f64, T>, x: &Array2<f64>) -> Fp {
    let mut fp = Fp::new();
    fp.extend(m.alpha.iter().map(|v| v.to_bits()));
    bf(&mut fp, m.rho);
    fp.push(m.nsupport() as u64);
    for r in x.rows() {
        bf(&mut fp, m.weighted_sum(&r));
    }
    // Display: exit reason, iterations, objective value; Debug: additionally r, the separating
    // hyperplane / support vectors and the Platt coefficients (learned, no accessors)
    bs(&mut fp, &format!("{}", m));
    bd(&mut fp, m);
    fp
}
fn svm_c_bool() -> Result<Fp, String> {
    use linfa_svm::Svm;
    let (x, y) = blobs(80, 2, 2, 33);
    let ds = Dataset::new(x.clone(), y.mapv(|c| c == 1));
    let m = Svm::<f64, bool>::params().gaussian_kernel(2.0).pos_neg_weights(1.0, 2.0).fit(&ds).map_err(e)?;
    let mut fp = svm_fp(&m, &x);
    fp.extend(m.predict(&x).iter().map(|&b| b as u64));
    // the single-observation form of predict
    for r in x.rows().into_iter().take(10) {
        let b: bool = m.predict(r);
        fp.push(b as u64);
    }
    Ok(fp)
}
fn svm_nu_bool_shrinking() -> Result<Fp, String> {
    use linfa_svm::Svm;
    let (x, y) = blobs(80, 2, 2, 34);
    let ds = Dataset::new(x.clone(), y.mapv(|c| c == 1));
    let m = Svm::<f64, bool>::params().linear_kernel().nu_weight(0.3).shrinking(true).fit(&ds).map_err(e)?;
    let mut fp = svm_fp(&m, &x);
    fp.extend(m.predict(&x).iter().map(|&b| b as u64));
    Ok(fp)
}
fn svm_pr() -> Result<Fp, String> {
    use linfa_svm::Svm;
    let (x, y) = blobs(80, 2, 2, 35);
    let ds = Dataset::new(x.clone(), y.mapv(|c| c == 1));
    let m = Svm::<f64, Pr>::params().gaussian_kernel(2.0).fit(&ds).map_err(e)?;
    let mut fp = svm_fp(&m, &x);
    fp.extend(m.predict(&x).iter().map(|p| (**p as f64).to_bits()));
    // the single-observation form of predict
    for r in x.rows().into_iter().take(10) {
        let p: Pr = m.predict(r);
        fp.push((*p as f64).to_bits());
    }
    Ok(fp)
}
fn svm_regression() -> Result<Fp, String> {
    use linfa_svm::Svm;
    let (x, y) = regression(60, 2, 1, 36);
    let ds = Dataset::new(x.clone(), y.column(0).to_owned());
    let m = Svm::<f64, f64>::params().c_svr(1.0, Some(0.1)).linear_kernel().fit(&ds).map_err(e)?;
    let mut fp = svm_fp(&m, &x);
    b1(&mut fp, &m.predict(&x));
    let m = Svm::<f64, f64>::params().nu_svr(0.5, Some(1.0)).gaussian_kernel(5.0).fit(&ds).map_err(e)?;
    fp.extend(svm_fp(&m, &x));
    b1(&mut fp, &m.predict(&x));
    Ok(fp)
}
fn svm_one_class() -> Result<Fp, String> {
    use linfa_svm::Svm;
    let (x, _) = blobs(60, 2, 1, 37);
    let ds = Dataset::new(x.clone(), Array1::from_elem(60, ()));
    let m = Svm::<f64, Pr>::params().gaussian_kernel(3.0).nu_weight(0.2).fit(&ds).map_err(e)?;
    let mut fp = svm_fp(&m, &x);
    fp.extend(m.predict(&x).iter().map(|&b| b as u64));
    Ok(fp)
}
fn tree_fp<L: linfa::Label + std::fmt::Debug + serde::Serialize>(m: &linfa_trees::DecisionTree<f64, L>, x: &Array2<f64>) -> Fp {
    let mut fp = Fp::new();
    let node_fp = |fp: &mut Fp, node: &linfa_trees::TreeNode<f64, L>| {
        fp.push(node.depth() as u64);
        fp.push(node.is_leaf() as u64);
        let (f, v, imp) = node.split();
        fp.push(f as u64);
        fp.push(v.to_bits());
        fp.push(imp.to_bits());
        bs(fp, &format!("{:?}", node.prediction()));
        bs(fp, &format!("{:?}", node.feature_name()));
        // children(): first left then right (documented)
        let ch = node.children();
        fp.push(ch.len() as u64);
        for c in ch {
            match c {
                Some(c) => fp.extend([1, c.depth() as u64, c.is_leaf() as u64, c.split().0 as u64, c.split().1.to_bits()]),
                None => fp.push(0),
            }
        }
    };
    // iter_nodes(): documented level order
    for node in m.iter_nodes() {
        node_fp(&mut fp, node);
    }
    node_fp(&mut fp, m.root_node());
    fp.push(m.max_depth() as u64);
    fp.push(m.num_leaves() as u64);
    bv(&mut fp, &m.feature_importance());
    bv(&mut fp, &m.mean_impurity_decrease());
    bv(&mut fp, &m.relative_impurity_decrease());
    // the features used by the tree, in the documented breadth-first order of their first use
    bu(&mut fp, &m.features());
    // the three renderings of the Tikz export (the legend walks the nodes with a hash set of seen features)
    bs(&mut fp, &m.export_to_tikz().to_string());
    bs(&mut fp, &m.export_to_tikz().with_legend().to_string());
    bs(&mut fp, &m.export_to_tikz().complete(false).to_string());
    // every stored field, including the modal class kept at internal nodes (prediction() hides it there)
    bj(&mut fp, m);
    for p in m.predict(x).iter() {
        for b in format!("{:?}", p).bytes() {
            fp.push(b as u64);
        }
    }
    fp
}
fn tree_blobs() -> Result<Fp, String> {
    use linfa_trees::DecisionTree;
    let (x, y) = blobs(150, 3, 3, 38);
    // named features: TreeNode::feature_name and the Tikz legend show them
    let ds = Dataset::new(x.clone(), y).with_feature_names(vec!["height", "width", "depth"]);
    let m = DecisionTree::params().max_depth(Some(4)).fit(&ds).map_err(e)?;
    Ok(tree_fp(&m, &x))
}
/// leaves with equally weighted labels (modal-class ties) and >= 3 classes (impurity sums)
fn tree_ties() -> Result<Fp, String> {
    use linfa_trees::{DecisionTree, SplitQuality};
    let x = ndarray::array![[0.0], [0.0], [0.0], [1.0], [1.0], [1.0], [2.0], [2.0], [5.0], [5.0], [5.0], [5.0]];
    let y = ndarray::array![0usize, 1, 2, 0, 1, 2, 1, 2, 0, 1, 2, 3];
    let ds = Dataset::new(x.clone(), y);
    let mut fp = Fp::new();
    for q in [SplitQuality::Gini, SplitQuality::Entropy] {
        for depth in [Some(0), Some(1), None] {
            let m = DecisionTree::params().split_quality(q).max_depth(depth).fit(&ds).map_err(e)?;
            fp.extend(tree_fp(&m, &x));
        }
    }
    Ok(fp)
}
fn tree_ties_strings_weighted() -> Result<Fp, String> {
    use linfa_trees::DecisionTree;
    let x = ndarray::array![[0.0, 1.0], [0.0, 1.0], [1.0, 0.0], [1.0, 0.0], [2.0, 2.0], [2.0, 2.0], [2.0, 2.0]];
    let y = ndarray::array!["a".to_string(), "b".to_string(), "b".to_string(), "c".to_string(), "a".to_string(), "b".to_string(), "c".to_string()];
    let ds = Dataset::new(x.clone(), y).with_weights(ndarray::array![1.0f32, 1.0, 2.0, 2.0, 0.5, 0.5, 0.5]);
    let m = DecisionTree::params().fit(&ds).map_err(e)?;
    Ok(tree_fp(&m, &x))
}
/// >= 3 classes and sample weights that are not sums of a few powers of two: every float sum over
/// the class weights is order sensitive
fn tree_weighted_nondyadic() -> Result<Fp, String> {
    use linfa_trees::{DecisionTree, SplitQuality};
    // five heavily overlapping classes, so that the tree has many impure multi-class nodes
    let n = 150;
    let mut g = Lcg(20);
    let mut x = Array2::zeros((n, 3));
    let mut y = Array1::zeros(n);
    for i in 0..n {
        let c = i % 5;
        y[i] = c;
        x[(i, 0)] = c as f64 + 2.5 * g.next();
        x[(i, 1)] = (c % 3) as f64 + 2.0 * g.next();
        x[(i, 2)] = g.next();
    }
    let w = Array1::from_shape_fn(n, |i| 0.1f32 * (1 + (i * 7) % 13) as f32);
    // (this tree splits on all three features: features(), feature_name() and the Tikz legend list several)
    let ds = Dataset::new(x.clone(), y).with_weights(w).with_feature_names(vec!["gamma", "alpha", "beta"]);
    let mut fp = Fp::new();
    for q in [SplitQuality::Gini, SplitQuality::Entropy] {
        let m = DecisionTree::params().split_quality(q).fit(&ds).map_err(e)?;
        fp.extend(tree_fp(&m, &x));
    }
    Ok(fp)
}
fn gaussian_nb_ties() -> Result<Fp, String> {
    use linfa_bayes::GaussianNb;
    // symmetric classes: queries on the symmetry axis have exactly equal posteriors
    let x = ndarray::array![[-2.0, 0.0], [-1.0, 0.0], [1.0, 0.0], [2.0, 0.0], [-2.0, 1.0], [2.0, 1.0], [-1.0, 1.0], [1.0, 1.0]];
    let y = ndarray::array![0usize, 0, 1, 1, 0, 1, 0, 1];
    let ds = Dataset::new(x.clone(), y);
    let m = GaussianNb::params().fit(&ds).map_err(e)?;
    let q = ndarray::array![[0.0, 0.0], [0.0, 0.5], [0.0, 1.0], [-1.0, 0.3], [1.0, 0.3], [0.0, -7.0]];
    let mut fp = Fp::new();
    bu(&mut fp, m.predict(&q).as_slice().unwrap());
    bu(&mut fp, m.predict(&x).as_slice().unwrap());
    bj(&mut fp, &m);
    Ok(fp)
}
fn gaussian_nb_blobs() -> Result<Fp, String> {
    use linfa_bayes::GaussianNb;
    let (x, y) = blobs(150, 3, 3, 39);
    let ds = Dataset::new(x.clone(), y);
    let m = GaussianNb::params().fit(&ds).map_err(e)?;
    let mut fp = Fp::new();
    bu(&mut fp, m.predict(&x).as_slice().unwrap());
    bj(&mut fp, &m);
    Ok(fp)
}
fn nb_unbalanced_classes() -> Result<Fp, String> {
    // class sizes whose relative frequencies do not add up to 1.0 in every summation order
    // (10/20/30 and 8/13/21/34/55): priors, means and variances are learned quantities without
    // accessors - observed through the serde form
    use linfa_bayes::{GaussianNb, MultinomialNb};
    let mut fp = Fp::new();
    for sizes in [&[10usize, 20, 30][..], &[8, 13, 21, 34, 55][..], &[1, 2, 3, 5, 7, 11][..]] {
        let n: usize = sizes.iter().sum();
        let mut y = Array1::zeros(n);
        let mut i = 0;
        for (c, &sz) in sizes.iter().enumerate() {
            for _ in 0..sz {
                y[i] = c;
                i += 1;
            }
        }
        // interleave so that the classes do not arrive sorted
        let perm: Vec<usize> = (0..n).map(|i| (i * 7 + 3) % n).collect();
        let coprime = (1..n).all(|d| n % d != 0 || d == 1 || 7 % d != 0);
        let idx: Vec<usize> = if coprime && n % 7 != 0 { perm } else { (0..n).collect() };
        let (x0, _) = blobs(n, 3, sizes.len(), 61 + n as u64);
        let x = Array2::from_shape_fn((n, 3), |(r, j)| x0[(idx[r], j)].abs() + y[idx[r]] as f64);
        let yy = Array1::from_shape_fn(n, |r| y[idx[r]]);
        let ds = Dataset::new(x.clone(), yy);
        let g = GaussianNb::params().fit(&ds).map_err(e)?;
        bj(&mut fp, &g);
        bu(&mut fp, g.predict(&x).as_slice().unwrap());
        let m = MultinomialNb::params().fit(&ds).map_err(e)?;
        bj(&mut fp, &m);
        bu(&mut fp, m.predict(&x).as_slice().unwrap());
    }
    Ok(fp)
}
fn kmeans_pp_20000() -> Result<Fp, String> {
    // above 2^14 rows (size-gated parallel paths), non-integer data
    use linfa_clustering::{KMeans, KMeansInit};
    let (x, _) = blobs(20000, 5, 4, 14);
    let ds = Dataset::from(x.clone());
    let m = KMeans::params_with_rng(4, rng(10)).init_method(KMeansInit::KMeansPlusPlus).n_runs(1).max_n_iterations(6).fit(&ds).map_err(e)?;
    let mut fp = Fp::new();
    kmeans_acc(&mut fp, &m);
    Ok(fp)
}
fn multinomial_nb_ties() -> Result<Fp, String> {
    use linfa_bayes::MultinomialNb;
    let x = ndarray::array![[2.0, 0.0, 1.0], [0.0, 2.0, 1.0], [1.0, 0.0, 2.0], [0.0, 1.0, 2.0], [3.0, 0.0, 0.0], [0.0, 3.0, 0.0]];
    let y = ndarray::array![0usize, 1, 0, 1, 0, 1];
    let ds = Dataset::new(x.clone(), y);
    let m = MultinomialNb::params().fit(&ds).map_err(e)?;
    let q = ndarray::array![[1.0, 1.0, 0.0], [0.0, 0.0, 4.0], [2.0, 2.0, 2.0], [1.0, 0.0, 0.0], [0.0, 0.0, 0.0]];
    let mut fp = Fp::new();
    bu(&mut fp, m.predict(&q).as_slice().unwrap());
    bu(&mut fp, m.predict(&x).as_slice().unwrap());
    bj(&mut fp, &m);
    Ok(fp)
}
fn ftrl_default_seed() -> Result<Fp, String> {
    use linfa_ftrl::Ftrl;
    let (x, y) = blobs(200, 3, 2, 40);
    let ds = Dataset::new(x.clone(), y.mapv(|c| c == 1));
    let m = Ftrl::params().alpha(0.1).beta(1.0).l1_ratio(0.2).l2_ratio(0.3).fit_with(None, &ds).map_err(e)?;
    let mut fp = Fp::new();
    b1(&mut fp, m.z());
    b1(&mut fp, m.n());
    b1(&mut fp, &m.get_weights());
    for v in [m.alpha(), m.beta(), m.l1_ratio(), m.l2_ratio()] {
        bf(&mut fp, v);
    }
    fp.extend(m.predict(&x).iter().map(|p| (**p as f64).to_bits()));
    Ok(fp)
}

// ---------- decomposition ----------
fn pca() -> Result<Fp, String> {
    use linfa_reduction::Pca;
    let (x, _) = blobs(120, 4, 3, 41);
    let ds = Dataset::from(x.clone());
    let mut fp = Fp::new();
    for whiten in [false, true] {
        let m = Pca::params(2).whiten(whiten).fit(&ds).map_err(e)?;
        b2(&mut fp, m.components());
        b1(&mut fp, m.singular_values());
        b1(&mut fp, m.mean());
        b1(&mut fp, &m.explained_variance());
        b1(&mut fp, &m.explained_variance_ratio());
        let proj = m.predict(&x);
        b2(&mut fp, &proj);
        b2(&mut fp, &m.inverse_transform(proj));
        // the dataset form (Transformer)
        let t = m.transform(Dataset::from(x.clone()));
        b2(&mut fp, t.records());
    }
    Ok(fp)
}
fn random_projections() -> Result<Fp, String> {
    use linfa_reduction::random_projection::{GaussianRandomProjection, SparseRandomProjection};
    let (x, _) = blobs(50, 30, 3, 42);
    let ds = Dataset::from(x.clone());
    let mut fp = Fp::new();
    // the projection matrix has no accessor: transforming the identity returns it entry by entry;
    // all three calling forms of transform (borrowed array, owned array, dataset)
    let eye = Array2::<f64>::eye(30);
    macro_rules! all_forms {
        ($m:expr) => {{
            let m = $m;
            b2(&mut fp, &m.transform(&x));
            b2(&mut fp, &m.transform(&eye));
            b2(&mut fp, &m.transform(x.clone()));
            b2(&mut fp, m.transform(Dataset::from(x.clone())).records());
        }};
    }
    all_forms!(GaussianRandomProjection::<f64>::params().target_dim(5).fit(&ds).map_err(e)?);
    all_forms!(GaussianRandomProjection::<f64>::params_with_rng(rng(9)).target_dim(5).fit(&ds).map_err(e)?);
    all_forms!(SparseRandomProjection::<f64>::params().target_dim(5).fit(&ds).map_err(e)?);
    all_forms!(SparseRandomProjection::<f64>::params_with_rng(rng(9)).target_dim(5).fit(&ds).map_err(e)?);
    // target dimension derived from eps (Johnson-Lindenstrauss bound) instead of given
    let (wide, _) = blobs(6, 400, 2, 43);
    let m = GaussianRandomProjection::<f64>::params().eps(0.9).fit(&Dataset::from(wide.clone())).map_err(e)?;
    b2(&mut fp, &m.transform(&wide));
    Ok(fp)
}
fn diffusion_map() -> Result<Fp, String> {
    use linfa_kernel::{Kernel, KernelMethod, KernelType};
    use linfa_reduction::DiffusionMap;
    let (x, _) = blobs(60, 2, 3, 43);
    let mut fp = Fp::new();
    let kernel = Kernel::params().kind(KernelType::Sparse(5)).method(KernelMethod::Gaussian(2.0)).transform(x.view());
    let m = DiffusionMap::<f64>::params(2).steps(1).transform(&kernel).map_err(e)?;
    b2(&mut fp, m.embedding());
    b1(&mut fp, m.eigvals());
    fp.push(m.estimate_clusters() as u64);
    let kernel = Kernel::params().method(KernelMethod::Gaussian(2.0)).transform(x.view());
    let m = DiffusionMap::<f64>::params(2).steps(2).transform(&kernel).map_err(e)?;
    b2(&mut fp, m.embedding());
    b1(&mut fp, m.eigvals());
    fp.push(m.estimate_clusters() as u64);
    Ok(fp)
}
fn fast_ica_seeded() -> Result<Fp, String> {
    use linfa_ica::fast_ica::{FastIca, GFunc};
    let (x, _) = blobs(200, 3, 2, 44);
    let ds = Dataset::from(x.clone());
    let m = FastIca::params().ncomponents(2).gfunc(GFunc::Logcosh(1.0)).random_state(10).fit(&ds).map_err(e)?;
    let mut fp = Fp::new();
    b2(&mut fp, &m.predict(&x));
    // mean and unmixing matrix have no accessors
    bd(&mut fp, &m);
    Ok(fp)
}

// ---------- preprocessing ----------
fn scalers() -> Result<Fp, String> {
    use linfa_preprocessing::linear_scaling::LinearScaler;
    use linfa_preprocessing::norm_scaling::NormScaler;
    let (x, _) = blobs(50, 3, 2, 45);
    let ds = Dataset::from(x.clone());
    let mut fp = Fp::new();
    for p in [LinearScaler::standard(), LinearScaler::standard_no_mean(), LinearScaler::standard_no_std(), LinearScaler::min_max(), LinearScaler::min_max_range(-1.0, 2.0), LinearScaler::max_abs()] {
        let m = p.fit(&ds).map_err(e)?;
        b1(&mut fp, m.offsets());
        b1(&mut fp, m.scales());
        bd(&mut fp, m.method());
        b2(&mut fp, &m.transform(x.clone()));
        // the dataset form keeps the feature names, in order
        let t = m.transform(Dataset::from(x.clone()).with_feature_names(vec!["c", "a", "b"]));
        b2(&mut fp, t.records());
        for n in t.feature_names() {
            bs(&mut fp, n);
        }
    }
    for s in [NormScaler::l1(), NormScaler::l2(), NormScaler::max()] {
        b2(&mut fp, &s.transform(x.clone()));
        b2(&mut fp, s.transform(Dataset::from(x.clone())).records());
    }
    Ok(fp)
}
fn whiteners() -> Result<Fp, String> {
    use linfa_preprocessing::whitening::Whitener;
    let (x, _) = blobs(60, 3, 2, 46);
    let ds = Dataset::from(x.clone());
    let mut fp = Fp::new();
    for w in [Whitener::pca(), Whitener::zca(), Whitener::cholesky()] {
        let m = w.fit(&ds).map_err(e)?;
        b2(&mut fp, &m.transformation_matrix().to_owned());
        b1(&mut fp, &m.mean().to_owned());
        b2(&mut fp, &m.transform(x.clone()));
        b2(&mut fp, m.transform(Dataset::from(x.clone())).records());
    }
    Ok(fp)
}
/// vocabularies are compared as word -> column maps (the property statement says so):
/// `vocabulary()` lists the words in the (hash-ordered, unspecified) column order, so the fingerprint
/// is built from the columns re-ordered by word and is invariant under the column order, but not
/// under a change of the word SET, of `nentries()`, or of any count / weight in a word's column.
fn vectorizers() -> Result<Fp, String> {
    use linfa_preprocessing::tf_idf_vectorization::TfIdfVectorizer;
    use linfa_preprocessing::CountVectorizer;
    let docs = ndarray::array![
        "one two three four", "two three four five five", "seven one one two", "nine eight seven six",
        "ten ten two", "one six", "three three three nine"
    ];
    // documents that were not seen during fitting (unknown words, repeated known words)
    let unseen = ndarray::array!["two two eleven one", "twelve", "nine nine six one two three", ""];
    let mut fp = Fp::new();
    // word -> column of a dense matrix, columns visited in word order
    fn by_word<T: Copy>(fp: &mut Fp, vocabulary: &[String], dense: &Array2<T>, bits: impl Fn(T) -> u64) {
        let mut order: Vec<usize> = (0..vocabulary.len()).collect();
        order.sort_by(|&a, &b| vocabulary[a].cmp(&vocabulary[b]));
        fp.push(vocabulary.len() as u64);
        fp.push(dense.ncols() as u64);
        for &j in &order {
            bs(fp, &vocabulary[j]);
            fp.extend(dense.column(j).iter().map(|&c| bits(c)));
        }
    }
    let count_fp = |fp: &mut Fp, cv: &CountVectorizer| -> Result<(), String> {
        fp.push(cv.nentries() as u64);
        by_word(fp, cv.vocabulary(), &cv.transform(&docs).map_err(e)?.to_dense(), |c: usize| c as u64);
        by_word(fp, cv.vocabulary(), &cv.transform(&unseen).map_err(e)?.to_dense(), |c: usize| c as u64);
        Ok(())
    };
    let cv = CountVectorizer::params().n_gram_range(1, 2).document_frequency(0.1, 0.9).fit(&docs).map_err(e)?;
    count_fp(&mut fp, &cv)?;
    // capped vocabulary: the SET of kept words must be reproducible as well
    let cv = CountVectorizer::params().max_features(Some(4)).fit(&docs).map_err(e)?;
    count_fp(&mut fp, &cv)?;
    // stop words
    let cv = CountVectorizer::params().stopwords(&["two", "nine"]).fit(&docs).map_err(e)?;
    count_fp(&mut fp, &cv)?;
    // a given vocabulary
    let cv = CountVectorizer::params().fit_vocabulary(&["two", "one", "nine", "zero", "two"]).map_err(e)?;
    count_fp(&mut fp, &cv)?;
    // (the idf method has no public setter: only the default, Smooth, can be fitted)
    for tf in [TfIdfVectorizer::default(), TfIdfVectorizer::default().n_gram_range(1, 2).max_features(Some(6))] {
        let tf = tf.fit(&docs).map_err(e)?;
        fp.push(tf.nentries() as u64);
        bd(&mut fp, tf.method());
        by_word(&mut fp, tf.vocabulary(), &tf.transform(&docs).map_err(e)?.to_dense(), |c: f64| c.to_bits());
        by_word(&mut fp, tf.vocabulary(), &tf.transform(&unseen).map_err(e)?.to_dense(), |c: f64| c.to_bits());
    }
    let tf = TfIdfVectorizer::default().fit_vocabulary(&["two", "one", "nine", "zero"]).map_err(e)?;
    fp.push(tf.nentries() as u64);
    by_word(&mut fp, tf.vocabulary(), &tf.transform(&docs).map_err(e)?.to_dense(), |c: f64| c.to_bits());
    Ok(fp)
}
fn platt() -> Result<Fp, String> {
    use linfa::composing::platt_scaling::Platt;
    use linfa_svm::Svm;
    let (x, y) = blobs(80, 2, 2, 47);
    let ds = Dataset::new(x.clone(), y.mapv(|c| c == 1));
    let reg = Dataset::new(x.clone(), y.mapv(|c| if c == 1 { 1.0 } else { -1.0 }));
    let m = Svm::<f64, f64>::params().c_svr(1.0, Some(0.1)).gaussian_kernel(2.0).fit(&reg).map_err(e)?;
    let p = Platt::params().fit_with(m, &ds).map_err(e)?;
    let mut fp = Fp::new();
    fp.extend(p.predict(&x).iter().map(|p| (**p as f64).to_bits()));
    // the sigmoid coefficients A, B have no accessor (Debug shows them and the wrapped model)
    bd(&mut fp, &p);
    Ok(fp)
}
/// dataset-level helpers whose order could leak hash-map iteration order
fn one_vs_all_and_confusion() -> Result<Fp, String> {
    let (x, y) = blobs(30, 2, 3, 48);
    let ds = Dataset::new(x, y.clone());
    let mut fp = Fp::new();
    // one_vs_all as a label -> binary targets MAP (order of the yielded views is not claimed)
    let mut parts: Vec<(usize, Vec<u64>)> = ds
        .one_vs_all()
        .map_err(e)?
        .into_iter()
        .map(|(l, d)| (l, d.as_single_targets().iter().map(|&b| b as u64).collect()))
        .collect();
    parts.sort();
    for (l, t) in parts {
        fp.push(l as u64);
        fp.extend(t);
    }
    // Labels::labels() and combined_labels() hand back a Vec collected from a HashSet, label_set() /
    // label_count() / label_frequencies() hash collections: dataset-level helpers (not estimator
    // results, outside the statement) whose order nothing documents and which feed one_vs_all, so -
    // like one_vs_all above - they are compared as SETS / MAPS (sorted here).
    let mut labels = ds.labels();
    labels.sort();
    bu(&mut fp, &labels);
    let mut comb = ds.combined_labels(&ndarray::array![7usize, 1, 9]);
    comb.sort();
    bu(&mut fp, &comb);
    for set in ds.label_set() {
        let mut v: Vec<usize> = set.into_iter().collect();
        v.sort();
        bu(&mut fp, &v);
    }
    for map in ds.label_count() {
        let mut v: Vec<(usize, usize)> = map.into_iter().collect();
        v.sort();
        fp.extend(v.into_iter().flat_map(|(l, c)| [l as u64, c as u64]));
    }
    let mut freq: Vec<(usize, u32)> = ds.label_frequencies().into_iter().map(|(l, f)| (l, f.to_bits())).collect();
    freq.sort();
    fp.extend(freq.into_iter().flat_map(|(l, f)| [l as u64, f as u64]));
    // the label counts carried by each one-vs-all view (CountedTargets)
    let mut counts: Vec<(usize, Vec<(bool, usize)>)> = ds
        .one_vs_all()
        .map_err(e)?
        .into_iter()
        .map(|(l, d)| {
            let mut c: Vec<(bool, usize)> = d.label_count().into_iter().flatten().collect();
            c.sort();
            (l, c)
        })
        .collect();
    counts.sort();
    for (l, c) in counts {
        fp.push(l as u64);
        fp.extend(c.into_iter().flat_map(|(b, n)| [b as u64, n as u64]));
    }
    // silhouette score: walks a label -> distance-sum hash map per sample
    {
        use linfa::metrics::SilhouetteScore;
        bf(&mut fp, ds.silhouette_score().map_err(e)?);
    }
    // confusion matrices: the class order (rows / columns) is documented as sorted, so Debug - which
    // prints the members and the matrix - is compared as is
    let cm_fp = |fp: &mut Fp, cm: &linfa::metrics::ConfusionMatrix<bool>| {
        for v in [cm.precision(), cm.recall(), cm.accuracy(), cm.f1_score(), cm.f_score(0.5), cm.mcc()] {
            fp.push(v.to_bits() as u64);
        }
        bs(fp, &format!("{:?}", cm));
    };
    let pred = y.mapv(|c| (c + 1) % 3);
    let pred = Array1::from_shape_fn(pred.len(), |i| if i % 4 == 0 { y[i] } else { pred[i] });
    let cm = pred.confusion_matrix(&y).map_err(e)?;
    for v in [cm.precision(), cm.recall(), cm.accuracy(), cm.f1_score(), cm.f_score(0.5), cm.mcc()] {
        fp.push(v.to_bits() as u64);
    }
    bs(&mut fp, &format!("{:?}", cm));
    let ova = cm.split_one_vs_all();
    fp.push(ova.len() as u64);
    for v in &ova {
        cm_fp(&mut fp, v);
    }
    let ovo = cm.split_one_vs_one();
    fp.push(ovo.len() as u64);
    for v in &ovo {
        cm_fp(&mut fp, v);
    }
    // string labels and a binary matrix (two classes are put in reverse order, documented)
    let names = ["pear", "apple", "fig"];
    let cm = pred.mapv(|c| names[c].to_string()).confusion_matrix(&y.mapv(|c| names[c].to_string())).map_err(e)?;
    bs(&mut fp, &format!("{:?}", cm));
    fp.push(cm.mcc().to_bits() as u64);
    let cm = pred.mapv(|c| c == 0).confusion_matrix(&y.mapv(|c| c == 0)).map_err(e)?;
    cm_fp(&mut fp, &cm);
    Ok(fp)
}

/// the documented multi-class recipe: one_vs_all -> one probability SVM per label -> MultiClassModel.
/// Queries include far-away points where several members saturate to the same probability.
fn multiclass_svm_one_vs_all() -> Result<Fp, String> {
    use linfa::composing::MultiClassModel;
    use linfa_svm::Svm;
    let (x, y) = blobs(90, 2, 3, 49);
    let ds = Dataset::new(x.clone(), y);
    let params = Svm::<f64, Pr>::params().gaussian_kernel(3.0);
    let mut members = Vec::new();
    for (l, d) in ds.one_vs_all().map_err(e)? {
        members.push((l, params.fit(&d).map_err(e)?));
    }
    let model = members.into_iter().collect::<MultiClassModel<_, _>>();
    let q = ndarray::array![[1e3, 1e3], [-1e3, 2e3], [0.0, 0.0], [50.0, -50.0], [2.0, 2.0], [-3.0, 4.5]];
    let mut fp = Fp::new();
    bu(&mut fp, model.predict(&q).as_slice().unwrap());
    bu(&mut fp, model.predict(&x).as_slice().unwrap());
    Ok(fp)
}

/// one-vs-all members in the order `one_vs_all()` yields them (the documented idiom), linear kernels,
/// queries so far out that two members' calibrated probabilities both saturate to exactly 1.0: the
/// multi-class arg-max breaks such ties by member position
fn multiclass_one_vs_all_saturated_ties() -> Result<Fp, String> {
    use linfa::composing::MultiClassModel;
    use linfa_svm::Svm;
    let n = 60;
    let x = Array2::from_shape_fn((n, 2), |(i, j)| {
        let c = i % 3;
        let centre = match (c, j) {
            (1, 0) => 10.0,
            (2, 1) => 10.0,
            _ => 0.0,
        };
        centre + (((i * 7 + j * 3) % 11) as f64 - 5.0) * 0.1
    });
    let y = Array1::from_shape_fn(n, |i| i % 3);
    let ds = Dataset::new(x.clone(), y);
    let params = Svm::<f64, Pr>::params().linear_kernel();
    let mut members = Vec::new();
    for (l, d) in ds.one_vs_all().map_err(e)? {
        members.push((l, params.fit(&d).map_err(e)?));
    }
    let model = members.into_iter().collect::<MultiClassModel<_, _>>();
    let q = ndarray::array![[1e4, 1e4], [1e5, 1e5], [1e4, -1e4], [-1e4, 1e4], [-1e4, -1e4], [5.0, 5.0]];
    let mut fp = Fp::new();
    bu(&mut fp, model.predict(&q).as_slice().unwrap());
    bu(&mut fp, model.predict(&x).as_slice().unwrap());
    Ok(fp)
}

/// many exactly tied candidate splits: every feature column occurs twice (once rescaled), so the
/// best split score of a node is reached by at least two features bit for bit - whichever order the
/// candidates are examined in must not matter
fn tree_duplicated_columns() -> Result<Fp, String> {
    use linfa_trees::{DecisionTree, SplitQuality};
    let (x0, y) = blobs(600, 4, 4, 66);
    let x = Array2::from_shape_fn((600, 8), |(i, j)| if j < 4 { x0[(i, j)] } else { x0[(i, j - 4)] * 2.0 });
    let q = Array2::from_shape_fn((50, 8), |(i, j)| ((i * 13 + j * 7) % 17) as f64 * 0.7 - 5.0);
    let ds = Dataset::new(x.clone(), y);
    let mut fp = Fp::new();
    for sq in [SplitQuality::Gini, SplitQuality::Entropy] {
        let m = DecisionTree::params().split_quality(sq).fit(&ds).map_err(e)?;
        fp.extend(tree_fp(&m, &q));
    }
    Ok(fp)
}

/// History inside one process: an estimator fitted on D1, then on D2 written IN PLACE into the
/// same buffer (same address, shape and strides), must give what a fit on a fresh copy of D2
/// gives. A disagreement is reported by the parent as `history_dependence.<entry>`.
fn history_refit_same_buffer() -> Result<Fp, String> {
    use linfa_bayes::GaussianNb;
    use linfa_clustering::KMeans;
    use linfa_linear::LinearRegression;
    use linfa_logistic::LogisticRegression;
    use linfa_reduction::Pca;
    use linfa_trees::DecisionTree;
    let (d1, y1) = blobs(150, 3, 3, 71);
    let (d2, y2) = blobs(150, 3, 3, 72);
    let fits: Vec<(&str, Box<dyn Fn(&Array2<f64>, &Array1<usize>) -> Result<Fp, String>>)> = vec![
        ("decision_tree", Box::new(|x, y| {
            let m = DecisionTree::params().fit(&DatasetBase::new(x.view(), y.view())).map_err(e)?;
            Ok(tree_fp(&m, x))
        })),
        ("gaussian_nb", Box::new(|x, y| {
            let m = GaussianNb::params().fit(&DatasetBase::new(x.view(), y.view())).map_err(e)?;
            let mut fp = Fp::new();
            bj(&mut fp, &m);
            bu(&mut fp, m.predict(x).as_slice().unwrap());
            Ok(fp)
        })),
        ("kmeans", Box::new(|x, _| {
            let m = KMeans::params_with_rng(3, rng(5)).n_runs(2).max_n_iterations(10).fit(&DatasetBase::from(x.view())).map_err(e)?;
            let mut fp = Fp::new();
            b2(&mut fp, m.centroids());
            bf(&mut fp, m.inertia());
            Ok(fp)
        })),
        ("logistic", Box::new(|x, y| {
            let t = y.mapv(|c| c == 0);
            let m = LogisticRegression::default().alpha(0.5).max_iterations(50).fit(&DatasetBase::new(x.view(), t.view())).map_err(e)?;
            let mut fp = Fp::new();
            b1(&mut fp, m.params());
            bf(&mut fp, m.intercept());
            Ok(fp)
        })),
        ("ols", Box::new(|x, y| {
            let t = y.mapv(|c| c as f64);
            let m = LinearRegression::new().fit(&DatasetBase::new(x.view(), t.view())).map_err(e)?;
            let mut fp = Fp::new();
            b1(&mut fp, m.params());
            bf(&mut fp, m.intercept());
            Ok(fp)
        })),
        ("pca", Box::new(|x, _| {
            let m = Pca::params(3).fit(&DatasetBase::from(x.view())).map_err(e)?;
            let mut fp = Fp::new();
            b2(&mut fp, m.components());
            b1(&mut fp, m.singular_values());
            Ok(fp)
        })),
    ];
    let mut fp = Fp::new();
    for (name, fit) in fits.iter() {
        let mut buf = d1.clone();
        let first = fit(&buf, &y1)?;
        buf.assign(&d2);
        let in_place = fit(&buf, &y2)?;
        let fresh_copy = d2.clone();
        let fresh = fit(&fresh_copy, &y2)?;
        if in_place != fresh {
            return Err(format!(
                "HISTORY-DEPENDENCE: `{}` fitted on D2 after a fit on D1 in the same buffer differs from the fit on a fresh copy of D2 (first differing fingerprint word {:?})",
                name,
                in_place.iter().zip(fresh.iter()).position(|(a, b)| a != b)
            ));
        }
        fp.extend(first);
        fp.extend(in_place);
    }
    Ok(fp)
}

// ---------- hard inputs: fits that do not converge / degenerate data, where fallback, retry and
// error paths run (a reproducible estimator is reproducible there too; Err and panic texts are
// compared like results) ----------
fn diffusion_map_slowly_converging() -> Result<Fp, String> {
    use linfa_kernel::{Kernel, KernelMethod, KernelType};
    use linfa_reduction::DiffusionMap;
    let mut fp = Fp::new();
    // points on a line with a narrow 3-nearest-neighbour kernel: eigenvalues cluster below 1, the
    // truncated eigensolver does not reach its tolerance
    let line = Array2::from_shape_fn((150, 1), |(i, _)| i as f64 * 0.1);
    let kernel = Kernel::params().kind(KernelType::Sparse(3)).method(KernelMethod::Gaussian(0.05)).transform(line.view());
    let m = DiffusionMap::<f64>::params(2).steps(1).transform(&kernel).map_err(e)?;
    b2(&mut fp, m.embedding());
    b1(&mut fp, m.eigvals());
    // two far-apart groups: a (numerically) disconnected graph, eigenvalue 1 is double
    let two = Array2::from_shape_fn((80, 2), |(i, j)| if i < 40 { i as f64 * 0.05 + j as f64 } else { 1000.0 + i as f64 * 0.05 - j as f64 });
    let kernel = Kernel::params().kind(KernelType::Sparse(4)).method(KernelMethod::Gaussian(0.5)).transform(two.view());
    match DiffusionMap::<f64>::params(3).steps(2).transform(&kernel) {
        Ok(m) => {
            b2(&mut fp, m.embedding());
            b1(&mut fp, m.eigvals());
        }
        Err(x) => fp.extend(e(x).bytes().map(|b| b as u64)),
    }
    Ok(fp)
}
fn pca_hard() -> Result<Fp, String> {
    use linfa_reduction::Pca;
    let mut fp = Fp::new();
    // k close to p on a small, nearly low-rank matrix: the truncated solver breaks down here (known
    // finding of C18) - whatever it returns has to be the same every time
    let x = Array2::from_shape_fn((16, 5), |(i, j)| {
        let (a, b) = ((i % 4) as f64, (i / 4) as f64);
        a * (j as f64 + 1.0) + b * ((j * j) as f64 - 2.0) + 1e-7 * (((i * 7 + j * 3) % 11) as f64)
    });
    let ds = Dataset::from(x.clone());
    for k in [2usize, 3, 4] {
        for whiten in [false, true] {
            match Pca::params(k).whiten(whiten).fit(&ds) {
                Ok(m) => {
                    b2(&mut fp, m.components());
                    b1(&mut fp, m.singular_values());
                    b1(&mut fp, m.mean());
                    b1(&mut fp, &m.explained_variance());
                    b1(&mut fp, &m.explained_variance_ratio());
                    let proj = m.predict(&x);
                    b2(&mut fp, &proj);
                    b2(&mut fp, &m.inverse_transform(proj));
                }
                Err(x) => fp.extend(e(x).bytes().map(|b| b as u64)),
            }
        }
    }
    Ok(fp)
}
fn iterative_fits_stopped_early() -> Result<Fp, String> {
    use linfa_clustering::{GaussianMixtureModel, KMeans};
    use linfa_elasticnet::ElasticNet;
    use linfa_ica::fast_ica::{FastIca, GFunc};
    use linfa_logistic::{LogisticRegression, MultiLogisticRegression};
    let mut fp = Fp::new();
    let err = |fp: &mut Fp, s: String| fp.extend(s.bytes().map(|b| b as u64));
    // k-means: more clusters than distinct points (empty clusters), and an iteration budget of 1
    let dup = Array2::from_shape_fn((40, 2), |(i, j)| ((i % 3) * (j + 1)) as f64);
    let ds = Dataset::from(dup.clone());
    for (k, it) in [(5usize, 50u64), (3, 1), (2, 1)] {
        match KMeans::params_with_rng(k, rng(3)).max_n_iterations(it).n_runs(2).tolerance(1e-12).fit(&ds) {
            Ok(m) => {
                kmeans_acc(&mut fp, &m);
                bu(&mut fp, m.predict(&dup).as_slice().unwrap());
            }
            Err(x) => err(&mut fp, e(x)),
        }
    }
    // Gaussian mixture on duplicated points with a tiny regularisation, and stopped after 1 iteration
    for (k, reg, it) in [(3usize, 1e-12, 20u64), (2, 1e-6, 1), (4, 0.0, 5)] {
        match GaussianMixtureModel::params_with_rng(k, rng(5)).reg_covariance(reg).max_n_iterations(it).n_runs(2).fit(&ds) {
            Ok(m) => {
                gmm_acc(&mut fp, &m);
                b2(&mut fp, &m.predict_proba(&dup));
                bu(&mut fp, m.predict(&dup).as_slice().unwrap());
            }
            Err(x) => err(&mut fp, e(x)),
        }
    }
    // separable logistic regression without penalty, few iterations: stops at the budget
    let (x, y) = blobs(90, 2, 3, 77);
    let sep = Dataset::new(x.clone(), y.mapv(|c| c == 0));
    match LogisticRegression::default().alpha(0.0).max_iterations(3).fit(&sep) {
        Ok(m) => {
            b1(&mut fp, m.params());
            bf(&mut fp, m.intercept());
        }
        Err(x) => err(&mut fp, e(x)),
    }
    let multi = Dataset::new(x.clone(), y.clone());
    match MultiLogisticRegression::default().alpha(0.0).max_iterations(3).fit(&multi) {
        Ok(m) => {
            b2(&mut fp, m.params());
            b1(&mut fp, m.intercept());
        }
        Err(x) => err(&mut fp, e(x)),
    }
    // elastic net stopped by its iteration budget, collinear columns
    let col = Array2::from_shape_fn((30, 3), |(i, j)| if j == 2 { 2.0 * i as f64 } else { i as f64 + (j * (i % 4)) as f64 });
    let t = Array1::from_shape_fn(30, |i| (i % 7) as f64 - 0.3 * i as f64);
    let ds = Dataset::new(col.clone(), t);
    match ElasticNet::params().penalty(1e-6).l1_ratio(1.0).max_iterations(4).tolerance(1e-14).fit(&ds) {
        Ok(m) => {
            b1(&mut fp, m.hyperplane());
            bf(&mut fp, m.intercept());
            bf(&mut fp, m.duality_gap());
            fp.push(m.n_steps() as u64);
            bres(&mut fp, m.z_score(), |fp, z| b1(fp, z));
            bres(&mut fp, m.confidence_95th(), |fp, c| fp.extend(c.iter().flat_map(|(a, b)| [a.to_bits(), b.to_bits()])));
        }
        Err(x) => err(&mut fp, e(x)),
    }
    // FastICA stopped after two iterations
    let (x, _) = blobs(100, 3, 2, 78);
    match FastIca::params().ncomponents(3).gfunc(GFunc::Cube).max_iter(2).tol(1e-14).random_state(4).fit(&Dataset::from(x.clone())) {
        Ok(m) => {
            b2(&mut fp, &m.predict(&x));
            bd(&mut fp, &m);
        }
        Err(x) => err(&mut fp, e(x)),
    }
    Ok(fp)
}

// ---------- further members of the estimator families (non-default metric / element type / variant) ----------
fn pls_svd() -> Result<Fp, String> {
    use linfa_pls::PlsSvd;
    let (x, y) = regression(60, 4, 2, 27);
    let ds = Dataset::new(x.clone(), y.clone());
    let mut fp = Fp::new();
    for scale in [true, false] {
        let m = PlsSvd::<f64>::params(2).scale(scale).fit(&ds).map_err(e)?;
        b2(&mut fp, m.weights().0);
        b2(&mut fp, m.weights().1);
        let t = m.transform(Dataset::new(x.clone(), y.clone()));
        b2(&mut fp, t.records());
        b2(&mut fp, t.targets());
        // centring / scaling vectors have no accessors
        bd(&mut fp, &m);
    }
    Ok(fp)
}
fn kmeans_l1_big_f32() -> Result<Fp, String> {
    use linfa_clustering::{KMeans, KMeansInit};
    use linfa_nn::distance::L1Dist;
    let (x, _) = blobs(2000, 3, 4, 13);
    let x32 = x.mapv(|v| v as f32);
    let ds = Dataset::from(x32.clone());
    let m = KMeans::params_with(4, rng(9), L1Dist).init_method(KMeansInit::KMeansPlusPlus).n_runs(2).max_n_iterations(15).fit(&ds).map_err(e)?;
    let mut fp = Fp::new();
    b2f32(&mut fp, m.centroids());
    fp.push(m.inertia().to_bits() as u64);
    fp.extend(m.cluster_count().iter().map(|v| v.to_bits() as u64));
    bu(&mut fp, m.predict(&x32).as_slice().unwrap());
    fp.extend(m.transform(&x32).iter().map(|v| v.to_bits() as u64));
    Ok(fp)
}
fn kernels_sparse_all_indices() -> Result<Fp, String> {
    use linfa_kernel::{Kernel, KernelMethod, KernelType};
    use linfa_nn::CommonNearestNeighbour;
    // a lattice: many exactly equidistant neighbours, so the neighbour choice under ties must be reproducible
    let x = Array2::from_shape_fn((49, 2), |(i, j)| if j == 0 { (i % 7) as f64 } else { (i / 7) as f64 });
    let mut fp = Fp::new();
    for nn in [CommonNearestNeighbour::LinearSearch, CommonNearestNeighbour::KdTree, CommonNearestNeighbour::BallTree] {
        let k = Kernel::params().kind(KernelType::Sparse(3)).method(KernelMethod::Gaussian(1.0)).nn_algo(nn).transform(x.view());
        b1(&mut fp, &k.sum());
        b1(&mut fp, &k.diagonal());
        b2(&mut fp, &k.dot(&x.view()));
        fp.push(k.size() as u64);
        bv(&mut fp, &k.to_upper_triangle());
        for i in [0, 24, 48] {
            bv(&mut fp, &k.column(i));
        }
    }
    Ok(fp)
}
fn svm_poly_f32_and_logistic_f32() -> Result<Fp, String> {
    use linfa_logistic::LogisticRegression;
    use linfa_svm::Svm;
    let (x, y) = blobs(80, 2, 2, 35);
    let x32 = x.mapv(|v| v as f32);
    let ds = Dataset::new(x32.clone(), y.mapv(|c| c == 1));
    let mut fp = Fp::new();
    let m = Svm::<f32, bool>::params().pos_neg_weights(1.0, 2.0).polynomial_kernel(1.0, 2.0).fit(&ds).map_err(e)?;
    fp.extend(m.predict(&x32).iter().map(|&b| b as u64));
    fp.push(m.nsupport() as u64);
    fp.extend(m.alpha.iter().map(|v| v.to_bits() as u64));
    fp.push(m.rho.to_bits() as u64);
    bs(&mut fp, &format!("{}", m));
    bd(&mut fp, &m);
    let m = LogisticRegression::default().alpha(1.0).max_iterations(50).fit(&ds).map_err(e)?;
    fp.extend(m.params().iter().map(|v| v.to_bits() as u64));
    fp.push(m.intercept().to_bits() as u64);
    let l = m.labels();
    fp.extend([l.pos.class as u64, l.pos.label.to_bits() as u64, l.neg.class as u64, l.neg.label.to_bits() as u64]);
    fp.extend(m.predict_probabilities(&x32).iter().map(|v| v.to_bits() as u64));
    Ok(fp)
}

// ---------- boundary values of the seed itself: 0 and the largest value are explicit, legal seeds ----------
fn seeds_at_boundary_values() -> Result<Fp, String> {
    use linfa_clustering::{GaussianMixtureModel, GmmInitMethod, KMeans, KMeansInit};
    use linfa_ica::fast_ica::{FastIca, GFunc};
    use linfa_reduction::random_projection::{GaussianRandomProjection, SparseRandomProjection};
    let mut fp = Fp::new();
    let (x, y) = blobs(150, 3, 3, 51);
    let ds = Dataset::from(x.clone());
    for seed in [0usize, 1, usize::MAX] {
        for g in [GFunc::Logcosh(1.0), GFunc::Exp, GFunc::Cube] {
            match FastIca::params().ncomponents(2).gfunc(g).max_iter(50).random_state(seed).fit(&ds) {
                Ok(m) => b2(&mut fp, &m.predict(&x)),
                Err(x) => fp.extend(e(x).bytes().map(|b| b as u64)),
            }
        }
    }
    for seed in [0u64, 1, u64::MAX] {
        let m = KMeans::params_with_rng(3, rng(seed)).init_method(KMeansInit::Random).n_runs(2).max_n_iterations(10).fit(&ds).map_err(e)?;
        kmeans_acc(&mut fp, &m);
        let m = KMeans::params_with_rng(3, rng(seed)).init_method(KMeansInit::KMeansPlusPlus).n_runs(1).max_n_iterations(10).fit(&ds).map_err(e)?;
        kmeans_acc(&mut fp, &m);
        match GaussianMixtureModel::params_with_rng(2, rng(seed)).init_method(GmmInitMethod::Random).reg_covariance(1e-3).max_n_iterations(20).fit(&ds) {
            Ok(m) => gmm_acc(&mut fp, &m),
            Err(x) => fp.extend(e(x).bytes().map(|b| b as u64)),
        }
        let m = GaussianRandomProjection::<f64>::params_with_rng(rng(seed)).target_dim(2).fit(&ds).map_err(e)?;
        b2(&mut fp, &m.transform(&x));
        let m = SparseRandomProjection::<f64>::params_with_rng(rng(seed)).target_dim(2).fit(&ds).map_err(e)?;
        b2(&mut fp, &m.transform(&x));
        let dsb = Dataset::new(x.clone(), y.mapv(|c| c == 1));
        let m = linfa_ftrl::Ftrl::params_with_rng(rng(seed)).alpha(0.1).fit_with(None, &dsb).map_err(e)?;
        b1(&mut fp, &m.get_weights());
        b1(&mut fp, m.z());
        b1(&mut fp, m.n());
    }
    Ok(fp)
}

pub fn registry() -> Vec<Entry> {
    macro_rules! ent {
        ($($f:ident),* $(,)?) => { vec![$(Entry { name: stringify!($f), run: $f }),*] };
    }
    ent![
        kmeans_random_big, kmeans_pp_big, kmeans_default_seed, kmeans_precomputed_ties, kmeans_incremental,
        gmm_kmeans_init, gmm_big_5000, kmeans_pp_5000, gmm_random_init_default_seed, dbscan_all_indices, optics_default,
        hierarchical_ward3, hierarchical_single2,
        ols, isotonic, tweedie, elasticnet, multitask_elasticnet, pls_family,
        logistic_binary, logistic_multi_strings,
        svm_c_bool, svm_nu_bool_shrinking, svm_pr, svm_regression, svm_one_class,
        tree_blobs, tree_ties, tree_ties_strings_weighted, tree_weighted_nondyadic,
        gaussian_nb_ties, gaussian_nb_blobs, multinomial_nb_ties, ftrl_default_seed,
        pca, random_projections, diffusion_map, fast_ica_seeded,
        diffusion_map_slowly_converging, pca_hard, iterative_fits_stopped_early,
        seeds_at_boundary_values, nb_unbalanced_classes, kmeans_pp_20000, pls_svd, kmeans_l1_big_f32, kernels_sparse_all_indices, svm_poly_f32_and_logistic_f32,
        scalers, whiteners, vectorizers, platt, one_vs_all_and_confusion, multiclass_svm_one_vs_all, multiclass_one_vs_all_saturated_ties,
        tree_duplicated_columns, history_refit_same_buffer,
    ]
}
