//! C20 — same data, parameters and seed give bit-identical results on every run.
//!
//! Parent mode (default): owns the three nondeterminism sources (DESIGN.md §4 C20):
//!   E1 repeated fits in-process and in fresh child processes (natural entropy),
//!   E2 child processes under LD_PRELOAD=getrandom_shim.so with VERIF_HASH_SEED enumerated, until
//!      the observation hooks report every key order (<= 3 keys) at every order-sensitive site,
//!   E3 child processes with RAYON_NUM_THREADS = 1..16,
//!   E4 the schedule explorer `c20s` (controlled rayon-core stand-in; binary path in VERIF_C20S_BIN).
//! Child mode (`--child <reps>`): runs the whole estimator registry `reps` times and prints one JSON
//! line with the fingerprint hashes and the hook log.

mod registry;

use lvmc_core::{guarded, json, Ctx, Level, Value, Violation};
use std::collections::{BTreeMap, BTreeSet};
use std::process::Command;

fn fnv(v: &[u64]) -> u64 {
    let mut h: u64 = 0xcbf29ce484222325;
    for x in v {
        for b in x.to_le_bytes() {
            h ^= b as u64;
            h = h.wrapping_mul(0x100000001b3);
        }
    }
    h
}

fn child(reps: usize) {
    let mut out = serde_json::Map::new();
    for e in registry::registry() {
        let mut hs = Vec::new();
        for _ in 0..reps {
            let h = match guarded(|| (e.run)()) {
                Ok(Ok(fp)) => format!("{:016x}", fnv(&fp)),
                Ok(Err(s)) => format!("ERR:{}", s),
                Err(p) => format!("PANIC:{}", p),
            };
            hs.push(h);
        }
        out.insert(e.name.to_string(), json!(hs));
    }
    let hooks: Vec<Value> = linfa::verif_hooks::take_log()
        .into_iter()
        .map(|(site, order)| json!([site, order]))
        .collect();
    println!("{}", json!({"fps": out, "hooks": hooks}));
}

#[derive(Clone, Debug, PartialEq, Eq, PartialOrd, Ord)]
struct Env {
    /// None = no shim (natural entropy)
    hash_seed: Option<u64>,
    threads: Option<usize>,
}

impl Env {
    fn to_json(&self) -> Value {
        json!({"hash_seed": self.hash_seed, "threads": self.threads})
    }
    fn from_json(v: &Value) -> Env {
        Env {
            hash_seed: v.get("hash_seed").and_then(|x| x.as_u64()),
            threads: v.get("threads").and_then(|x| x.as_u64()).map(|x| x as usize),
        }
    }
}

struct ChildOut {
    fps: BTreeMap<String, Vec<String>>,
    hooks: Vec<(String, Vec<String>)>,
}

fn shim_path() -> String {
    format!("{}/preload/getrandom_shim.so", lvmc_core::ctx::verif_root().display())
}

fn run_child(env: &Env, reps: usize) -> Result<ChildOut, String> {
    let exe = std::env::current_exe().map_err(|e| e.to_string())?;
    let mut cmd = Command::new(exe);
    cmd.arg("--child").arg(reps.to_string());
    cmd.env_remove("LD_PRELOAD").env_remove("VERIF_HASH_SEED").env_remove("RAYON_NUM_THREADS");
    if let Some(s) = env.hash_seed {
        // the shim lives in the real /verif tree (built by setup.sh), also for isolated mutant runs
        let mut p = shim_path();
        if !std::path::Path::new(&p).exists() {
            p = "/verif/preload/getrandom_shim.so".to_string();
        }
        if !std::path::Path::new(&p).exists() {
            return Err(format!("{} missing (run /verif/setup.sh)", p));
        }
        cmd.env("LD_PRELOAD", p).env("VERIF_HASH_SEED", s.to_string());
    }
    if let Some(t) = env.threads {
        cmd.env("RAYON_NUM_THREADS", t.to_string());
    }
    let out = cmd.output().map_err(|e| e.to_string())?;
    if !out.status.success() {
        return Err(format!("child exited with {:?}: {}", out.status.code(), String::from_utf8_lossy(&out.stderr).chars().take(300).collect::<String>()));
    }
    let txt = String::from_utf8_lossy(&out.stdout);
    let line = txt.lines().last().unwrap_or("");
    let v: Value = serde_json::from_str(line).map_err(|e| format!("child output not JSON: {} ({})", e, line.chars().take(200).collect::<String>()))?;
    let mut fps = BTreeMap::new();
    if let Some(m) = v.get("fps").and_then(|m| m.as_object()) {
        for (k, a) in m {
            fps.insert(k.clone(), a.as_array().map(|a| a.iter().map(|x| x.as_str().unwrap_or("").to_string()).collect()).unwrap_or_default());
        }
    }
    let mut hooks = Vec::new();
    if let Some(a) = v.get("hooks").and_then(|h| h.as_array()) {
        for h in a {
            let site = h[0].as_str().unwrap_or("").to_string();
            let order: Vec<String> = h[1].as_array().map(|a| a.iter().map(|x| x.as_str().unwrap_or("").to_string()).collect()).unwrap_or_default();
            hooks.push((site, order));
        }
    }
    Ok(ChildOut { fps, hooks })
}

fn run_children(envs: &[Env], reps: usize) -> Vec<(Env, Result<ChildOut, String>)> {
    // children are independent processes; run up to 16 at a time, results kept in `envs` order
    let next = std::sync::atomic::AtomicUsize::new(0);
    let res: std::sync::Mutex<Vec<(usize, Env, Result<ChildOut, String>)>> = std::sync::Mutex::new(Vec::new());
    std::thread::scope(|sc| {
        for _ in 0..16 {
            sc.spawn(|| loop {
                let i = next.fetch_add(1, std::sync::atomic::Ordering::SeqCst);
                if i >= envs.len() {
                    break;
                }
                let r = run_child(&envs[i], reps);
                res.lock().unwrap().push((i, envs[i].clone(), r));
            });
        }
    });
    let mut v = res.into_inner().unwrap();
    v.sort_by_key(|x| x.0);
    v.into_iter().map(|(_, e, r)| (e, r)).collect()
}

fn factorial(m: usize) -> usize {
    (1..=m).product::<usize>().max(1)
}

fn machinery(msg: &str) -> ! {
    println!("MACHINERY-ERROR {}", msg);
    std::process::exit(2);
}

/// Replay of one recorded disagreement.
fn replay_value(v: &Value) -> Vec<Violation> {
    let kind = v.get("kind").and_then(|k| k.as_str()).unwrap_or("");
    if kind == "schedule" {
        let bin = std::env::var("VERIF_C20S_BIN").unwrap_or_else(|_| "/verif/harness-sched/target/release/c20s".into());
        let script: Vec<String> = v["script"].as_array().map(|a| a.iter().map(|x| x.to_string()).collect()).unwrap_or_default();
        let out = Command::new(&bin)
            .arg("one")
            .arg(v["seam"].as_str().unwrap_or(""))
            .arg(v["n"].to_string())
            .arg(v["threads"].to_string())
            .arg(script.join(","))
            .output();
        let Ok(out) = out else { machinery("cannot run c20s") };
        let txt = String::from_utf8_lossy(&out.stdout);
        let r: Value = serde_json::from_str(txt.lines().last().unwrap_or("")).unwrap_or(json!({}));
        if r.get("fp") != r.get("default_fp") {
            return vec![Violation::new(
                format!("schedule_dependent.kmeans.{}", v["seam"].as_str().unwrap_or("")),
                format!("k-means seam {} on {} rows, {} threads: schedule {:?} gives outcome {} but the default schedule gives {}", v["seam"], v["n"], v["threads"], script, r["fp"], r["default_fp"]),
                v.clone(),
            )];
        }
        return vec![];
    }
    let est = v.get("estimator").and_then(|k| k.as_str()).unwrap_or("").to_string();
    let a = Env::from_json(&v["env_a"]);
    let b = Env::from_json(&v["env_b"]);
    let axis = v.get("axis").and_then(|k| k.as_str()).unwrap_or("").to_string();
    // natural-entropy disagreements cannot be pinned to one environment: re-run a batch of fresh
    // processes and look for more than one outcome
    let envs: Vec<Env> = if a.hash_seed.is_none() && b.hash_seed.is_none() && axis != "threads" {
        (0..12).map(|_| a.clone()).collect()
    } else {
        vec![a.clone(), b.clone()]
    };
    // Under the shim a hash-order dependence reproduces at once. A dependence on the free-running
    // rayon pool (or another uncontrolled source) may need several attempts: up to 20 are made, the
    // verdict text does not depend on how many were needed.
    if axis == "history" {
        let outs = run_children(&[a.clone()], 1);
        for (_, r) in &outs {
            match r {
                Ok(o) => {
                    if let Some(h) = o.fps.get(&est).and_then(|v| v.iter().find(|h| h.starts_with("ERR:HISTORY-DEPENDENCE"))) {
                        return vec![Violation::new(format!("history_dependence.{}", est), h.trim_start_matches("ERR:").to_string(), v.clone())];
                    }
                }
                Err(e) => machinery(&format!("replay child failed: {}", e)),
            }
        }
        return vec![];
    }
    let mut differs = false;
    for _attempt in 0..20 {
        let outs = run_children(&envs, 3);
        let mut vectors: Vec<Vec<String>> = Vec::new();
        for (_, r) in &outs {
            match r {
                Ok(o) => vectors.push(o.fps.get(&est).cloned().unwrap_or_default()),
                Err(e) => machinery(&format!("replay child failed: {}", e)),
            }
        }
        // any two outcomes of this estimator that differ - between the two environments or between
        // repetitions inside one of them - reproduce the report: what was first seen as a difference
        // between two hash seeds may really come from a free-running race
        let all: BTreeSet<&String> = vectors.iter().flatten().collect();
        let d = all.len() > 1 || vectors.iter().any(|v| *v != vectors[0]);
        if d {
            differs = true;
            break;
        }
    }
    if differs {
        vec![Violation::new(
            format!("nondeterministic.{}.{}", est, axis),
            describe(&est, &axis, &a, &b),
            v.clone(),
        )]
    } else {
        vec![]
    }
}

fn describe(est: &str, axis: &str, a: &Env, b: &Env) -> String {
    format!(
        "estimator `{}` (same data, parameters, seed) produced different bit patterns along axis `{}`: environment {} vs {}",
        est,
        axis,
        a.to_json(),
        b.to_json()
    )
}

fn main() {
    let args: Vec<String> = std::env::args().collect();
    if args.len() >= 3 && args[1] == "--child" {
        // children must not inherit the quiet panic hook of Ctx (they do not create a Ctx)
        std::panic::set_hook(Box::new(|_| {}));
        child(args[2].parse().unwrap_or(1));
        return;
    }
    let ctx = Ctx::new("C20", Level::ModelChecking);
    ctx.maybe_replay(&replay_value);
    ctx.set_rule(
        "registry of estimators (every family named in the statement; explicit and default seeds; tie datasets for hash-ordered code; \
         2000-row data so that rayon splits) x environments: E1 fresh processes with natural entropy, each fitting 3 times in-process; \
         E2 processes with the per-process hash seed enumerated through an LD_PRELOAD getrandom shim, continued until every key order of \
         <= 3 keys was witnessed at every hooked order-sensitive site; E3 RAYON_NUM_THREADS = 1..16; E4 depth-first enumeration of all \
         fork-join scheduling scripts (branch order x steal flag per join) of the k-means seams under a stand-in rayon-core. \
         evaluations = estimator fits compared + schedules executed; states = executed schedules + child environments, transitions = \
         scheduling decisions taken; non-trivial = fits of estimators on more than one environment / schedules with >= 1 non-default decision.",
    );
    ctx.assume("fingerprint = FNV-1a hash over the bit patterns of every learned quantity the public API exposes plus predictions (64-bit hash collisions ignored)");
    ctx.assume("hash seeds are controlled through the weak libc symbol getrandom (std's RandomState source on Linux); the shim returns the same seed-derived stream on every call so keys do not depend on thread start order");
    ctx.assume("schedule space = all series-parallel linearisations of the join tree and all steal patterns (T = 1..4), not arbitrary cross-subtree interleavings; leaves contain no synchronisation");
    ctx.assume("vocabularies are fingerprinted as word -> column maps; one_vs_all as label -> targets map; k-means||, t-SNE, unseeded FastICA and permutation p-values are excluded as the statement says");

    let quick = ctx.quick();
    let n_est = registry::registry().len();
    ctx.extra("estimators_in_registry", json!(n_est));

    // ---------------- environments ----------------
    let mut envs: Vec<(String, Env)> = Vec::new();
    for _ in 0..ctx.pick(3, 8) {
        envs.push(("process_rerun".into(), Env { hash_seed: None, threads: None }));
    }
    let n_seeds = ctx.pick(64u64, 1024u64);
    for s in 0..n_seeds {
        envs.push(("hash_seed".into(), Env { hash_seed: Some(s), threads: None }));
    }
    for t in 1..=16usize {
        envs.push(("threads".into(), Env { hash_seed: Some(0), threads: Some(t) }));
    }
    let only_envs: Vec<Env> = envs.iter().map(|e| e.1.clone()).collect();
    let reps = 3;
    let mut outs = run_children(&only_envs, reps);
    let mut axes: Vec<String> = envs.iter().map(|e| e.0.clone()).collect();

    // ---------------- hook coverage: extend the seed enumeration until every order was seen ----------------
    let mut orders: BTreeMap<(String, Vec<String>), BTreeSet<Vec<String>>> = BTreeMap::new();
    let collect_orders = |outs: &[(Env, Result<ChildOut, String>)], orders: &mut BTreeMap<(String, Vec<String>), BTreeSet<Vec<String>>>| {
        for (_, r) in outs {
            if let Ok(o) = r {
                for (site, ord) in &o.hooks {
                    let mut keyset = ord.clone();
                    keyset.sort();
                    orders.entry((site.clone(), keyset)).or_default().insert(ord.clone());
                }
            }
        }
    };
    collect_orders(&outs, &mut orders);
    let incomplete = |orders: &BTreeMap<(String, Vec<String>), BTreeSet<Vec<String>>>| orders.iter().filter(|((_, ks), seen)| ks.len() <= 3 && seen.len() < factorial(ks.len())).count();
    let mut next_seed = n_seeds;
    let seed_cap = n_seeds * 4;
    while incomplete(&orders) > 0 && next_seed < seed_cap && !ctx.over_budget() {
        let more: Vec<Env> = (next_seed..next_seed + 32).map(|s| Env { hash_seed: Some(s), threads: None }).collect();
        next_seed += 32;
        let o2 = run_children(&more, reps);
        collect_orders(&o2, &mut orders);
        for _ in 0..o2.len() {
            axes.push("hash_seed".into());
        }
        outs.extend(o2);
    }
    let mut site_cov = Vec::new();
    let mut sites_total = 0;
    let mut sites_complete = 0;
    for ((site, ks), seen) in &orders {
        let possible = factorial(ks.len());
        if ks.len() <= 3 {
            sites_total += 1;
            if seen.len() >= possible {
                sites_complete += 1;
            }
        }
        if site_cov.len() < 60 {
            site_cov.push(json!({"site": site, "keys": ks, "orders_seen": seen.len(), "orders_possible": possible}));
        }
    }
    ctx.extra("hash_order_sites_with_up_to_3_keys", json!(sites_total));
    ctx.extra("hash_order_sites_fully_covered", json!(sites_complete));
    ctx.extra("hash_order_site_coverage", json!(site_cov));
    ctx.extra("hash_seeds_enumerated", json!(next_seed));
    if sites_total == 0 {
        machinery("the observation hooks reported no order-sensitive site (hooks not compiled in? build needs --cfg linfa_verif)");
    }
    if sites_complete < sites_total {
        ctx.capped(&format!("hash-order coverage incomplete: {} of {} (site, key set) pairs saw every order within {} seeds", sites_complete, sites_total, next_seed));
    }

    // ---------------- compare fingerprints ----------------
    let mut failed_children = 0;
    // estimator -> outcome -> first (axis, env) that produced it
    let mut seen: BTreeMap<String, BTreeMap<String, (String, Env)>> = BTreeMap::new();
    let mut in_process_diff: BTreeMap<String, Env> = BTreeMap::new();
    let mut errors: BTreeMap<String, String> = BTreeMap::new();
    let mut history: BTreeMap<String, (String, Env)> = BTreeMap::new();
    for (i, (env, r)) in outs.iter().enumerate() {
        match r {
            Err(e) => {
                failed_children += 1;
                if failed_children <= 3 {
                    eprintln!("child failed: {}", e);
                }
            }
            Ok(o) => {
                for (est, hs) in &o.fps {
                    ctx.evals(hs.len() as u64, hs.len() as u64);
                    if hs.iter().any(|h| h != &hs[0]) {
                        in_process_diff.entry(est.clone()).or_insert(env.clone());
                    }
                    for h in hs {
                        if h.starts_with("ERR:HISTORY-DEPENDENCE") {
                            history.entry(est.clone()).or_insert((h.clone(), env.clone()));
                        } else if h.starts_with("ERR") || h.starts_with("PANIC") {
                            errors.entry(est.clone()).or_insert(h.clone());
                        }
                        seen.entry(est.clone()).or_default().entry(h.clone()).or_insert((axes[i].clone(), env.clone()));
                    }
                }
            }
        }
    }
    if failed_children > 0 {
        machinery(&format!("{} child processes failed", failed_children));
    }
    if !errors.is_empty() {
        machinery(&format!("registry entries failed to fit (harness defect, not a verdict): {:?}", errors));
    }
    // a registry entry that compares a fit after another fit in the same buffer with a fresh fit
    for (est, (msg, env)) in &history {
        ctx.violation(Violation::new(
            format!("history_dependence.{}", est),
            msg.trim_start_matches("ERR:").to_string(),
            json!({"kind": "children", "estimator": est, "axis": "history", "env_a": env.to_json(), "env_b": env.to_json()}),
        ));
    }
    let mut outcome_counts = serde_json::Map::new();
    // per estimator: outcome of every environment (first in-process repetition is representative;
    // in-process differences are handled below)
    let base_env = Env { hash_seed: Some(0), threads: None };
    for (est, m) in &seen {
        outcome_counts.insert(est.clone(), json!(m.len()));
        if m.len() <= 1 {
            continue;
        }
        // reference outcome: hash seed 0, default pool
        // (under the shim the k-th in-process repetition is deterministic too, so whole vectors are compared)
        let reference: Option<Vec<String>> = outs.iter().find(|(e, _)| *e == base_env).and_then(|(_, r)| r.as_ref().ok()).and_then(|o| o.fps.get(est)).cloned();
        let Some(reference) = reference else { continue };
        let mut reported_controlled = false;
        let mut done_axes: BTreeSet<&str> = BTreeSet::new();
        for (env, r) in outs.iter() {
            let Ok(o) = r else { continue };
            let Some(hs) = o.fps.get(est) else { continue };
            if env.hash_seed.is_none() {
                continue;
            }
            let differs = if *env == base_env { hs.iter().any(|h| *h != hs[0]) } else { *hs != reference };
            if differs {
                let axis = if *env == base_env { "in_process_rerun" } else if env.threads.is_some() { "threads" } else { "hash_seed" };
                reported_controlled = true;
                if done_axes.insert(axis) {
                    ctx.violation(Violation::new(
                        format!("nondeterministic.{}.{}", est, axis),
                        describe(est, axis, &base_env, env),
                        json!({"kind": "children", "estimator": est, "axis": axis, "env_a": base_env.to_json(), "env_b": env.to_json()}),
                    ));
                }
            }
        }
        if !reported_controlled {
            // only the uncontrolled (natural entropy) processes disagree
            let nat = Env { hash_seed: None, threads: None };
            ctx.violation(Violation::new(
                format!("nondeterministic.{}.process_rerun", est),
                describe(est, "process_rerun", &nat, &nat),
                json!({"kind": "children", "estimator": est, "axis": "process_rerun", "env_a": nat.to_json(), "env_b": nat.to_json()}),
            ));
        }
    }
    for (est, env) in &in_process_diff {
        if seen.get(est).map(|m| m.len()).unwrap_or(0) > 1 {
            ctx.bump("estimators_differing_within_one_process", 1);
        }
        let _ = env;
    }
    ctx.extra("distinct_outcomes_per_estimator", Value::Object(outcome_counts));
    ctx.extra("child_processes", json!(outs.len()));
    ctx.add_states(outs.len() as u64, (outs.len() * n_est * reps) as u64, outs.len() as u64);
    ctx.sample(|| json!({"environment": outs[0].0.to_json(), "estimators": n_est, "fits_per_estimator": reps}));
    ctx.sample(|| json!({"environment": outs[outs.len() - 1].0.to_json(), "estimators": n_est, "fits_per_estimator": reps}));

    // ---------------- E4: schedules ----------------
    let bin = std::env::var("VERIF_C20S_BIN").unwrap_or_else(|_| "/verif/harness-sched/target/release/c20s".into());
    let out = Command::new(&bin).arg("explore").arg(if quick { "quick" } else { "thorough" }).output();
    let out = match out {
        Ok(o) if o.status.success() => o,
        Ok(o) => machinery(&format!("c20s failed: {}", String::from_utf8_lossy(&o.stdout))),
        Err(e) => machinery(&format!("cannot run {}: {}", bin, e)),
    };
    let txt = String::from_utf8_lossy(&out.stdout);
    let rep: Value = serde_json::from_str(txt.lines().last().unwrap_or("")).unwrap_or_else(|e| machinery(&format!("c20s output not JSON: {}", e)));
    let mut schedules = 0u64;
    let mut decisions = 0u64;
    let mut leaf_orders = 0u64;
    let mut capped = 0;
    if let Some(a) = rep.get("report").and_then(|r| r.as_array()) {
        for r in a {
            schedules += r["schedules"].as_u64().unwrap_or(0);
            decisions += r["decision_points_total"].as_u64().unwrap_or(0);
            leaf_orders += r["distinct_leaf_orders"].as_u64().unwrap_or(0);
            if r["capped"].as_bool().unwrap_or(false) {
                capped += 1;
            }
        }
        ctx.extra("schedule_exploration", json!(a));
        ctx.sample(|| a[a.len() / 2].clone());
    }
    if schedules == 0 {
        machinery("schedule explorer executed no schedule");
    }
    if capped > 0 {
        ctx.capped(&format!("{} schedule configurations hit their schedule cap (counts in schedule_exploration)", capped));
    }
    ctx.evals(schedules, schedules.saturating_sub(60));
    ctx.add_states(schedules, decisions, schedules);
    ctx.extra("schedules_explored", json!(schedules));
    ctx.extra("distinct_leaf_orders_observed", json!(leaf_orders));
    if let Some(a) = rep.get("violations").and_then(|r| r.as_array()) {
        for v in a {
            ctx.violation(Violation::new(
                format!("schedule_dependent.kmeans.{}", v["seam"].as_str().unwrap_or("")),
                format!("k-means seam {} on {} rows, {} threads: schedule {} gives outcome {} but the default schedule gives {}", v["seam"], v["n"], v["threads"], v["script"], v["fp"], v["default_fp"]),
                json!({"kind": "schedule", "seam": v["seam"], "n": v["n"], "threads": v["threads"], "script": v["script"]}),
            ));
        }
    }
    ctx.finish(&replay_value);
}
