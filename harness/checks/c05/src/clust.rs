//! Silhouette score and Pearson coefficients against textbook formulas.

use crate::common::*;
use crate::report;
use linfa::dataset::DatasetBase;
use linfa::metrics::SilhouetteScore;
use linfa::Float;
use lvmc_core::{guarded, json};
use crate::layout::{hold1, hold2, L1, L1_ALL, L2, L2_ALL};
use ndarray::{Array1, Array2, ArrayView1, ArrayView2};

fn dist(a: &[f64], b: &[f64]) -> f64 {
    a.iter().zip(b).map(|(x, y)| (x - y) * (x - y)).sum::<f64>().sqrt()
}

/// Domain of the statement: two or more clusters, each holding at least two distinct points.
pub fn silhouette_in_domain(points: &[Vec<f64>], labels: &[usize]) -> bool {
    let mut ls: Vec<usize> = labels.to_vec();
    ls.sort();
    ls.dedup();
    if ls.len() < 2 {
        return false;
    }
    ls.iter().all(|&l| {
        let members: Vec<&Vec<f64>> = points.iter().zip(labels).filter(|(_, &x)| x == l).map(|(p, _)| p).collect();
        members.iter().any(|p| *p != members[0])
    })
}

pub fn ref_silhouette(points: &[Vec<f64>], labels: &[usize]) -> f64 {
    let n = points.len();
    let mut ls: Vec<usize> = labels.to_vec();
    ls.sort();
    ls.dedup();
    let mut total = 0.0;
    for i in 0..n {
        let mut a = 0.0;
        let mut b = f64::INFINITY;
        for &l in &ls {
            let idx: Vec<usize> = (0..n).filter(|&j| labels[j] == l).collect();
            let sum: f64 = idx.iter().map(|&j| dist(&points[i], &points[j])).sum();
            if l == labels[i] {
                a = sum / (idx.len() - 1) as f64;
            } else {
                b = b.min(sum / idx.len() as f64);
            }
        }
        total += (b - a) / a.max(b);
    }
    total / n as f64
}

pub fn run_silhouette(case: &Case, viols: &mut Sink) -> Cnt {
    match case {
        Case::Silhouette { points, labels, perms } => sil_core::<f64>(case, "f64", points, labels, perms, viols),
        Case::SilhouetteF { float, points, labels, perms } => {
            if float == "f32" {
                sil_core::<f32>(case, float, points, labels, perms, viols)
            } else {
                sil_core::<f64>(case, float, points, labels, perms, viols)
            }
        }
        _ => unreachable!(),
    }
}

fn sil_tol(float: &str) -> f64 {
    if float == "f32" {
        1e-4
    } else {
        1e-9
    }
}

fn sil_subject<F: Float>(rec: ArrayView2<F>, labels: ArrayView1<usize>) -> Result<f64, String> {
    let ds = DatasetBase::new(rec, labels);
    match guarded(|| ds.silhouette_score()) {
        Ok(Ok(v)) => Ok(v.to_f64().unwrap()),
        Ok(Err(e)) => Err(format!("Err({})", e)),
        Err(p) => Err(format!("panic: {}", p)),
    }
}

fn sil_core<F: Float>(case: &Case, float: &str, points: &[Vec<f64>], labels: &[usize], pmode: &str, viols: &mut Sink) -> Cnt {
    let mut cnt = Cnt::default();
    let n = points.len();
    let d = points[0].len();
    // coordinates as the subject sees them (rounded to F)
    let pts: Vec<Vec<f64>> = points.iter().map(|p| p.iter().map(|&x| F::cast(x).to_f64().unwrap()).collect()).collect();
    if !silhouette_in_domain(&pts, labels) {
        cnt.ood += 1;
        cnt.bump("silhouette.labelings_out_of_domain", 1);
        return cnt;
    }
    let tol = sil_tol(float);
    cnt.evals += 1;
    cnt.nontrivial += 1;
    cnt.bump("silhouette.cases", 1);
    if float == "f32" {
        cnt.bump("silhouette.f32_cases", 1);
    }
    let nclusters = {
        let mut l = labels.to_vec();
        l.sort();
        l.dedup();
        l.len()
    };
    cnt.bump(if nclusters == 2 { "silhouette.two_clusters" } else { "silhouette.three_or_more_clusters" }, 1);
    let exp = ref_silhouette(&pts, labels);
    let run = |pts: &[Vec<f64>], ls: &[usize]| -> Result<f64, String> {
        let rec: Array2<F> = Array2::from_shape_fn((n, d), |(i, j)| F::cast(pts[i][j]));
        let l = Array1::from(ls.to_vec());
        sil_subject::<F>(rec.view(), l.view())
    };
    cnt.bump("silhouette.values_compared", 1);
    let base = run(points, labels);
    match &base {
        Ok(v) => {
            if !closef(*v, exp, tol, tol * 1e-3, 1.0) {
                report!(viols, "silhouette.wrong_value", case, at("silhouette_score"), "silhouette_score = {}, textbook mean of (b-a)/max(a,b) = {}", v, exp);
            }
        }
        Err(m) => report!(viols, "silhouette.error_or_panic", case, at("silhouette_score"), "silhouette_score: {}", m),
    }
    for pm in perms(n, pmode) {
        cnt.bump("silhouette.permuted_reruns", 1);
        let r = run(&apply(points, &pm), &apply(labels, &pm));
        let ok = match (&r, &base) {
            (Ok(a), Ok(b)) => closef(*a, *b, 2.0 * tol, tol * 1e-3, 1.0),
            (Err(_), Err(_)) => true,
            _ => false,
        };
        if !ok {
            report!(viols, "silhouette.not_permutation_invariant", case, json!({"metric": "silhouette_score", "perm": pm}), "permutation {:?} of points and labels gives {:?}, unpermuted {:?}", pm, r, base);
            break;
        }
    }
    cnt
}

/// memory layouts of the record matrix / the label vector
pub fn lay_silhouette<F: Float>(outer: &Case, float: &str, points: &[Vec<f64>], labels: &[usize], viols: &mut Sink) -> Cnt {
    let mut cnt = Cnt::default();
    let n = points.len();
    let d = points[0].len();
    let pts: Vec<Vec<f64>> = points.iter().map(|p| p.iter().map(|&x| F::cast(x).to_f64().unwrap()).collect()).collect();
    if !silhouette_in_domain(&pts, labels) {
        cnt.ood += 1;
        return cnt;
    }
    let tol = sil_tol(float);
    let get = |i: usize, j: usize| F::cast(points[i][j]);
    let poison = |_: usize, _: usize| F::cast(1e30);
    let lpoison = |_: usize| 77usize;
    let b2 = hold2(n, d, &get, &poison, L2::Std);
    let b1 = hold1(labels, &lpoison, L1::Std);
    let base = sil_subject::<F>(b2.view(), b1.view());
    cnt.evals += 1;
    cnt.nontrivial += 1;
    cnt.bump("layouts.silhouette_cases", 1);
    for (rn, rl) in L2_ALL {
        for (tn, tl) in [L1_ALL[0], L1_ALL[2]] {
            if rl == L2::Std && tl == L1::Std {
                continue;
            }
            let h2 = hold2(n, d, &get, &poison, rl);
            let h1 = hold1(labels, &lpoison, tl);
            let r = sil_subject::<F>(h2.view(), h1.view());
            cnt.bump("layouts.silhouette_layout_runs", 1);
            cnt.bump("layouts.values_compared", 1);
            let ok = match (&r, &base) {
                (Ok(a), Ok(b)) => {
                    if a.to_bits() == b.to_bits() {
                        cnt.bump("layouts.values_bit_identical", 1);
                    }
                    closef(*a, *b, 2.0 * tol, tol * 1e-3, 1.0)
                }
                (Err(_), Err(_)) => true,
                _ => false,
            };
            if !ok {
                report!(
                    viols,
                    "silhouette.layout_dependence",
                    outer,
                    json!({"metric": "silhouette_score", "records_layout": rn, "targets_layout": tn}),
                    "silhouette_score with the records as {} and the labels as {} = {:?}; standard layout gives {:?}",
                    rn,
                    tn,
                    r,
                    base
                );
            }
        }
    }
    cnt
}

pub fn lay_pearson<F: Float>(outer: &Case, float: &str, cols: &[Vec<f64>], viols: &mut Sink) -> Cnt {
    let mut cnt = Cnt::default();
    let m = cols.len();
    let n = cols[0].len();
    let tol = if float == "f32" { 1e-4 } else { 1e-9 };
    let get = |i: usize, j: usize| F::cast(cols[j][i]);
    let poison = |_: usize, _: usize| F::cast(1e30);
    let cols64: Vec<Vec<f64>> = (0..m).map(|j| (0..n).map(|i| get(i, j).to_f64().unwrap()).collect()).collect();
    if n < 2 || cols64.iter().any(|c| c.iter().all(|x| *x == c[0])) {
        cnt.ood += 1;
        return cnt;
    }
    let run = |v: ArrayView2<F>| -> Result<Vec<f64>, String> {
        guarded(|| {
            let ds = DatasetBase::from(v);
            ds.pearson_correlation().get_coeffs().iter().map(|x| x.to_f64().unwrap()).collect::<Vec<f64>>()
        })
        .map_err(|p| format!("panic: {}", p))
    };
    let b = hold2(n, m, &get, &poison, L2::Std);
    let base = run(b.view());
    cnt.evals += 1;
    cnt.nontrivial += 1;
    cnt.bump("layouts.pearson_cases", 1);
    for (name, l) in L2_ALL.iter().skip(1) {
        let h = hold2(n, m, &get, &poison, *l);
        let r = run(h.view());
        cnt.bump("layouts.pearson_layout_runs", 1);
        cnt.bump("layouts.values_compared", 1);
        let ok = match (&r, &base) {
            (Ok(a), Ok(b)) => {
                if a.len() == b.len() && a.iter().zip(b).all(|(x, y)| x.to_bits() == y.to_bits()) {
                    cnt.bump("layouts.values_bit_identical", 1);
                }
                a.len() == b.len() && a.iter().zip(b).all(|(x, y)| closef(*x, *y, 2.0 * tol, 2.0 * tol, 1.0))
            }
            (Err(_), Err(_)) => true,
            _ => false,
        };
        if !ok {
            report!(
                viols,
                "pearson.layout_dependence",
                outer,
                json!({"metric": "pearson", "records_layout": name}),
                "pearson coefficients with the records as {} = {:?}; standard layout gives {:?}",
                name,
                r,
                base
            );
        }
    }
    cnt
}

pub fn ref_pearson(cols: &[Vec<f64>]) -> Vec<f64> {
    let m = cols.len();
    let n = cols[0].len() as f64;
    let mut out = Vec::new();
    for i in 0..m {
        for j in i + 1..m {
            let mi = cols[i].iter().sum::<f64>() / n;
            let mj = cols[j].iter().sum::<f64>() / n;
            let sxy: f64 = cols[i].iter().zip(&cols[j]).map(|(x, y)| (x - mi) * (y - mj)).sum();
            let sxx: f64 = cols[i].iter().map(|x| (x - mi) * (x - mi)).sum();
            let syy: f64 = cols[j].iter().map(|y| (y - mj) * (y - mj)).sum();
            out.push(sxy / (sxx * syy).sqrt());
        }
    }
    out
}

pub fn run_pearson<F: Float>(case: &Case, viols: &mut Sink) -> Cnt {
    let Case::Pearson { float, cols, perms: pmode } = case else { unreachable!() };
    let mut cnt = Cnt::default();
    let m = cols.len();
    let n = cols[0].len();
    let tol = if float == "f32" { 1e-4 } else { 1e-9 };
    let make = |cols: &[Vec<f64>]| -> Array2<F> { Array2::from_shape_fn((n, m), |(i, j)| F::cast(cols[j][i])) };
    let data = make(cols);
    let cols64: Vec<Vec<f64>> = (0..m).map(|j| (0..n).map(|i| data[(i, j)].to_f64().unwrap()).collect()).collect();
    if n < 2 || cols64.iter().any(|c| c.iter().all(|x| *x == c[0])) {
        cnt.ood += 1;
        cnt.bump("pearson.matrices_out_of_domain", 1);
        return cnt;
    }
    let exp = ref_pearson(&cols64);
    cnt.evals += 1;
    if exp.iter().any(|r| r.abs() < 1.0 - 1e-9) {
        cnt.nontrivial += 1;
    }
    cnt.bump("pearson.cases", 1);
    let run = |a: Array2<F>| -> Result<Vec<f64>, String> {
        guarded(|| {
            let ds = DatasetBase::from(a);
            ds.pearson_correlation().get_coeffs().iter().map(|x| x.to_f64().unwrap()).collect::<Vec<f64>>()
        })
        .map_err(|p| format!("panic: {}", p))
    };
    let base = run(data);
    cnt.bump("pearson.values_compared", exp.len() as u64);
    match &base {
        Ok(v) => {
            if v.len() != exp.len() {
                report!(viols, "pearson.wrong_length", case, at("pearson"), "{} coefficients for {} features, expected {}", v.len(), m, exp.len());
            } else if !v.iter().zip(&exp).all(|(a, b)| closef(*a, *b, tol, tol, 1.0)) {
                let mut sorted_o = v.clone();
                let mut sorted_e = exp.clone();
                sorted_o.sort_by(|a, b| a.partial_cmp(b).unwrap_or(std::cmp::Ordering::Equal));
                sorted_e.sort_by(|a, b| a.partial_cmp(b).unwrap());
                let reordered = sorted_o.iter().zip(&sorted_e).all(|(a, b)| closef(*a, *b, tol, tol, 1.0));
                report!(viols, if reordered { "pearson.wrong_pair_order" } else { "pearson.wrong_value" }, case, at("pearson"), "coefficients {:?}, textbook cov/(sd*sd) in upper-triangle order {:?}", v, exp);
            }
        }
        Err(msg) => report!(viols, "pearson.panic", case, at("pearson"), "pearson_correlation: {}", msg),
    }
    for pm in perms(n, pmode) {
        cnt.bump("pearson.permuted_reruns", 1);
        let pc: Vec<Vec<f64>> = cols.iter().map(|c| apply(c, &pm)).collect();
        let r = run(make(&pc));
        let ok = match (&r, &base) {
            (Ok(a), Ok(b)) => a.len() == b.len() && a.iter().zip(b).all(|(x, y)| closef(*x, *y, 2.0 * tol, 2.0 * tol, 1.0)),
            (Err(_), Err(_)) => true,
            _ => false,
        };
        if !ok {
            report!(viols, "pearson.not_permutation_invariant", case, json!({"metric": "pearson", "perm": pm}), "row permutation {:?} gives {:?}, unpermuted {:?}", pm, r, base);
            break;
        }
    }
    cnt
}

// ---------------------------------------------------------------------------------------------
// translation: all points moved by a common offset per coordinate (silhouette), every column moved by
// its own offset (Pearson). Reference = the definition on the centred values (exact subtraction).
// ---------------------------------------------------------------------------------------------

pub fn run_sil_shifted<F: Float>(outer: &Case, float: &str, points: &[Vec<f64>], labels: &[usize], offset: f64, step: f64, viols: &mut Sink) -> Cnt {
    let mut cnt = Cnt::default();
    let n = points.len();
    let d = points[0].len();
    // coordinate j is moved to offset * (1 + 9.8 * (j mod 2)) (e.g. 500000 and 5400000)
    let off = |j: usize| offset * (1.0 + 9.8 * (j % 2) as f64);
    let rec: Array2<F> = Array2::from_shape_fn((n, d), |(i, j)| F::cast(off(j) + step * points[i][j]));
    let centred: Vec<Vec<f64>> = (0..n).map(|i| (0..d).map(|j| rec[(i, j)].to_f64().unwrap() - off(j)).collect()).collect();
    if !silhouette_in_domain(&centred, labels) {
        cnt.ood += 1;
        cnt.bump("shift.silhouette_out_of_domain_after_rounding", 1);
        return cnt;
    }
    let tol = sil_tol(float);
    let exp = ref_silhouette(&centred, labels);
    cnt.evals += 1;
    cnt.nontrivial += 1;
    cnt.bump("shift.silhouette_cases", 1);
    cnt.bump("shift.values_compared", 1);
    let l = Array1::from(labels.to_vec());
    let r = sil_subject::<F>(rec.view(), l.view());
    let ok = matches!(&r, Ok(v) if closef(*v, exp, tol, tol * 1e-3, 1.0));
    if !ok {
        report!(
            viols,
            "silhouette.translation_dependence",
            outer,
            json!({"metric": "silhouette_score", "offset": offset, "step": step}),
            "silhouette_score of the points moved to ({:e}, {:e}, ...) + {} * point = {:?}; the definition on the centred points gives {}",
            off(0),
            off(1),
            step,
            r,
            exp
        );
    }
    cnt
}

pub fn run_pearson_shifted<F: Float>(outer: &Case, float: &str, cols: &[Vec<f64>], offset: f64, step: f64, viols: &mut Sink) -> Cnt {
    let mut cnt = Cnt::default();
    let m = cols.len();
    let n = cols[0].len();
    let tol = if float == "f32" { 1e-4 } else { 1e-9 };
    let u = if float == "f32" { f32::EPSILON as f64 / 2.0 } else { f64::EPSILON / 2.0 };
    // even columns sit at the offset, odd columns at a thousandth of it
    let off = |j: usize| if j % 2 == 0 { offset } else { offset * 1e-3 };
    let data: Array2<F> = Array2::from_shape_fn((n, m), |(i, j)| F::cast(off(j) + step * cols[j][i]));
    let centred: Vec<Vec<f64>> = (0..m).map(|j| (0..n).map(|i| data[(i, j)].to_f64().unwrap() - off(j)).collect()).collect();
    if n < 2 || centred.iter().any(|c| c.iter().all(|x| *x == c[0])) {
        cnt.ood += 1;
        return cnt;
    }
    let exp = ref_pearson(&centred);
    cnt.evals += 1;
    cnt.nontrivial += 1;
    cnt.bump("shift.pearson_cases", 1);
    cnt.bump("shift.values_compared", exp.len() as u64);
    // conditioning of the two-pass definition: the column mean carries delta_j <= n u |offset_j|, which
    // enters covariance and variances as n * delta_i * delta_j
    let var: Vec<f64> = centred
        .iter()
        .map(|c| {
            let mu = c.iter().sum::<f64>() / n as f64;
            c.iter().map(|x| (x - mu) * (x - mu)).sum::<f64>()
        })
        .collect();
    let delta: Vec<f64> = (0..m).map(|j| n as f64 * u * (off(j).abs() + 1.0)).collect();
    let r = guarded(|| {
        let ds = DatasetBase::from(data.view());
        ds.pearson_correlation().get_coeffs().iter().map(|x| x.to_f64().unwrap()).collect::<Vec<f64>>()
    });
    let mut k = 0;
    let mut bad: Option<String> = None;
    match &r {
        Ok(v) if v.len() == exp.len() => {
            for i in 0..m {
                for j in i + 1..m {
                    let cond = 4.0 * n as f64 * (delta[i] * delta[i] / var[i] + delta[j] * delta[j] / var[j]);
                    if !closef(v[k], exp[k], tol, tol + cond, 1.0) {
                        bad = Some(format!("coefficient ({}, {}) = {}, definition on the centred columns {} (allowed {:e})", i, j, v[k], exp[k], 2.0 * tol + cond));
                    }
                    k += 1;
                }
            }
        }
        other => bad = Some(format!("{:?}", other)),
    }
    if let Some(b) = bad {
        report!(
            viols,
            "pearson.translation_dependence",
            outer,
            json!({"metric": "pearson", "offset": offset, "step": step}),
            "pearson coefficients of the columns moved to {:e} / {:e} + {} * value: {}; all {:?} vs {:?}",
            off(0),
            off(1),
            step,
            b,
            r,
            exp
        );
    }
    cnt
}
