//! Silhouette score and Pearson coefficients against textbook formulas.

use crate::common::*;
use crate::report;
use linfa::dataset::DatasetBase;
use linfa::metrics::SilhouetteScore;
use linfa::Float;
use lvmc_core::{guarded, json};
use ndarray::{Array1, Array2};

fn dist(a: &[f64], b: &[f64]) -> f64 {
    a.iter().zip(b).map(|(x, y)| (x - y) * (x - y)).sum::<f64>().sqrt()
}

/// Domain of the statement: two or more clusters, each holding at least two distinct points.
pub fn silhouette_in_domain(points: &[Vec<f64>], labels: &[usize]) -> bool {
    let mut ls: Vec<usize> = labels.to_vec();
    ls.sort();
    ls.dedup();
    if ls.len() < 2 {
        return false;
    }
    ls.iter().all(|&l| {
        let members: Vec<&Vec<f64>> = points.iter().zip(labels).filter(|(_, &x)| x == l).map(|(p, _)| p).collect();
        members.iter().any(|p| *p != members[0])
    })
}

fn ref_silhouette(points: &[Vec<f64>], labels: &[usize]) -> f64 {
    let n = points.len();
    let mut ls: Vec<usize> = labels.to_vec();
    ls.sort();
    ls.dedup();
    let mut total = 0.0;
    for i in 0..n {
        let mut a = 0.0;
        let mut b = f64::INFINITY;
        for &l in &ls {
            let idx: Vec<usize> = (0..n).filter(|&j| labels[j] == l).collect();
            let sum: f64 = idx.iter().map(|&j| dist(&points[i], &points[j])).sum();
            if l == labels[i] {
                a = sum / (idx.len() - 1) as f64;
            } else {
                b = b.min(sum / idx.len() as f64);
            }
        }
        total += (b - a) / a.max(b);
    }
    total / n as f64
}

pub fn run_silhouette(case: &Case, viols: &mut Sink) -> Cnt {
    let Case::Silhouette { points, labels, perms: pmode } = case else { unreachable!() };
    let mut cnt = Cnt::default();
    if !silhouette_in_domain(points, labels) {
        cnt.ood += 1;
        cnt.bump("silhouette.labelings_out_of_domain", 1);
        return cnt;
    }
    let n = points.len();
    let d = points[0].len();
    cnt.evals += 1;
    cnt.nontrivial += 1;
    cnt.bump("silhouette.cases", 1);
    let nclusters = {
        let mut l = labels.clone();
        l.sort();
        l.dedup();
        l.len()
    };
    cnt.bump(if nclusters == 2 { "silhouette.two_clusters" } else { "silhouette.three_or_more_clusters" }, 1);
    let exp = ref_silhouette(points, labels);
    let run = |pts: &[Vec<f64>], ls: &[usize]| -> Result<f64, String> {
        let rec: Array2<f64> = Array2::from_shape_fn((n, d), |(i, j)| pts[i][j]);
        let ds = DatasetBase::new(rec, Array1::from(ls.to_vec()));
        match guarded(|| ds.silhouette_score()) {
            Ok(Ok(v)) => Ok(v),
            Ok(Err(e)) => Err(format!("Err({})", e)),
            Err(p) => Err(format!("panic: {}", p)),
        }
    };
    cnt.bump("silhouette.values_compared", 1);
    let base = run(points, labels);
    match &base {
        Ok(v) => {
            if !closef(*v, exp, 1e-9, 1e-12, 1.0) {
                report!(viols, "silhouette.wrong_value", case, at("silhouette_score"), "silhouette_score = {}, textbook mean of (b-a)/max(a,b) = {}", v, exp);
            }
        }
        Err(m) => report!(viols, "silhouette.error_or_panic", case, at("silhouette_score"), "silhouette_score: {}", m),
    }
    for pm in perms(n, pmode) {
        cnt.bump("silhouette.permuted_reruns", 1);
        let r = run(&apply(points, &pm), &apply(labels, &pm));
        let ok = match (&r, &base) {
            (Ok(a), Ok(b)) => closef(*a, *b, 2e-9, 1e-12, 1.0),
            (Err(_), Err(_)) => true,
            _ => false,
        };
        if !ok {
            report!(viols, "silhouette.not_permutation_invariant", case, json!({"metric": "silhouette_score", "perm": pm}), "permutation {:?} of points and labels gives {:?}, unpermuted {:?}", pm, r, base);
            break;
        }
    }
    cnt
}

fn ref_pearson(cols: &[Vec<f64>]) -> Vec<f64> {
    let m = cols.len();
    let n = cols[0].len() as f64;
    let mut out = Vec::new();
    for i in 0..m {
        for j in i + 1..m {
            let mi = cols[i].iter().sum::<f64>() / n;
            let mj = cols[j].iter().sum::<f64>() / n;
            let sxy: f64 = cols[i].iter().zip(&cols[j]).map(|(x, y)| (x - mi) * (y - mj)).sum();
            let sxx: f64 = cols[i].iter().map(|x| (x - mi) * (x - mi)).sum();
            let syy: f64 = cols[j].iter().map(|y| (y - mj) * (y - mj)).sum();
            out.push(sxy / (sxx * syy).sqrt());
        }
    }
    out
}

pub fn run_pearson<F: Float>(case: &Case, viols: &mut Sink) -> Cnt {
    let Case::Pearson { float, cols, perms: pmode } = case else { unreachable!() };
    let mut cnt = Cnt::default();
    let m = cols.len();
    let n = cols[0].len();
    let tol = if float == "f32" { 1e-4 } else { 1e-9 };
    let make = |cols: &[Vec<f64>]| -> Array2<F> { Array2::from_shape_fn((n, m), |(i, j)| F::cast(cols[j][i])) };
    let data = make(cols);
    let cols64: Vec<Vec<f64>> = (0..m).map(|j| (0..n).map(|i| data[(i, j)].to_f64().unwrap()).collect()).collect();
    if n < 2 || cols64.iter().any(|c| c.iter().all(|x| *x == c[0])) {
        cnt.ood += 1;
        cnt.bump("pearson.matrices_out_of_domain", 1);
        return cnt;
    }
    let exp = ref_pearson(&cols64);
    cnt.evals += 1;
    if exp.iter().any(|r| r.abs() < 1.0 - 1e-9) {
        cnt.nontrivial += 1;
    }
    cnt.bump("pearson.cases", 1);
    let run = |a: Array2<F>| -> Result<Vec<f64>, String> {
        guarded(|| {
            let ds = DatasetBase::from(a);
            ds.pearson_correlation().get_coeffs().iter().map(|x| x.to_f64().unwrap()).collect::<Vec<f64>>()
        })
        .map_err(|p| format!("panic: {}", p))
    };
    let base = run(data);
    cnt.bump("pearson.values_compared", exp.len() as u64);
    match &base {
        Ok(v) => {
            if v.len() != exp.len() {
                report!(viols, "pearson.wrong_length", case, at("pearson"), "{} coefficients for {} features, expected {}", v.len(), m, exp.len());
            } else if !v.iter().zip(&exp).all(|(a, b)| closef(*a, *b, tol, tol, 1.0)) {
                let mut sorted_o = v.clone();
                let mut sorted_e = exp.clone();
                sorted_o.sort_by(|a, b| a.partial_cmp(b).unwrap_or(std::cmp::Ordering::Equal));
                sorted_e.sort_by(|a, b| a.partial_cmp(b).unwrap());
                let reordered = sorted_o.iter().zip(&sorted_e).all(|(a, b)| closef(*a, *b, tol, tol, 1.0));
                report!(viols, if reordered { "pearson.wrong_pair_order" } else { "pearson.wrong_value" }, case, at("pearson"), "coefficients {:?}, textbook cov/(sd*sd) in upper-triangle order {:?}", v, exp);
            }
        }
        Err(msg) => report!(viols, "pearson.panic", case, at("pearson"), "pearson_correlation: {}", msg),
    }
    for pm in perms(n, pmode) {
        cnt.bump("pearson.permuted_reruns", 1);
        let pc: Vec<Vec<f64>> = cols.iter().map(|c| apply(c, &pm)).collect();
        let r = run(make(&pc));
        let ok = match (&r, &base) {
            (Ok(a), Ok(b)) => a.len() == b.len() && a.iter().zip(b).all(|(x, y)| closef(*x, *y, 2.0 * tol, 2.0 * tol, 1.0)),
            (Err(_), Err(_)) => true,
            _ => false,
        };
        if !ok {
            report!(viols, "pearson.not_permutation_invariant", case, json!({"metric": "pearson", "perm": pm}), "row permutation {:?} gives {:?}, unpermuted {:?}", pm, r, base);
            break;
        }
    }
    cnt
}
