//! Non-standard memory layouts of one logical vector / matrix. Every holder owns its (possibly
//! larger, poisoned) parent allocation and hands out a view whose LOGICAL content is the same.

use ndarray::{s, Array1, Array2, ArrayView1, ArrayView2, ShapeBuilder};

#[derive(Clone, Copy, Debug, PartialEq)]
pub enum L1 {
    /// freshly built contiguous array
    Std,
    /// reversed view (stride -1) of a reversed copy
    RevOfRev,
    /// every second element of a parent of length 2n whose odd positions hold poison
    Second,
    /// elements 1, 4, 7, ... of a parent of length 3n + 1, the rest poison
    ThirdOff,
}

pub const L1_ALL: [(&str, L1); 4] = [("standard", L1::Std), ("reversed_view_of_reversed_copy", L1::RevOfRev), ("every_second_of_poisoned_parent", L1::Second), ("every_third_from_1_of_poisoned_parent", L1::ThirdOff)];

pub struct Held1<T> {
    parent: Array1<T>,
    lay: L1,
}

pub fn hold1<T: Clone>(v: &[T], poison: &dyn Fn(usize) -> T, lay: L1) -> Held1<T> {
    let n = v.len();
    let parent = match lay {
        L1::Std => Array1::from(v.to_vec()),
        L1::RevOfRev => Array1::from(v.iter().rev().cloned().collect::<Vec<_>>()),
        L1::Second => Array1::from((0..2 * n).map(|i| if i % 2 == 0 { v[i / 2].clone() } else { poison(i / 2) }).collect::<Vec<_>>()),
        L1::ThirdOff => Array1::from((0..3 * n + 1).map(|i| if i % 3 == 1 { v[i / 3].clone() } else { poison((i / 3).min(n.saturating_sub(1))) }).collect::<Vec<_>>()),
    };
    Held1 { parent, lay }
}

impl<T> Held1<T> {
    pub fn view(&self) -> ArrayView1<'_, T> {
        match self.lay {
            L1::Std => self.parent.view(),
            L1::RevOfRev => self.parent.slice(s![..;-1]),
            L1::Second => self.parent.slice(s![..;2]),
            L1::ThirdOff => self.parent.slice(s![1..;3]),
        }
    }
}

#[derive(Clone, Copy, Debug, PartialEq)]
pub enum L2 {
    Std,
    /// column-major owned array
    F,
    /// transposed view of a feature-major (columns as rows) standard array
    T,
    /// reversed-row view of a copy with reversed rows
    RevRows,
    /// every second row of a parent with 2n rows, odd rows poison
    SecondRow,
    /// every second column of a parent with 2m columns, odd columns poison
    SecondCol,
    /// reversed-column (feature axis) view of a copy with reversed columns: rows have stride -1
    RevCols,
}

pub const L2_ALL: [(&str, L2); 7] = [
    ("standard", L2::Std),
    ("column_major_owned", L2::F),
    ("transposed_view_of_feature_major", L2::T),
    ("reversed_rows_view_of_reversed_copy", L2::RevRows),
    ("every_second_row_of_poisoned_parent", L2::SecondRow),
    ("every_second_column_of_poisoned_parent", L2::SecondCol),
    ("reversed_columns_view_of_reversed_copy", L2::RevCols),
];

pub struct Held2<T> {
    parent: Array2<T>,
    lay: L2,
}

/// `get(i, j)` = logical element (row i, column j) of an n x m matrix.
pub fn hold2<T: Clone>(n: usize, m: usize, get: &dyn Fn(usize, usize) -> T, poison: &dyn Fn(usize, usize) -> T, lay: L2) -> Held2<T> {
    let parent = match lay {
        L2::Std => Array2::from_shape_fn((n, m), |(i, j)| get(i, j)),
        L2::F => Array2::from_shape_fn((n, m).f(), |(i, j)| get(i, j)),
        L2::T => Array2::from_shape_fn((m, n), |(j, i)| get(i, j)),
        L2::RevRows => Array2::from_shape_fn((n, m), |(i, j)| get(n - 1 - i, j)),
        L2::SecondRow => Array2::from_shape_fn((2 * n, m), |(i, j)| if i % 2 == 0 { get(i / 2, j) } else { poison(i / 2, j) }),
        L2::SecondCol => Array2::from_shape_fn((n, 2 * m), |(i, j)| if j % 2 == 0 { get(i, j / 2) } else { poison(i, j / 2) }),
        L2::RevCols => Array2::from_shape_fn((n, m), |(i, j)| get(i, m - 1 - j)),
    };
    Held2 { parent, lay }
}

impl<T> Held2<T> {
    pub fn view(&self) -> ArrayView2<'_, T> {
        match self.lay {
            L2::Std | L2::F => self.parent.view(),
            L2::T => self.parent.t(),
            L2::RevRows => self.parent.slice(s![..;-1, ..]),
            L2::SecondRow => self.parent.slice(s![..;2, ..]),
            L2::SecondCol => self.parent.slice(s![.., ..;2]),
            L2::RevCols => self.parent.slice(s![.., ..;-1]),
        }
    }
}
