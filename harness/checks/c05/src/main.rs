//! C05 — every evaluation metric equals its definition recomputed from first principles.
//! Exhaustive sweep (DESIGN.md §4 C05): every pair of label vectors over small alphabets (bool /
//! usize / String), every score vector over {0, .25, .5, .75, 1} (+ a clip-boundary alphabet) with
//! every truth vector, every pair of real vectors over {-2,-1,0,.5,1,3}, every labelling of small
//! 1-D / 2-D point sets, every small matrix over a 3 / 4 letter value alphabet; each against a
//! plain f64 / integer reference, each additionally under permutations applied to both sides.

mod classif;
mod clust;
mod common;
mod regr;
mod roc;

use common::{Case, Cnt, Sink};
use lvmc_core::enumerate as en;
use lvmc_core::{json, par_sweep, Ctx, Level, Value, Violation};
use std::sync::atomic::{AtomicU64, Ordering};

fn run_case(case: &Case, viols: &mut Sink) -> Cnt {
    match case {
        Case::Labels { ty, .. } => match ty.as_str() {
            "bool" => classif::run_labels::<bool>(case, viols),
            "usize" => classif::run_labels::<usize>(case, viols),
            "string" => classif::run_labels::<String>(case, viols),
            _ => panic!("unknown label type"),
        },
        Case::LabelsLenMismatch { .. } => classif::run_len_mismatch(case, viols),
        Case::Scores { .. } => roc::run_scores(case, viols),
        Case::Regr { float, .. } => {
            if float == "f32" {
                regr::run_regr::<f32>(case, viols)
            } else {
                regr::run_regr::<f64>(case, viols)
            }
        }
        Case::RegrMulti { float, .. } => {
            if float == "f32" {
                regr::run_regr_multi::<f32>(case, viols)
            } else {
                regr::run_regr_multi::<f64>(case, viols)
            }
        }
        Case::Silhouette { .. } => clust::run_silhouette(case, viols),
        Case::Pearson { float, .. } => {
            if float == "f32" {
                clust::run_pearson::<f32>(case, viols)
            } else {
                clust::run_pearson::<f64>(case, viols)
            }
        }
    }
}

fn replay_value(v: &Value) -> Vec<Violation> {
    let c: Case = match serde_json::from_value(v.clone()) {
        Ok(c) => c,
        Err(e) => {
            println!("MACHINERY-ERROR replay case does not parse: {}", e);
            std::process::exit(2);
        }
    };
    let mut sink = Sink::default();
    run_case(&c, &mut sink);
    let mut out = sink.out;
    // keep the violations of the recorded metric (a case is run through all of its metrics)
    if let Some(m) = v.get("at").and_then(|a| a.get("metric")).cloned() {
        let col = v.get("at").and_then(|a| a.get("column")).cloned();
        out.retain(|x| {
            let a = x.case.get("at");
            a.and_then(|a| a.get("metric")).cloned().as_ref() == Some(&m) && (col.is_none() || a.and_then(|a| a.get("column")).cloned() == col)
        });
    }
    out
}

/// A group = everything enumerated for one fixed "left side"; the unit handed to the parallel sweep.
enum Group {
    /// pred fixed, truth = every vector of the same length over the first `a` letters
    Labels { ty: &'static str, alphabet: Vec<String>, a: usize, pred: Vec<usize>, perms: &'static str },
    LenMismatch,
    /// scores fixed, truth = every boolean vector
    Scores { scores: Vec<f32>, perms: &'static str },
    /// pred fixed, truth = every non-constant vector over the alphabet (+ a 2-column case each)
    Regr { float: &'static str, alphabet: Vec<f64>, pred: Vec<f64>, perms: &'static str, forms: bool, multi: bool },
    /// points fixed, labels = every labelling with k label values
    Sil { points: Vec<Vec<f64>>, k: usize, perms: &'static str },
    /// first column fixed, other columns = every vector over the alphabet
    Pearson { float: &'static str, alphabet: Vec<f64>, first: Vec<f64>, ncols: usize, perms: &'static str },
    /// explicitly listed cases (the structured long-vector families)
    Explicit { cases: Vec<Case> },
}

const SIL_LABEL_VALUES: [usize; 3] = [5, 2, 9];

impl Group {
    /// cardinality, computed independently of `for_each`
    fn size(&self) -> u64 {
        match self {
            Group::Labels { a, pred, .. } => (*a as u64).pow(pred.len() as u32),
            Group::LenMismatch => 6,
            Group::Scores { scores, .. } => 1u64 << scores.len(),
            Group::Regr { alphabet, pred, multi, .. } => {
                let m = (alphabet.len() as u64).pow(pred.len() as u32) - alphabet.len() as u64;
                if *multi {
                    2 * m
                } else {
                    m
                }
            }
            Group::Sil { points, k, .. } => (*k as u64).pow(points.len() as u32),
            Group::Pearson { alphabet, first, ncols, .. } => (alphabet.len() as u64).pow((first.len() * (ncols - 1)) as u32),
            Group::Explicit { cases } => cases.len() as u64,
        }
    }

    fn for_each(&self, f: &mut dyn FnMut(Case)) {
        match self {
            Group::Labels { ty, alphabet, a, pred, perms } => {
                for truth in en::sequences(pred.len(), *a) {
                    f(Case::Labels { ty: ty.to_string(), alphabet: alphabet.clone(), pred: pred.clone(), truth, perms: perms.to_string() });
                }
            }
            Group::LenMismatch => {
                for (a, b) in [(0usize, 1usize), (1, 0), (2, 3), (3, 2), (4, 1), (1, 5)] {
                    f(Case::LabelsLenMismatch { n_pred: a, n_truth: b });
                }
            }
            Group::Scores { scores, perms } => {
                for t in en::sequences(scores.len(), 2) {
                    f(Case::Scores { scores: scores.clone(), truth: t.iter().map(|&x| x == 1).collect(), perms: perms.to_string() });
                }
            }
            Group::Regr { float, alphabet, pred, perms, forms, multi } => {
                let n = pred.len();
                for t in en::sequences(n, alphabet.len()) {
                    if t.iter().all(|&x| x == t[0]) {
                        continue; // constant truth: outside the stated domain (counted by the caller)
                    }
                    let truth: Vec<f64> = t.iter().map(|&i| alphabet[i]).collect();
                    if *multi {
                        let rev: Vec<f64> = truth.iter().rev().cloned().collect();
                        let rot: Vec<f64> = (0..n).map(|i| truth[(i + 1) % n]).collect();
                        f(Case::RegrMulti { float: float.to_string(), pred_cols: vec![pred.clone(), rev], truth_cols: vec![truth.clone(), rot] });
                    }
                    f(Case::Regr { float: float.to_string(), pred: pred.clone(), truth, perms: perms.to_string(), forms: *forms });
                }
            }
            Group::Sil { points, k, perms } => {
                for l in en::sequences(points.len(), *k) {
                    f(Case::Silhouette { points: points.clone(), labels: l.iter().map(|&i| SIL_LABEL_VALUES[i]).collect(), perms: perms.to_string() });
                }
            }
            Group::Explicit { cases } => {
                for c in cases {
                    f(c.clone());
                }
            }
            Group::Pearson { float, alphabet, first, ncols, perms } => {
                let n = first.len();
                for rest in en::sequences(n * (ncols - 1), alphabet.len()) {
                    let mut cols = vec![first.clone()];
                    for c in 0..ncols - 1 {
                        cols.push(rest[c * n..(c + 1) * n].iter().map(|&i| alphabet[i]).collect());
                    }
                    f(Case::Pearson { float: float.to_string(), cols, perms: perms.to_string() });
                }
            }
        }
    }
}

fn main() {
    let ctx = Ctx::new("C05", Level::Exploration);
    ctx.maybe_replay(&replay_value);
    ctx.set_rule(
        "(a) labels: every (prediction, truth) pair of label vectors of length n over an alphabet of a symbols, for bool (n<=6 quick / n<=8 thorough), \
         usize {3,7,10,42} and String {cat,ant,dog,bee} (n<=4,a=4 quick / n<=5,a=4 and n=6,a=3 thorough), so label sets that differ between the sides are included; \
         (b) scores: every score vector of length 1..5 / 1..6 over {0,.25,.5,.75,1} and of length 1..3 / 1..4 over the clip-boundary alphabet {0,1e-8,.5,1-2^-24,1} x every boolean truth vector; \
         (c) regression: every prediction vector x every non-constant truth vector of length 2..4 over {-2,-1,0,.5,1,3} in f64 (thorough: also length 5 over {-2,0,.5,1,3}; f32: 2..3 / 2..4), plus a 2-column matrix case for n<=3 / n<=4; \
         (d) silhouette: every multiset of 4..6 / 4..7 points of {0..4} (multiplicity <=2) and every 4..5 / 4..6 subset of the 3x3 lattice x every labelling with 2 (n<=5) or 3 (n>=6) label values; \
         (c2/b2) structured long vectors: regression vectors of every length 6..40 / 6..72 whose absolute errors are every strided permutation (stride coprime to n, every offset [every third in quick]) of n distinct values, and score vectors of length 6..20 / 6..32 with heavy ties ((i*s+o) mod m)/m, m in {2,3,4,7}; \
         (e) Pearson: every matrix with 2..4 rows and 2..3 columns (quick) / up to 5 rows or 4 columns (thorough) over {-1,0,2} (and {-1,0,.5,2}), plus every 4x4 and 3x5 (thorough: 4x5) matrix over {-1,2} so that the order of the packed coefficients is observable. \
         Every case is additionally re-run under permutations applied to both sides: all n!-1 for small n (usize/String labels n<=4, bool n<=4/5, scores n<=4/5, regression n<=3/4, silhouette n<=4/5, Pearson rows<=4), the generating set {swap(0,1), rotation, reversal} beyond (the sweep visits every input, so invariance under generators at every input implies invariance under every permutation); quick runs the longest regression length without explicit permutations. \
         evaluations = distinct in-domain inputs run through all of their metrics; non-trivial = labels: >=2 classes and prediction != truth; scores: 0 < AUC < 1; regression: prediction != truth; silhouette: every in-domain labelling; Pearson: some |r| < 1.",
    );
    ctx.assume("confusion-matrix layout: for predicted.confusion_matrix(truth) cell (i,j) counts prediction = class i, truth = class j (comment in confusion_matrix + test_confusion_matrix); classes = sorted union, reversed when exactly two; precision / recall / F-beta / one-vs-all / one-vs-one are the rustdoc's functions of those cells, not an external convention (under this layout linfa's binary `precision` = c00/(c00+c10) is what most texts call recall)");
    ctx.assume("the private cells of ConfusionMatrix are observed through its Debug table");
    ctx.assume("f32 scores of the classification metrics: relative 1e-5 + absolute 1e-6 against the f64 reference; NaN is demanded exactly where the documented quotient is 0/0");
    ctx.assume("ROC curve points / thresholds: 2e-6 absolute; AUC 1e-5 absolute against Mann-Whitney U/(P*N) with ties 1/2; ROC needs both classes (single-class truth vectors counted out_of_domain for ROC, still used for log-loss); scores closer than 1e-10 to each other (the implementation's tie tolerance) are not in the alphabets");
    ctx.assume("log-loss reference clips to [f32::EPSILON, 1 - f32::EPSILON] as the implementation documents by its code (the rustdoc gives no clip level); tolerance relative 1e-5 + 1e-6");
    ctx.assume("regression tolerance: f64 relative 1e-9 (f32 1e-4) scaled by the operand magnitude (max error, squared max error, SSres/SStot); R2 / explained variance additionally 2*ratio*1e-10/SStot for the documented 1e-10 denominator guard; MSLE only for inputs > -1, MAPE only for receivers without a 0 entry, R2 / EV only for non-constant truth (filtered inputs counted)");
    ctx.assume("silhouette: euclidean, domain = >=2 clusters each with >=2 distinct points (others counted out_of_domain), tolerance 1e-9; Pearson: non-constant columns, >=2 rows, tolerance 1e-9 (f32 1e-4); permuted re-runs of float scores may differ by twice the tolerance (reordered sums), discrete outputs must be identical");
    ctx.assume("the p-values of PearsonCorrelation (entropy-seeded permutation test) are not part of the property and not checked");

    // ------------------------------------------------------------------ enumerate groups
    let mut groups: Vec<Group> = Vec::new();
    let strs = |v: &[&str]| -> Vec<String> { v.iter().map(|s| s.to_string()).collect() };

    // (a) labels
    let full_perm_n = ctx.pick(4usize, 5usize);
    let pm = |n: usize, full: usize| -> &'static str {
        if n <= full {
            "all"
        } else {
            "gen"
        }
    };
    for n in 1..=ctx.pick(6usize, 8usize) {
        for pred in en::sequences(n, 2) {
            groups.push(Group::Labels { ty: "bool", alphabet: strs(&["false", "true"]), a: 2, pred, perms: pm(n, full_perm_n) });
        }
    }
    // usize / String: all n! permutations up to n = 4 in both tiers, generators beyond
    let full_perm_multi = 4usize;
    for (ty, alpha) in [("usize", strs(&["3", "7", "10", "42"])), ("string", strs(&["cat", "ant", "dog", "bee"]))] {
        for n in 1..=ctx.pick(4usize, 5usize) {
            for pred in en::sequences(n, 4) {
                groups.push(Group::Labels { ty, alphabet: alpha.clone(), a: 4, pred, perms: pm(n, full_perm_multi) });
            }
        }
        if ctx.thorough() {
            for pred in en::sequences(6, 3) {
                groups.push(Group::Labels { ty, alphabet: alpha[..3].to_vec(), a: 3, pred, perms: "gen" });
            }
        }
    }
    groups.push(Group::LenMismatch);

    // (b) scores
    let score_alpha: [f32; 5] = [0.0, 0.25, 0.5, 0.75, 1.0];
    let edge_alpha: [f32; 5] = [0.0, 1e-8, 0.5, 1.0 - f32::EPSILON / 2.0, 1.0];
    for n in 1..=ctx.pick(5usize, 6usize) {
        for s in en::sequences(n, 5) {
            groups.push(Group::Scores { scores: s.iter().map(|&i| score_alpha[i]).collect(), perms: pm(n, full_perm_n) });
        }
    }
    for n in 1..=ctx.pick(3usize, 4usize) {
        for s in en::sequences(n, 5) {
            groups.push(Group::Scores { scores: s.iter().map(|&i| edge_alpha[i]).collect(), perms: "gen" });
        }
    }

    // (c) regression
    let ralpha: Vec<f64> = vec![-2.0, -1.0, 0.0, 0.5, 1.0, 3.0];
    let mut constant_truth_filtered: u64 = 0;
    // n = 5 (thorough only) uses the five-letter alphabet {-2,0,.5,1,3}
    let ralpha5: Vec<f64> = vec![-2.0, 0.0, 0.5, 1.0, 3.0];
    for (float, nmax, full) in [("f64", ctx.pick(4usize, 5usize), ctx.pick(3usize, 4usize)), ("f32", ctx.pick(3usize, 4usize), ctx.pick(3usize, 3usize))] {
        for n in 2..=nmax {
            let alpha = if n >= 5 { &ralpha5 } else { &ralpha };
            // quick: the largest length runs without explicit permutations (every permuted input is
            // itself enumerated and compared with the permutation-invariant reference)
            let perms = if ctx.quick() && n == nmax && n > full { "none" } else { pm(n, full) };
            for p in en::sequences(n, alpha.len()) {
                let multi = n <= ctx.pick(3, 4) && float == "f64";
                constant_truth_filtered += alpha.len() as u64;
                groups.push(Group::Regr { float, alphabet: alpha.clone(), pred: p.iter().map(|&i| alpha[i]).collect(), perms, forms: n <= 3, multi });
            }
        }
    }

    // (c2) long structured vectors (lengths beyond the exhaustive alphabets, where sorting / selection
    // algorithms switch strategy): for every length n and every stride s coprime to n and every offset o,
    // the absolute errors are the strided permutation 0.25 * (1 + (i*s + o) mod n) of n distinct values,
    // with alternating signs on a non-constant truth pattern. Complete over (n, s, o) within the bound.
    let gcd = |mut a: usize, mut b: usize| {
        while b != 0 {
            let t = a % b;
            a = b;
            b = t;
        }
        a
    };
    let long_max = ctx.pick(40usize, 72usize);
    for n in 6..=long_max {
        for float in ["f64", "f32"] {
            let mut cases = Vec::new();
            for st in 1..n {
                if gcd(st, n) != 1 {
                    continue;
                }
                for o in 0..n {
                    if ctx.quick() && o % 3 != 0 {
                        continue;
                    }
                    let truth: Vec<f64> = (0..n).map(|i| (i % 5) as f64 * 0.5 + 1.0).collect();
                    let pred: Vec<f64> = (0..n)
                        .map(|i| {
                            let e = 0.25 * (1 + (i * st + o) % n) as f64;
                            if (i * st) % 2 == 0 {
                                truth[i] + e
                            } else {
                                truth[i] - e
                            }
                        })
                        .collect();
                    // the same errors on top of a large common offset (mean >> spread): one-pass
                    // variance / sum-of-squares formulas cancel catastrophically there. Offsets are
                    // chosen so that every value stays exactly representable in the float type.
                    if o == 0 && (st == 1 || st == n - 1) {
                        let off = if float == "f32" { 1024.0 } else { 67108864.0 };
                        let t2: Vec<f64> = truth.iter().map(|v| v + off).collect();
                        let p2: Vec<f64> = pred.iter().map(|v| v + off).collect();
                        cases.push(Case::Regr { float: float.to_string(), pred: p2, truth: t2, perms: "gen".to_string(), forms: false });
                    }
                    cases.push(Case::Regr { float: float.to_string(), pred, truth, perms: "gen".to_string(), forms: false });
                }
            }
            groups.push(Group::Explicit { cases });
        }
    }
    // (b2) long structured score vectors with many ties: scores ((i*s + o) mod m) / m for m < n, truth
    // pattern i mod 3 == 0, every (n, m, s coprime to n)
    for n in 6..=ctx.pick(20usize, 32usize) {
        let mut cases = Vec::new();
        for m in [2usize, 3, 4, 7] {
            for st in 1..n {
                if gcd(st, n) != 1 {
                    continue;
                }
                for o in 0..m {
                    let scores: Vec<f32> = (0..n).map(|i| ((i * st + o) % m) as f32 / m as f32).collect();
                    let truth: Vec<bool> = (0..n).map(|i| i % 3 == 0).collect();
                    cases.push(Case::Scores { scores, truth, perms: "gen".to_string() });
                }
            }
        }
        groups.push(Group::Explicit { cases });
    }

    // (d) silhouette
    let sil_full = ctx.pick(4usize, 5usize);
    for ms in en::multisets_upto(5, 4, ctx.pick(6, 7), 2) {
        let n = ms.len();
        let k = if n >= 6 { 3 } else { 2 };
        groups.push(Group::Sil { points: ms.iter().map(|&i| vec![i as f64]).collect(), k, perms: pm(n, sil_full) });
    }
    let lat = en::lattice_points(2, 3);
    for ss in en::subsets_upto(9, 4, ctx.pick(5, 6)) {
        let n = ss.len();
        let k = if n >= 6 { 3 } else { 2 };
        groups.push(Group::Sil { points: ss.iter().map(|&i| lat[i].iter().map(|&v| v as f64).collect()).collect(), k, perms: pm(n, sil_full) });
    }

    // (e) Pearson
    let pa3: Vec<f64> = vec![-1.0, 0.0, 2.0];
    let pa4: Vec<f64> = vec![-1.0, 0.0, 0.5, 2.0];
    let mut pearson_shapes: Vec<(&'static str, Vec<f64>, usize, usize)> = vec![
        ("f64", pa3.clone(), 2, 2),
        ("f64", pa3.clone(), 3, 2),
        ("f64", pa3.clone(), 3, 3),
        ("f64", pa3.clone(), 4, 2),
        ("f32", pa3.clone(), 3, 3),
        ("f32", pa3.clone(), 4, 2),
    ];
    // four and five columns over a two-letter alphabet: the packed upper-triangle ORDER of the
    // coefficients only becomes observable from four features on ((0,3) and (1,2) swap places
    // between row-major and column-major packing)
    let pa2: Vec<f64> = vec![-1.0, 2.0];
    pearson_shapes.push(("f64", pa2.clone(), 4, 4));
    pearson_shapes.push(("f64", pa2.clone(), 3, 5));
    if ctx.thorough() {
        pearson_shapes.push(("f64", pa2.clone(), 4, 5));
        pearson_shapes.push(("f32", pa2.clone(), 4, 4));
        pearson_shapes.push(("f64", pa3.clone(), 4, 3));
        pearson_shapes.push(("f64", pa3.clone(), 3, 4));
        pearson_shapes.push(("f64", pa3.clone(), 5, 2));
        pearson_shapes.push(("f64", pa4.clone(), 4, 2));
        pearson_shapes.push(("f32", pa4.clone(), 4, 2));
    }
    for (float, alpha, rows, ncols) in &pearson_shapes {
        for first in en::sequences(*rows, alpha.len()) {
            groups.push(Group::Pearson { float, alphabet: alpha.clone(), first: first.iter().map(|&i| alpha[i]).collect(), ncols: *ncols, perms: pm(*rows, 4) });
        }
    }

    let enumerated: u64 = groups.iter().map(|g| g.size()).sum();
    ctx.extra("groups", json!(groups.len()));
    ctx.extra("cases_enumerated", json!(enumerated));
    ctx.extra("regression.constant_truth_vectors_filtered", json!(constant_truth_filtered));
    for _ in 0..constant_truth_filtered {
        ctx.out_of_domain();
    }

    // ------------------------------------------------------------------ sweep
    let run = AtomicU64::new(0);
    par_sweep(&ctx, "metrics sweep", &groups, |g| {
        let mut total = Cnt::default();
        let mut viols = Sink::default();
        let mut k: u64 = 0;
        g.for_each(&mut |c: Case| {
            let cnt = run_case(&c, &mut viols);
            total.merge(cnt);
            k += 1;
        });
        run.fetch_add(k, Ordering::Relaxed);
        ctx.evals(total.evals, total.nontrivial);
        for _ in 0..total.ood {
            ctx.out_of_domain();
        }
        for _ in 0..total.indet {
            ctx.indeterminate();
        }
        for (key, v) in &total.extra {
            ctx.bump(key, *v);
        }
        ctx.violations(viols.out);
    });
    // evidence samples: deterministic, every family represented (the context keeps the offers
    // whose ordinal + seed is a power of two, so families are assigned by trailing ones)
    {
        let fam = |g: &Group| -> usize {
            match g {
                Group::Labels { ty, .. } => {
                    if *ty == "bool" {
                        0
                    } else {
                        1
                    }
                }
                Group::Scores { .. } => 2,
                Group::Regr { multi, .. } => {
                    if *multi {
                        4
                    } else {
                        3
                    }
                }
                Group::Sil { .. } => 5,
                Group::Pearson { .. } => 6,
                Group::LenMismatch => 7,
                Group::Explicit { .. } => 3,
            }
        };
        let by_fam: Vec<Vec<&Group>> = (0..7).map(|f| groups.iter().filter(|g| fam(g) == f).collect()).collect();
        for i in 0..64u64 {
            let f = ((i + ctx.seed % 7).trailing_ones() as usize) % 7;
            let gs = &by_fam[f];
            if gs.is_empty() {
                continue;
            }
            let g = gs[(gs.len() / 2 + 37 * i as usize) % gs.len()];
            let want = (g.size() / 2 + 5 * i) % g.size();
            let mut k = 0u64;
            let mut pick: Option<Case> = None;
            g.for_each(&mut |c: Case| {
                if k == want {
                    pick = Some(c);
                }
                k += 1;
            });
            if pick.is_none() {
                // the group filtered this index (constant truth): take its first case
                g.for_each(&mut |c: Case| {
                    if pick.is_none() {
                        pick = Some(c);
                    }
                });
            }
            ctx.sample(|| serde_json::to_value(pick.as_ref().unwrap()).unwrap());
        }
    }
    let run = run.load(Ordering::Relaxed);
    ctx.extra("cases_run", json!(run));
    let capped = ctx.over_budget();
    if run != enumerated && !capped {
        println!("MACHINERY-ERROR C05 ran {} cases but the enumerators promise {}", run, enumerated);
        std::process::exit(2);
    }
    ctx.finish(&replay_value);
}
