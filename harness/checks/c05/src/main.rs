//! C05 — every evaluation metric equals its definition recomputed from first principles.
//! Exhaustive sweep (DESIGN.md §4 C05): every pair of label vectors over small alphabets (bool /
//! usize / String), every score vector over {0, .25, .5, .75, 1} (+ a clip-boundary alphabet) with
//! every truth vector, every pair of real vectors over {-2,-1,0,.5,1,3}, every labelling of small
//! 1-D / 2-D point sets, every small matrix over a 3 / 4 letter value alphabet; each against a
//! plain f64 / integer reference, each additionally under permutations applied to both sides.

mod classif;
mod clust;
mod common;
mod containers;
mod layout;
mod regr;
mod roc;

use common::{Case, Cnt, Sink};
use lvmc_core::enumerate as en;
use lvmc_core::{json, par_sweep, Ctx, Level, Value, Violation};
use std::sync::atomic::{AtomicU64, Ordering};

fn run_case(case: &Case, viols: &mut Sink) -> Cnt {
    match case {
        Case::Labels { ty, .. } => match ty.as_str() {
            "bool" => classif::run_labels::<bool>(case, viols),
            "usize" => classif::run_labels::<usize>(case, viols),
            "string" => classif::run_labels::<String>(case, viols),
            _ => panic!("unknown label type"),
        },
        Case::LabelsLenMismatch { .. } => classif::run_len_mismatch(case, viols),
        Case::Scores { .. } => roc::run_scores(case, viols),
        Case::Regr { float, .. } => {
            if float == "f32" {
                regr::run_regr::<f32>(case, viols)
            } else {
                regr::run_regr::<f64>(case, viols)
            }
        }
        Case::RegrMulti { float, .. } => {
            if float == "f32" {
                regr::run_regr_multi::<f32>(case, viols)
            } else {
                regr::run_regr_multi::<f64>(case, viols)
            }
        }
        Case::Silhouette { .. } | Case::SilhouetteF { .. } => clust::run_silhouette(case, viols),
        Case::Layouts { base } => run_layouts(case, base, viols),
        Case::Scaled { base, factors } => run_scaled(case, base, factors, viols),
        Case::Shifted { base, offset, step } => match &**base {
            Case::Regr { float, pred, truth, .. } => {
                if float == "f32" {
                    regr::run_regr_shifted::<f32>(case, float, pred, truth, *offset, *step, viols)
                } else {
                    regr::run_regr_shifted::<f64>(case, float, pred, truth, *offset, *step, viols)
                }
            }
            Case::SilhouetteF { float, points, labels, .. } => {
                if float == "f32" {
                    clust::run_sil_shifted::<f32>(case, float, points, labels, *offset, *step, viols)
                } else {
                    clust::run_sil_shifted::<f64>(case, float, points, labels, *offset, *step, viols)
                }
            }
            Case::Pearson { float, cols, .. } => {
                if float == "f32" {
                    clust::run_pearson_shifted::<f32>(case, float, cols, *offset, *step, viols)
                } else {
                    clust::run_pearson_shifted::<f64>(case, float, cols, *offset, *step, viols)
                }
            }
            _ => panic!("this kind of case cannot be shifted"),
        },
        Case::Containers { base } => match &**base {
            Case::Labels { ty, alphabet, pred, truth, .. } => match ty.as_str() {
                "bool" => {
                    let mut c = containers::containers_labels::<bool>(case, alphabet, pred, truth, viols);
                    c.merge(containers::containers_with_labels::<bool>(case, alphabet, pred, truth, viols));
                    c
                }
                "usize" => {
                    let mut c = containers::containers_labels::<usize>(case, alphabet, pred, truth, viols);
                    c.merge(containers::containers_with_labels::<usize>(case, alphabet, pred, truth, viols));
                    c
                }
                _ => containers::containers_labels::<String>(case, alphabet, pred, truth, viols),
            },
            Case::Silhouette { points, labels, .. } => containers::containers_silhouette(case, points, labels, viols),
            Case::Scores { scores, truth, .. } => containers::containers_scores(case, scores, truth, viols),
            _ => panic!("no container check for this kind of case"),
        },
        Case::Replicated { base, n, layouts } => {
            let long = expand(base, *n);
            let mut cnt = run_case(&long, viols);
            cnt.bump("large.replicated_cases", 1);
            oracle_self_check(case, base, &long, *n, viols);
            if *layouts {
                let w = Case::Layouts { base: Box::new(long) };
                cnt.merge(run_case(&w, viols));
            }
            cnt
        }
        Case::Pearson { float, .. } => {
            if float == "f32" {
                clust::run_pearson::<f32>(case, viols)
            } else {
                clust::run_pearson::<f64>(case, viols)
            }
        }
    }
}

/// Layout checks of one literal base case; violations carry the `Layouts` wrapper as their case.
fn run_layouts(outer: &Case, base: &Case, viols: &mut Sink) -> Cnt {
    match base {
        Case::Regr { float, pred, truth, .. } => {
            if float == "f32" {
                regr::lay_regr::<f32>(outer, float, pred, truth, viols)
            } else {
                regr::lay_regr::<f64>(outer, float, pred, truth, viols)
            }
        }
        Case::RegrMulti { float, pred_cols, truth_cols } => {
            if float == "f32" {
                regr::lay_regr_multi::<f32>(outer, float, pred_cols, truth_cols, viols)
            } else {
                regr::lay_regr_multi::<f64>(outer, float, pred_cols, truth_cols, viols)
            }
        }
        Case::Scores { scores, truth, .. } => roc::lay_scores(outer, scores, truth, viols),
        Case::Labels { ty, alphabet, pred, truth, .. } => match ty.as_str() {
            "bool" => classif::lay_labels::<bool>(outer, alphabet, pred, truth, viols),
            "usize" => classif::lay_labels::<usize>(outer, alphabet, pred, truth, viols),
            _ => classif::lay_labels::<String>(outer, alphabet, pred, truth, viols),
        },
        Case::Silhouette { points, labels, .. } => clust::lay_silhouette::<f64>(outer, "f64", points, labels, viols),
        Case::SilhouetteF { float, points, labels, .. } => {
            if float == "f32" {
                clust::lay_silhouette::<f32>(outer, float, points, labels, viols)
            } else {
                clust::lay_silhouette::<f64>(outer, float, points, labels, viols)
            }
        }
        Case::Pearson { float, cols, .. } => {
            if float == "f32" {
                clust::lay_pearson::<f32>(outer, float, cols, viols)
            } else {
                clust::lay_pearson::<f64>(outer, float, cols, viols)
            }
        }
        _ => panic!("no layout check for this kind of case"),
    }
}

/// Scaled copies. Regression is judged by its own scale-aware comparison (violations carry the
/// `Scaled` wrapper); scores / silhouette / Pearson are dimensionless, so the scaled literal case simply
/// goes through the normal oracle (violations carry that literal case).
fn run_scaled(outer: &Case, base: &Case, factors: &[f64], viols: &mut Sink) -> Cnt {
    let f0 = factors[0];
    let fac = |j: usize| factors[j % factors.len()];
    let mut cnt = match base {
        Case::Regr { float, pred, truth, .. } => {
            if float == "f32" {
                regr::run_regr_scaled::<f32>(outer, float, pred, truth, f0, viols)
            } else {
                regr::run_regr_scaled::<f64>(outer, float, pred, truth, f0, viols)
            }
        }
        Case::RegrMulti { float, pred_cols, truth_cols } => {
            if float == "f32" {
                regr::run_regr_multi_scaled::<f32>(outer, float, pred_cols, truth_cols, factors, viols)
            } else {
                regr::run_regr_multi_scaled::<f64>(outer, float, pred_cols, truth_cols, factors, viols)
            }
        }
        Case::Scores { scores, truth, perms } => run_case(&Case::Scores { scores: scores.iter().map(|&s| s * f0 as f32).collect(), truth: truth.clone(), perms: perms.clone() }, viols),
        Case::Silhouette { points, labels, perms } => {
            run_case(&Case::Silhouette { points: points.iter().map(|p| p.iter().map(|x| x * f0).collect()).collect(), labels: labels.clone(), perms: perms.clone() }, viols)
        }
        Case::SilhouetteF { float, points, labels, perms } => run_case(
            &Case::SilhouetteF { float: float.clone(), points: points.iter().map(|p| p.iter().map(|x| x * f0).collect()).collect(), labels: labels.clone(), perms: perms.clone() },
            viols,
        ),
        Case::Pearson { float, cols, perms } => run_case(
            &Case::Pearson { float: float.clone(), cols: cols.iter().enumerate().map(|(j, c)| c.iter().map(|x| x * fac(j)).collect()).collect(), perms: perms.clone() },
            viols,
        ),
        _ => panic!("this kind of case cannot be scaled"),
    };
    cnt.bump("scale.scaled_cases", 1);
    cnt
}

fn cyc<T: Clone>(v: &[T], n: usize) -> Vec<T> {
    (0..n).map(|i| v[i % v.len()].clone()).collect()
}

/// The long literal case obtained by repeating the base cyclically up to n elements / rows.
fn expand(base: &Case, n: usize) -> Case {
    match base {
        Case::Regr { float, pred, truth, .. } => Case::Regr { float: float.clone(), pred: cyc(pred, n), truth: cyc(truth, n), perms: "gen".into(), forms: false },
        Case::RegrMulti { float, pred_cols, truth_cols } => {
            Case::RegrMulti { float: float.clone(), pred_cols: pred_cols.iter().map(|c| cyc(c, n)).collect(), truth_cols: truth_cols.iter().map(|c| cyc(c, n)).collect() }
        }
        Case::Scores { scores, truth, .. } => Case::Scores { scores: cyc(scores, n), truth: cyc(truth, n), perms: "gen".into() },
        Case::Labels { ty, alphabet, pred, truth, .. } => Case::Labels { ty: ty.clone(), alphabet: alphabet.clone(), pred: cyc(pred, n), truth: cyc(truth, n), perms: "gen".into() },
        Case::Silhouette { points, labels, .. } => Case::Silhouette { points: cyc(points, n), labels: cyc(labels, n), perms: "none".into() },
        Case::SilhouetteF { float, points, labels, .. } => Case::SilhouetteF { float: float.clone(), points: cyc(points, n), labels: cyc(labels, n), perms: "none".into() },
        Case::Pearson { float, cols, .. } => Case::Pearson { float: float.clone(), cols: cols.iter().map(|c| cyc(c, n)).collect(), perms: "gen".into() },
        _ => panic!("this kind of case cannot be replicated"),
    }
}

/// Closed form: when n is a multiple of the base length, every regression score and every Pearson
/// coefficient of the replicated input equals that of the base (ratios of sums; medians of k-fold
/// multisets). This validates the harness's own references on the long inputs.
fn oracle_self_check(outer: &Case, base: &Case, long: &Case, n: usize, viols: &mut Sink) {
    match (base, long) {
        (Case::Regr { pred: bp, truth: bt, .. }, Case::Regr { pred, truth, .. }) if n % bp.len() == 0 => {
            let a = regr::reference(bp, bt);
            let b = regr::reference(pred, truth);
            for i in 0..8 {
                let ok = match (a.v[i], b.v[i]) {
                    (Some(x), Some(y)) => common::closef(x.0, y.0, 1e-9, 1e-12, x.1),
                    (None, None) => true,
                    _ => false,
                };
                if !ok {
                    report!(viols, "harness.replication_oracle_self_check", outer, json!({"metric": regr::NAMES[i]}), "reference of the base {:?} and of its {}-fold replication {:?} differ", a.v[i], n / bp.len(), b.v[i]);
                }
            }
        }
        (Case::Pearson { cols: bc, .. }, Case::Pearson { cols, .. }) if n % bc[0].len() == 0 => {
            let nonconst = |c: &Vec<Vec<f64>>| c.iter().all(|c| c.iter().any(|x| *x != c[0]));
            if nonconst(bc) && nonconst(cols) {
                let a = clust::ref_pearson(bc);
                let b = clust::ref_pearson(cols);
                if !a.iter().zip(&b).all(|(x, y)| common::closef(*x, *y, 1e-9, 1e-9, 1.0)) {
                    report!(viols, "harness.replication_oracle_self_check", outer, json!({"metric": "pearson"}), "reference of the base {:?} and of its replication {:?} differ", a, b);
                }
            }
        }
        _ => {}
    }
}

fn replay_value(v: &Value) -> Vec<Violation> {
    let c: Case = match serde_json::from_value(v.clone()) {
        Ok(c) => c,
        Err(e) => {
            println!("MACHINERY-ERROR replay case does not parse: {}", e);
            std::process::exit(2);
        }
    };
    let mut sink = Sink::default();
    run_case(&c, &mut sink);
    let mut out = sink.out;
    // keep the violations of the recorded metric (a case is run through all of its metrics)
    if let Some(m) = v.get("at").and_then(|a| a.get("metric")).cloned() {
        let col = v.get("at").and_then(|a| a.get("column")).cloned();
        out.retain(|x| {
            let a = x.case.get("at");
            a.and_then(|a| a.get("metric")).cloned().as_ref() == Some(&m) && (col.is_none() || a.and_then(|a| a.get("column")).cloned() == col)
        });
    }
    out
}

/// A group = everything enumerated for one fixed "left side"; the unit handed to the parallel sweep.
enum Group {
    /// pred fixed, truth = every vector of the same length over the first `a` letters
    Labels { ty: &'static str, alphabet: Vec<String>, a: usize, pred: Vec<usize>, perms: &'static str },
    LenMismatch,
    /// scores fixed, truth = every boolean vector
    Scores { scores: Vec<f32>, perms: &'static str },
    /// pred fixed, truth = every non-constant vector over the alphabet (+ a 2-column case each)
    Regr { float: &'static str, alphabet: Vec<f64>, pred: Vec<f64>, perms: &'static str, forms: bool, multi: bool },
    /// points fixed, labels = every labelling with k label values
    Sil { points: Vec<Vec<f64>>, k: usize, perms: &'static str },
    /// first column fixed, other columns = every vector over the alphabet
    Pearson { float: &'static str, alphabet: Vec<f64>, first: Vec<f64>, ncols: usize, perms: &'static str },
    /// explicitly listed cases (the structured long-vector families)
    Explicit { cases: Vec<Case> },
}

const SIL_LABEL_VALUES: [usize; 5] = [5, 2, 9, 1, 7];

impl Group {
    /// cardinality, computed independently of `for_each`
    fn size(&self) -> u64 {
        match self {
            Group::Labels { a, pred, .. } => (*a as u64).pow(pred.len() as u32),
            Group::LenMismatch => 6,
            Group::Scores { scores, .. } => 1u64 << scores.len(),
            Group::Regr { alphabet, pred, multi, .. } => {
                let m = (alphabet.len() as u64).pow(pred.len() as u32) - alphabet.len() as u64;
                if *multi {
                    2 * m
                } else {
                    m
                }
            }
            Group::Sil { points, k, .. } => (*k as u64).pow(points.len() as u32),
            Group::Pearson { alphabet, first, ncols, .. } => (alphabet.len() as u64).pow((first.len() * (ncols - 1)) as u32),
            Group::Explicit { cases } => cases.len() as u64,
        }
    }

    fn for_each(&self, f: &mut dyn FnMut(Case)) {
        match self {
            Group::Labels { ty, alphabet, a, pred, perms } => {
                for truth in en::sequences(pred.len(), *a) {
                    f(Case::Labels { ty: ty.to_string(), alphabet: alphabet.clone(), pred: pred.clone(), truth, perms: perms.to_string() });
                }
            }
            Group::LenMismatch => {
                for (a, b) in [(0usize, 1usize), (1, 0), (2, 3), (3, 2), (4, 1), (1, 5)] {
                    f(Case::LabelsLenMismatch { n_pred: a, n_truth: b });
                }
            }
            Group::Scores { scores, perms } => {
                for t in en::sequences(scores.len(), 2) {
                    f(Case::Scores { scores: scores.clone(), truth: t.iter().map(|&x| x == 1).collect(), perms: perms.to_string() });
                }
            }
            Group::Regr { float, alphabet, pred, perms, forms, multi } => {
                let n = pred.len();
                for t in en::sequences(n, alphabet.len()) {
                    if t.iter().all(|&x| x == t[0]) {
                        continue; // constant truth: outside the stated domain (counted by the caller)
                    }
                    let truth: Vec<f64> = t.iter().map(|&i| alphabet[i]).collect();
                    if *multi {
                        let rev: Vec<f64> = truth.iter().rev().cloned().collect();
                        let rot: Vec<f64> = (0..n).map(|i| truth[(i + 1) % n]).collect();
                        f(Case::RegrMulti { float: float.to_string(), pred_cols: vec![pred.clone(), rev], truth_cols: vec![truth.clone(), rot] });
                    }
                    f(Case::Regr { float: float.to_string(), pred: pred.clone(), truth, perms: perms.to_string(), forms: *forms });
                }
            }
            Group::Sil { points, k, perms } => {
                for l in en::sequences(points.len(), *k) {
                    f(Case::Silhouette { points: points.clone(), labels: l.iter().map(|&i| SIL_LABEL_VALUES[i]).collect(), perms: perms.to_string() });
                }
            }
            Group::Explicit { cases } => {
                for c in cases {
                    f(c.clone());
                }
            }
            Group::Pearson { float, alphabet, first, ncols, perms } => {
                let n = first.len();
                for rest in en::sequences(n * (ncols - 1), alphabet.len()) {
                    let mut cols = vec![first.clone()];
                    for c in 0..ncols - 1 {
                        cols.push(rest[c * n..(c + 1) * n].iter().map(|&i| alphabet[i]).collect());
                    }
                    f(Case::Pearson { float: float.to_string(), cols, perms: perms.to_string() });
                }
            }
        }
    }
}

fn main() {
    let ctx = Ctx::new("C05", Level::Exploration);
    ctx.maybe_replay(&replay_value);
    ctx.set_rule(
        "(a) labels: every (prediction, truth) pair of label vectors of length n over an alphabet of a symbols, for bool (n<=6 quick / n<=8 thorough), \
         usize {3,7,10,42} and String {cat,ant,dog,bee} (n<=4,a=4 quick / n<=5,a=4 and n=6,a=3 thorough), so label sets that differ between the sides are included; \
         (b) scores: every score vector of length 1..5 / 1..6 over {0,.25,.5,.75,1} and of length 1..3 / 1..4 over the clip-boundary alphabet {0,1e-8,.5,1-2^-24,1}, and every vector of length 1..4 / 1..5 over {-0.0,+0.0,1e-8,.5,1} that contains -0.0 (a valid probability equal to 0), x every boolean truth vector; \
         (c) regression: every prediction vector x every non-constant truth vector of length 2..4 over {-2,-1,0,.5,1,3} in f64 (thorough: also length 5 over {-2,0,.5,1,3}; f32: 2..3 / 2..4), plus a 2-column matrix case for n<=3 / n<=4; \
         (d) silhouette: every multiset of 4..6 / 4..7 points of {0..4} (multiplicity <=2) and every 4..5 / 4..6 subset of the 3x3 lattice x every labelling with 2 (n<=5) or 3 (n>=6) label values; \
         (c2/b2) structured long vectors: regression vectors of every length 6..40 / 6..72 whose absolute errors are every strided permutation (stride coprime to n, every offset [every third in quick]) of n distinct values, and score vectors of length 6..20 / 6..32 with heavy ties ((i*s+o) mod m)/m, m in {2,3,4,7}; \
         (L) memory layouts: a subset of (a)-(e) (see source: L-regression, L-scores, L-labels, L-silhouette, L-Pearson) with every input handed over as reversed view of a reversed copy, every-second / every-third element view of a poisoned parent, column-major owned matrix, transposed view of a feature-major matrix, reversed-row view, every-second-row / every-second-column view of a poisoned parent (all combinations of prediction and truth layout); the result must equal the standard-layout run (discrete outputs exactly, floats within twice the tolerance; the share of bit-identical values is reported); \
         (N) large inputs: bases of length 3,4,5,7,17,25 repeated cyclically to n = 1025 and n = 4097 rows for every metric family (silhouette at 4097: thorough only) incl. 17- and 33-column multi-target / Pearson matrices, through the same references (for n a multiple of the base length the reference must also equal the base's: closed form), also under the layouts; (F) silhouette in f32; \
         (S) scale: subsets of the regression / Pearson / silhouette / score catalogues with every value multiplied by 1e-12, 1e-8, 1e-5, 1e-2, 1e3, 1e8 (f64) or 1e-5, 1e-2, 1e3 (f32), Pearson and 3-column multi-target regression also with a different factor per column (1e-8 | 1 | 1e8 ...), scores by 0.5, 1e-3, 1e-6, 1e-12; scale-invariant scores (Pearson r, R2, explained variance, MAPE, silhouette, AUC) and scale-equivariant ones (max / mean / median absolute error, MSE) against the definition on the scaled values at the relative tolerance, without any absolute slack; silhouette additionally with every 4-labelling of 8 points (thorough: every 5-labelling of 10 points); \
         (C) target containers: subsets of the label / silhouette / score catalogues with prediction and truth as array views, owned datasets, dataset views, CountedTargets built directly, `with_labels` results (requested labels = exactly the present ones / a superset with absent labels / a subset that drops samples / a subset plus an absent label), `one_vs_all` datasets, `map_targets` results (renamed to String, mapped to bool), `into_single_target` of standard and strided n x 1 target matrices - each against the definition on the raw (filtered / mapped) label vectors; one-sample regression vectors; silhouette with 1, 4, 5, 6, 7, 9 features at coordinate scale 0.125; \
         (T) translation: subsets of the regression / Pearson / silhouette catalogues with every value v replaced by offset + step * v (offsets 1e3, 1e6, 1e9 in f64, 1e2, 1e4 in f32; steps 0.137 and 1; silhouette coordinates alternately at offset and 10.8 * offset, Pearson columns alternately at offset and offset / 1000): max / mean / median absolute error, MSE, R2, explained variance, Pearson r and silhouette must equal the definition evaluated on the centred values (the subtraction of the offset is exact in f64 for the values as the subject sees them); \
         (e) Pearson: every matrix with 2..4 rows and 2..3 columns (quick) / up to 5 rows or 4 columns (thorough) over {-1,0,2} (and {-1,0,.5,2}), plus every 4x4 and 3x5 (thorough: 4x5) matrix over {-1,2} so that the order of the packed coefficients is observable. \
         Every case is additionally re-run under permutations applied to both sides: all n!-1 for small n (usize/String labels n<=4, bool n<=4/5, scores n<=4/5, regression n<=3/4, silhouette n<=4/5, Pearson rows<=4), the generating set {swap(0,1), rotation, reversal} beyond (the sweep visits every input, so invariance under generators at every input implies invariance under every permutation); quick runs the longest regression length without explicit permutations. \
         evaluations = distinct in-domain inputs run through all of their metrics; non-trivial = labels: >=2 classes and prediction != truth; scores: 0 < AUC < 1; regression: prediction != truth; silhouette: every in-domain labelling; Pearson: some |r| < 1.",
    );
    ctx.assume("confusion-matrix layout: for predicted.confusion_matrix(truth) cell (i,j) counts prediction = class i, truth = class j (comment in confusion_matrix + test_confusion_matrix); classes = sorted union, reversed when exactly two; precision / recall / F-beta / one-vs-all / one-vs-one are the rustdoc's functions of those cells, not an external convention (under this layout linfa's binary `precision` = c00/(c00+c10) is what most texts call recall)");
    ctx.assume("the private cells of ConfusionMatrix are observed through its Debug table");
    ctx.assume("f32 scores of the classification metrics: relative 1e-5 + absolute 1e-6 against the f64 reference; NaN is demanded exactly where the documented quotient is 0/0");
    ctx.assume("ROC curve points / thresholds: 2e-6 absolute; AUC 1e-5 absolute against Mann-Whitney U/(P*N) with ties 1/2; ROC needs both classes (single-class truth vectors counted out_of_domain for ROC, still used for log-loss); scores closer than 1e-10 to each other (the implementation's tie tolerance) are not in the alphabets");
    ctx.assume("log-loss reference clips to [f32::EPSILON, 1 - f32::EPSILON] as the implementation documents by its code (the rustdoc gives no clip level); tolerance relative max(1e-5, n * 2^-24) + 1e-6 (the subject sums n f32 terms sequentially; the n-term exceeds 1e-5 only for the n >= 1025 inputs)");
    ctx.assume("regression tolerance: f64 relative 1e-9 (f32 1e-4) scaled by the operand magnitude (max error, squared max error, SSres/SStot); R2 / explained variance additionally 2*ratio*1e-10/SStot for the documented 1e-10 denominator guard; MSLE only for inputs > -1, MAPE only for receivers without a 0 entry, R2 / EV only for non-constant truth (filtered inputs counted)");
    ctx.assume("silhouette: euclidean, domain = >=2 clusters each with >=2 distinct points (others counted out_of_domain), tolerance 1e-9; Pearson: non-constant columns, >=2 rows, tolerance 1e-9 (f32 1e-4) on the dimensionless scores whatever the scale of the inputs; permuted re-runs of float scores may differ by twice the tolerance (reordered sums), discrete outputs must be identical");
    ctx.assume("translation family: tolerance = the usual relative one plus the conditioning of the definition's own two-pass arithmetic (differences first): the differences p - t, t - mean, x - y are exact, only a mean carries an error delta <= n u |offset|, entering sums of squares as n delta^2; allowance 4 * ratio * n delta^2 / SStot (R2, explained variance) and 4 n (delta_i^2 / SS_i + delta_j^2 / SS_j) (Pearson); none for the error metrics and the silhouette");
    ctx.assume("the p-values of PearsonCorrelation (entropy-seeded permutation test) are not part of the property and not checked");

    // ------------------------------------------------------------------ enumerate groups
    let mut groups: Vec<Group> = Vec::new();
    let strs = |v: &[&str]| -> Vec<String> { v.iter().map(|s| s.to_string()).collect() };

    // (a) labels
    let full_perm_n = ctx.pick(4usize, 5usize);
    let pm = |n: usize, full: usize| -> &'static str {
        if n <= full {
            "all"
        } else {
            "gen"
        }
    };
    for n in 1..=ctx.pick(6usize, 8usize) {
        for pred in en::sequences(n, 2) {
            groups.push(Group::Labels { ty: "bool", alphabet: strs(&["false", "true"]), a: 2, pred, perms: pm(n, full_perm_n) });
        }
    }
    // usize / String: all n! permutations up to n = 4 in both tiers, generators beyond
    let full_perm_multi = 4usize;
    for (ty, alpha) in [("usize", strs(&["3", "7", "10", "42"])), ("string", strs(&["cat", "ant", "dog", "bee"]))] {
        for n in 1..=ctx.pick(4usize, 5usize) {
            for pred in en::sequences(n, 4) {
                groups.push(Group::Labels { ty, alphabet: alpha.clone(), a: 4, pred, perms: pm(n, full_perm_multi) });
            }
        }
        if ctx.thorough() {
            for pred in en::sequences(6, 3) {
                groups.push(Group::Labels { ty, alphabet: alpha[..3].to_vec(), a: 3, pred, perms: "gen" });
            }
        }
    }
    groups.push(Group::LenMismatch);

    // (b) scores
    let score_alpha: [f32; 5] = [0.0, 0.25, 0.5, 0.75, 1.0];
    let edge_alpha: [f32; 5] = [0.0, 1e-8, 0.5, 1.0 - f32::EPSILON / 2.0, 1.0];
    for n in 1..=ctx.pick(5usize, 6usize) {
        for s in en::sequences(n, 5) {
            groups.push(Group::Scores { scores: s.iter().map(|&i| score_alpha[i]).collect(), perms: pm(n, full_perm_n) });
        }
    }
    for n in 1..=ctx.pick(3usize, 4usize) {
        for s in en::sequences(n, 5) {
            groups.push(Group::Scores { scores: s.iter().map(|&i| edge_alpha[i]).collect(), perms: "gen" });
        }
    }

    // negative zero: Pr::new(-0.0) is a valid probability equal to 0 (alone, next to +0.0, next to a
    // tiny positive score); the oracle compares values, so -0.0 ties with +0.0 and ranks lowest
    let negzero_alpha: [f32; 5] = [-0.0, 0.0, 1e-8, 0.5, 1.0];
    for n in 1..=ctx.pick(4usize, 5usize) {
        for s in en::sequences(n, 5) {
            if !s.contains(&0) {
                continue; // without a -0.0 entry the vector belongs to the families above
            }
            groups.push(Group::Scores { scores: s.iter().map(|&i| negzero_alpha[i]).collect(), perms: pm(n, 4) });
        }
    }

    // (c) regression
    let ralpha: Vec<f64> = vec![-2.0, -1.0, 0.0, 0.5, 1.0, 3.0];
    let mut constant_truth_filtered: u64 = 0;
    // n = 5 (thorough only) uses the five-letter alphabet {-2,0,.5,1,3}
    let ralpha5: Vec<f64> = vec![-2.0, 0.0, 0.5, 1.0, 3.0];
    for (float, nmax, full) in [("f64", ctx.pick(4usize, 5usize), ctx.pick(3usize, 4usize)), ("f32", ctx.pick(3usize, 4usize), ctx.pick(3usize, 3usize))] {
        for n in 2..=nmax {
            let alpha = if n >= 5 { &ralpha5 } else { &ralpha };
            // quick: the largest length runs without explicit permutations (every permuted input is
            // itself enumerated and compared with the permutation-invariant reference)
            let perms = if ctx.quick() && n == nmax && n > full { "none" } else { pm(n, full) };
            for p in en::sequences(n, alpha.len()) {
                let multi = n <= ctx.pick(3, 4) && float == "f64";
                constant_truth_filtered += alpha.len() as u64;
                groups.push(Group::Regr { float, alphabet: alpha.clone(), pred: p.iter().map(|&i| alpha[i]).collect(), perms, forms: n <= 3, multi });
            }
        }
    }

    // (c2) long structured vectors (lengths beyond the exhaustive alphabets, where sorting / selection
    // algorithms switch strategy): for every length n and every stride s coprime to n and every offset o,
    // the absolute errors are the strided permutation 0.25 * (1 + (i*s + o) mod n) of n distinct values,
    // with alternating signs on a non-constant truth pattern. Complete over (n, s, o) within the bound.
    let gcd = |mut a: usize, mut b: usize| {
        while b != 0 {
            let t = a % b;
            a = b;
            b = t;
        }
        a
    };
    let long_max = ctx.pick(40usize, 72usize);
    for n in 6..=long_max {
        for float in ["f64", "f32"] {
            let mut cases = Vec::new();
            for st in 1..n {
                if gcd(st, n) != 1 {
                    continue;
                }
                for o in 0..n {
                    if ctx.quick() && o % 3 != 0 {
                        continue;
                    }
                    let truth: Vec<f64> = (0..n).map(|i| (i % 5) as f64 * 0.5 + 1.0).collect();
                    let pred: Vec<f64> = (0..n)
                        .map(|i| {
                            let e = 0.25 * (1 + (i * st + o) % n) as f64;
                            if (i * st) % 2 == 0 {
                                truth[i] + e
                            } else {
                                truth[i] - e
                            }
                        })
                        .collect();
                    // the same errors on top of a large common offset (mean >> spread): one-pass
                    // variance / sum-of-squares formulas cancel catastrophically there. Offsets are
                    // chosen so that every value stays exactly representable in the float type.
                    if o == 0 && (st == 1 || st == n - 1) {
                        let off = if float == "f32" { 1024.0 } else { 67108864.0 };
                        let t2: Vec<f64> = truth.iter().map(|v| v + off).collect();
                        let p2: Vec<f64> = pred.iter().map(|v| v + off).collect();
                        cases.push(Case::Regr { float: float.to_string(), pred: p2, truth: t2, perms: "gen".to_string(), forms: false });
                    }
                    cases.push(Case::Regr { float: float.to_string(), pred, truth, perms: "gen".to_string(), forms: false });
                }
            }
            groups.push(Group::Explicit { cases });
        }
    }
    // (b2) long structured score vectors with many ties: scores ((i*s + o) mod m) / m for m < n, truth
    // pattern i mod 3 == 0, every (n, m, s coprime to n)
    for n in 6..=ctx.pick(20usize, 32usize) {
        let mut cases = Vec::new();
        for m in [2usize, 3, 4, 7] {
            for st in 1..n {
                if gcd(st, n) != 1 {
                    continue;
                }
                for o in 0..m {
                    let scores: Vec<f32> = (0..n).map(|i| ((i * st + o) % m) as f32 / m as f32).collect();
                    let truth: Vec<bool> = (0..n).map(|i| i % 3 == 0).collect();
                    cases.push(Case::Scores { scores, truth, perms: "gen".to_string() });
                }
            }
        }
        groups.push(Group::Explicit { cases });
    }

    // (d) silhouette
    let sil_full = ctx.pick(4usize, 5usize);
    for ms in en::multisets_upto(5, 4, ctx.pick(6, 7), 2) {
        let n = ms.len();
        let k = if n >= 6 { 3 } else { 2 };
        groups.push(Group::Sil { points: ms.iter().map(|&i| vec![i as f64]).collect(), k, perms: pm(n, sil_full) });
    }
    let lat = en::lattice_points(2, 3);
    for ss in en::subsets_upto(9, 4, ctx.pick(5, 6)) {
        let n = ss.len();
        let k = if n >= 6 { 3 } else { 2 };
        groups.push(Group::Sil { points: ss.iter().map(|&i| lat[i].iter().map(|&v| v as f64).collect()).collect(), k, perms: pm(n, sil_full) });
    }

    // (e) Pearson
    let pa3: Vec<f64> = vec![-1.0, 0.0, 2.0];
    let pa4: Vec<f64> = vec![-1.0, 0.0, 0.5, 2.0];
    let mut pearson_shapes: Vec<(&'static str, Vec<f64>, usize, usize)> = vec![
        ("f64", pa3.clone(), 2, 2),
        ("f64", pa3.clone(), 3, 2),
        ("f64", pa3.clone(), 3, 3),
        ("f64", pa3.clone(), 4, 2),
        ("f32", pa3.clone(), 3, 3),
        ("f32", pa3.clone(), 4, 2),
    ];
    // four and five columns over a two-letter alphabet: the packed upper-triangle ORDER of the
    // coefficients only becomes observable from four features on ((0,3) and (1,2) swap places
    // between row-major and column-major packing)
    let pa2: Vec<f64> = vec![-1.0, 2.0];
    pearson_shapes.push(("f64", pa2.clone(), 4, 4));
    pearson_shapes.push(("f64", pa2.clone(), 3, 5));
    if ctx.thorough() {
        pearson_shapes.push(("f64", pa2.clone(), 4, 5));
        pearson_shapes.push(("f32", pa2.clone(), 4, 4));
        pearson_shapes.push(("f64", pa3.clone(), 4, 3));
        pearson_shapes.push(("f64", pa3.clone(), 3, 4));
        pearson_shapes.push(("f64", pa3.clone(), 5, 2));
        pearson_shapes.push(("f64", pa4.clone(), 4, 2));
        pearson_shapes.push(("f32", pa4.clone(), 4, 2));
    }
    for (float, alpha, rows, ncols) in &pearson_shapes {
        for first in en::sequences(*rows, alpha.len()) {
            groups.push(Group::Pearson { float, alphabet: alpha.clone(), first: first.iter().map(|&i| alpha[i]).collect(), ncols: *ncols, perms: pm(*rows, 4) });
        }
    }

    // ------------------------------------------------------------------ hardening families
    // (L) memory layouts on a subset of the catalogue; (N) replicated inputs with n in {1025, 4097}
    // (and 17 / 33 columns); (F) f32 silhouette.
    let lay = |c: Case| Case::Layouts { base: Box::new(c) };
    let chunked = |groups: &mut Vec<Group>, cases: Vec<Case>, per: usize| {
        let mut it = cases.into_iter().peekable();
        while it.peek().is_some() {
            groups.push(Group::Explicit { cases: it.by_ref().take(per).collect() });
        }
    };
    {
        let mut cases: Vec<Case> = Vec::new();
        // L-regression, single target: every (pred, truth) of length 2 (quick) / 2..3 (thorough) over the
        // alphabet whose truth is non-constant, f64 and f32; plus structured vectors of length 5..33
        for float in ["f64", "f32"] {
            for n in 2..=ctx.pick(2usize, 3usize) {
                for p in en::sequences(n, ralpha.len()) {
                    for t in en::sequences(n, ralpha.len()) {
                        if t.iter().all(|&x| x == t[0]) {
                            continue;
                        }
                        if ctx.thorough() && n == 3 && float == "f32" && (p[0] + t[0]) % 3 != 0 {
                            continue;
                        }
                        cases.push(lay(Case::Regr { float: float.into(), pred: p.iter().map(|&i| ralpha[i]).collect(), truth: t.iter().map(|&i| ralpha[i]).collect(), perms: "none".into(), forms: false }));
                    }
                }
            }
            for n in [5usize, 8, 9, 16, 17, 32, 33] {
                for st in [1usize, 3] {
                    let truth: Vec<f64> = (0..n).map(|i| (i % 5) as f64 * 0.5 + 1.0).collect();
                    let pred: Vec<f64> = (0..n).map(|i| truth[i] + if i % 2 == 0 { 0.25 } else { -0.25 } * (1 + (i * st) % n) as f64).collect();
                    cases.push(lay(Case::Regr { float: float.into(), pred, truth, perms: "none".into(), forms: false }));
                }
            }
        }
        // L-regression, multi target: 2 and 3 columns of length 2..4 built from the alphabet by rotation
        for float in ["f64", "f32"] {
            for n in 2..=ctx.pick(3usize, 4usize) {
                for (k, p) in en::sequences(n, ralpha.len()).into_iter().enumerate() {
                    if k % ctx.pick(7, 2) != 0 {
                        continue;
                    }
                    let pc: Vec<f64> = p.iter().map(|&i| ralpha[i]).collect();
                    let t0: Vec<f64> = (0..n).map(|i| ralpha[(p[i] + i + 1) % ralpha.len()]).collect();
                    if t0.iter().all(|x| *x == t0[0]) {
                        continue;
                    }
                    let rev: Vec<f64> = pc.iter().rev().cloned().collect();
                    let rot: Vec<f64> = (0..n).map(|i| t0[(i + 1) % n]).collect();
                    let mut pcs = vec![pc.clone(), rot.clone()];
                    let mut tcs = vec![t0.clone(), rev.clone()];
                    if k % 2 == 0 {
                        pcs.push(rev);
                        tcs.push(rot);
                    }
                    if tcs.iter().any(|c| c.iter().all(|x| *x == c[0])) {
                        continue;
                    }
                    cases.push(lay(Case::RegrMulti { float: float.into(), pred_cols: pcs, truth_cols: tcs }));
                }
            }
        }
        // L-scores: every score vector of length 2..3 (thorough: ..4) x every truth
        for n in 2..=ctx.pick(3usize, 4usize) {
            for sv in en::sequences(n, 5) {
                for t in en::sequences(n, 2) {
                    cases.push(lay(Case::Scores { scores: sv.iter().map(|&i| score_alpha[i]).collect(), truth: t.iter().map(|&x| x == 1).collect(), perms: "none".into() }));
                }
            }
        }
        // L-labels: bool n<=3 (4), usize / String n<=3 over three letters (thorough: n = 4 over four letters for String)
        for n in 1..=ctx.pick(3usize, 4usize) {
            for p in en::sequences(n, 2) {
                for t in en::sequences(n, 2) {
                    cases.push(lay(Case::Labels { ty: "bool".into(), alphabet: strs(&["false", "true"]), pred: p.clone(), truth: t, perms: "none".into() }));
                }
            }
        }
        for (ty, alpha) in [("usize", strs(&["3", "7", "10", "42"])), ("string", strs(&["cat", "ant", "dog", "bee"]))] {
            for n in 1..=3usize {
                for p in en::sequences(n, 3) {
                    for t in en::sequences(n, 3) {
                        cases.push(lay(Case::Labels { ty: ty.into(), alphabet: alpha.clone(), pred: p.clone(), truth: t, perms: "none".into() }));
                    }
                }
            }
            if ctx.thorough() && ty == "string" {
                for p in en::sequences(4, 4) {
                    for t in en::sequences(4, 4) {
                        cases.push(lay(Case::Labels { ty: ty.into(), alphabet: alpha.clone(), pred: p.clone(), truth: t, perms: "none".into() }));
                    }
                }
            }
        }
        // L-silhouette (f64 and f32): every 4-subset (thorough: and 5-subset) of the 3x3 lattice x every 2-labelling
        for float in ["f64", "f32"] {
            for ss in en::subsets_upto(9, 4, ctx.pick(4, 5)) {
                if float == "f32" && ctx.quick() && ss[0] != 0 {
                    continue;
                }
                for l in en::sequences(ss.len(), 2) {
                    let points: Vec<Vec<f64>> = ss.iter().map(|&i| lat[i].iter().map(|&v| v as f64).collect()).collect();
                    cases.push(lay(Case::SilhouetteF { float: float.into(), points, labels: l.iter().map(|&i| SIL_LABEL_VALUES[i]).collect(), perms: "none".into() }));
                }
            }
        }
        // L-Pearson: every 3x3 matrix over {-1,0,2} (f64, f32), every 4x4 over {-1,2} (f64; thorough)
        for float in ["f64", "f32"] {
            for q in en::sequences(9, 3) {
                cases.push(lay(Case::Pearson { float: float.into(), cols: (0..3).map(|c| q[c * 3..c * 3 + 3].iter().map(|&i| pa3[i]).collect()).collect(), perms: "none".into() }));
            }
        }
        if ctx.thorough() {
            for q in en::sequences(16, 2) {
                cases.push(lay(Case::Pearson { float: "f64".into(), cols: (0..4).map(|c| q[c * 4..c * 4 + 4].iter().map(|&i| pa2[i]).collect()).collect(), perms: "none".into() }));
            }
        }
        // F-silhouette: f32 over every 4..5 (thorough ..6) subset of the lattice x every labelling, generators
        for ss in en::subsets_upto(9, 4, ctx.pick(5, 6)) {
            let n = ss.len();
            let k = if n >= 6 { 3 } else { 2 };
            for l in en::sequences(n, k) {
                let points: Vec<Vec<f64>> = ss.iter().map(|&i| lat[i].iter().map(|&v| v as f64 + if i % 2 == 0 { 0.1 } else { 0.0 }).collect()).collect();
                cases.push(Case::SilhouetteF { float: "f32".into(), points, labels: l.iter().map(|&i| SIL_LABEL_VALUES[i]).collect(), perms: "gen".into() });
            }
        }
        ctx.extra("hardening.layout_and_f32_cases_enumerated", json!(cases.len()));
        chunked(&mut groups, cases, 400);
    }
    {
        // (N) large inputs. 1025 = 5 * 5 * 41 and 4097 = 17 * 241: bases of length 5 / 25 / 17 replicate
        // exactly (closed forms: scores equal those of the base), lengths 3, 4, 7 leave a partial block.
        let mut cases: Vec<Case> = Vec::new();
        let sizes: Vec<usize> = vec![1025, 4097];
        let rep = |c: Case, n: usize, layouts: bool| Case::Replicated { base: Box::new(c), n, layouts };
        for &n in &sizes {
            for float in ["f64", "f32"] {
                for m in [3usize, 4, 5, 7, 17, 25] {
                    for variant in 0..2usize {
                        let truth: Vec<f64> = (0..m).map(|i| ((i * (variant + 1)) % 5) as f64 * 0.5 + 1.0 + if i == 0 { 0.5 } else { 0.0 }).collect();
                        let pred: Vec<f64> = (0..m).map(|i| truth[i] + if (i + variant) % 2 == 0 { 0.25 } else { -0.25 } * (1 + (i * (2 * variant + 1)) % m) as f64).collect();
                        cases.push(rep(Case::Regr { float: float.into(), pred, truth, perms: "gen".into(), forms: false }, n, true));
                    }
                }
                // multi-target with 2, 17 and 33 columns
                for ncols in [2usize, 17, 33] {
                    let m = if n == 1025 { 25 } else { 17 };
                    let tcs: Vec<Vec<f64>> = (0..ncols).map(|j| (0..m).map(|i| ((i * (j % 4 + 1) + j) % 7) as f64 * 0.5 + 1.0).collect()).collect();
                    let pcs: Vec<Vec<f64>> = (0..ncols).map(|j| (0..m).map(|i| tcs[j][i] + (((i + 2 * j) % 5) as f64 - 2.0) * 0.25).collect()).collect();
                    cases.push(rep(Case::RegrMulti { float: float.into(), pred_cols: pcs, truth_cols: tcs }, n, true));
                }
                // Pearson with 3, 17, 33 columns
                for ncols in [3usize, 17, 33] {
                    for m in [7usize, if n == 1025 { 25 } else { 17 }] {
                        let cols: Vec<Vec<f64>> = (0..ncols).map(|j| (0..m).map(|i| ((i * (j % 5 + 1) + j * j) % 7) as f64 - 3.0 + if (i + j) % 3 == 0 { 0.5 } else { 0.0 }).collect()).collect();
                        cases.push(rep(Case::Pearson { float: float.into(), cols, perms: "gen".into() }, n, true));
                    }
                }
            }
            // scores with heavy ties and boundary scores
            for (m, modulus) in [(5usize, 4usize), (7, 3), (17, 5), (25, 7)] {
                let scores: Vec<f32> = (0..m).map(|i| ((i * 3 + 1) % (modulus + 1)) as f32 / modulus as f32).collect();
                let truth: Vec<bool> = (0..m).map(|i| i % 3 == 0 || i == m - 1).collect();
                cases.push(rep(Case::Scores { scores, truth, perms: "gen".into() }, n, true));
            }
            // labels
            for (ty, alpha) in [("bool", strs(&["false", "true"])), ("usize", strs(&["3", "7", "10", "42"])), ("string", strs(&["cat", "ant", "dog", "bee"]))] {
                for m in [5usize, 7, 17] {
                    let a = alpha.len();
                    let pred: Vec<usize> = (0..m).map(|i| (i * 3 + 1) % a).collect();
                    let truth: Vec<usize> = (0..m).map(|i| (i * i + i / 2) % a).collect();
                    cases.push(rep(Case::Labels { ty: ty.into(), alphabet: alpha.clone(), pred, truth, perms: "gen".into() }, n, true));
                }
            }
            // silhouette: 8 lattice points in two / three clusters, replicated (f64 and f32); layouts at 1025 only
            for float in ["f64", "f32"] {
                for k in [2usize, 3] {
                    let m = 8usize;
                    let points: Vec<Vec<f64>> = (0..m).map(|i| vec![(i % 3) as f64, (i / 3) as f64 + if i % 2 == 0 { 0.25 } else { 0.0 }]).collect();
                    let labels: Vec<usize> = (0..m).map(|i| SIL_LABEL_VALUES[(i * 5 + i / 4) % k]).collect();
                    if n == 4097 && (k == 3 || ctx.quick()) {
                        continue; // 4097^2 pair distances: thorough only, two clusters
                    }
                    cases.push(rep(Case::SilhouetteF { float: float.into(), points, labels, perms: "none".into() }, n, n == 1025 && float == "f64" && k == 2 && ctx.thorough()));
                }
            }
        }
        ctx.extra("hardening.large_cases_enumerated", json!(cases.len()));
        chunked(&mut groups, cases, 1);
    }

    {
        // (S) scale: scaled copies of catalogue members, f64 factors 1e-12 .. 1e8, f32 1e-5 .. 1e3,
        // per-column factor mixes (a tiny column next to a huge one) for Pearson / multi-target
        let mut cases: Vec<Case> = Vec::new();
        let sc = |c: Case, f: Vec<f64>| Case::Scaled { base: Box::new(c), factors: f };
        let f64_factors = [1e-12, 1e-8, 1e-5, 1e-2, 1e3, 1e8];
        let f32_factors = [1e-5, 1e-2, 1e3];
        let factors_of = |float: &str| -> Vec<f64> { if float == "f32" { f32_factors.to_vec() } else { f64_factors.to_vec() } };
        let mixes_of = |float: &str| -> Vec<Vec<f64>> {
            if float == "f32" {
                vec![vec![1e-5, 1e3, 1.0], vec![1e3, 1e-2, 1e-5]]
            } else {
                vec![vec![1e-8, 1.0, 1e8], vec![1e-12, 1e3, 1e-5], vec![1e8, 1e-12, 1e-2]]
            }
        };
        for float in ["f64", "f32"] {
            // S-regression: every (pred, truth) of length 2, every third of length 3 (thorough: all), structured lengths
            for n in 2..=3usize {
                for (k, p) in en::sequences(n, ralpha.len()).into_iter().enumerate() {
                    for t in en::sequences(n, ralpha.len()) {
                        if t.iter().all(|&x| x == t[0]) {
                            continue;
                        }
                        if n == 3 && (k + t[0] + 2 * t[1]) % ctx.pick(9, 2) != 0 {
                            continue;
                        }
                        for &f in &factors_of(float) {
                            cases.push(sc(Case::Regr { float: float.into(), pred: p.iter().map(|&i| ralpha[i]).collect(), truth: t.iter().map(|&i| ralpha[i]).collect(), perms: "none".into(), forms: false }, vec![f]));
                        }
                    }
                }
            }
            for n in [5usize, 8, 17, 33] {
                let truth: Vec<f64> = (0..n).map(|i| (i % 5) as f64 * 0.5 + 1.0).collect();
                let pred: Vec<f64> = (0..n).map(|i| truth[i] + if i % 2 == 0 { 0.25 } else { -0.25 } * (1 + (i * 3) % n) as f64).collect();
                for &f in &factors_of(float) {
                    cases.push(sc(Case::Regr { float: float.into(), pred: pred.clone(), truth: truth.clone(), perms: "none".into(), forms: false }, vec![f]));
                }
                // multi-target: three columns with mixed factors
                let rot: Vec<f64> = (0..n).map(|i| truth[(i + 1) % n]).collect();
                let rev: Vec<f64> = pred.iter().rev().cloned().collect();
                for mix in mixes_of(float) {
                    cases.push(sc(Case::RegrMulti { float: float.into(), pred_cols: vec![pred.clone(), rev.clone(), rot.clone()], truth_cols: vec![truth.clone(), rot.clone(), truth.clone()] }, mix));
                }
            }
            // S-Pearson: every 3x3 matrix over {-1,0,2} x every global factor and every per-column mix;
            // thorough: also every 4x2 matrix
            for q in en::sequences(9, 3) {
                let cols: Vec<Vec<f64>> = (0..3).map(|c| q[c * 3..c * 3 + 3].iter().map(|&i| pa3[i]).collect()).collect();
                for &f in &factors_of(float) {
                    cases.push(sc(Case::Pearson { float: float.into(), cols: cols.clone(), perms: "none".into() }, vec![f]));
                }
                for mix in mixes_of(float) {
                    cases.push(sc(Case::Pearson { float: float.into(), cols: cols.clone(), perms: "none".into() }, mix));
                }
            }
            if ctx.thorough() {
                for q in en::sequences(8, 3) {
                    let cols: Vec<Vec<f64>> = (0..2).map(|c| q[c * 4..c * 4 + 4].iter().map(|&i| pa3[i]).collect()).collect();
                    for &f in &factors_of(float) {
                        cases.push(sc(Case::Pearson { float: float.into(), cols: cols.clone(), perms: "none".into() }, vec![f]));
                    }
                    for mix in mixes_of(float) {
                        cases.push(sc(Case::Pearson { float: float.into(), cols: cols.clone(), perms: "none".into() }, mix));
                    }
                }
            }
            // S-silhouette: every 4-subset (thorough: 5-subset) of the lattice x every 2-labelling x every factor
            for ss in en::subsets_upto(9, 4, ctx.pick(4, 5)) {
                for l in en::sequences(ss.len(), 2) {
                    let points: Vec<Vec<f64>> = ss.iter().map(|&i| lat[i].iter().map(|&v| v as f64).collect()).collect();
                    for &f in &factors_of(float) {
                        cases.push(sc(Case::SilhouetteF { float: float.into(), points: points.clone(), labels: l.iter().map(|&i| SIL_LABEL_VALUES[i]).collect(), perms: "none".into() }, vec![f]));
                    }
                }
            }
        }
        // S-scores (AUC is a rank statistic: invariant under any positive factor): every score vector of
        // length 2..3 (thorough ..4) x every truth x factors 0.5, 1e-3, 1e-6, 1e-12
        for n in 2..=ctx.pick(3usize, 4usize) {
            for sv in en::sequences(n, 5) {
                for t in en::sequences(n, 2) {
                    for f in [0.5, 1e-3, 1e-6, 1e-12] {
                        cases.push(sc(Case::Scores { scores: sv.iter().map(|&i| score_alpha[i]).collect(), truth: t.iter().map(|&x| x == 1).collect(), perms: "none".into() }, vec![f]));
                    }
                }
            }
        }
        ctx.extra("hardening.scaled_cases_enumerated", json!(cases.len()));
        chunked(&mut groups, cases, 500);
        // silhouette with four (thorough: and five) clusters, every labelling = every interleaving of the sample order
        groups.push(Group::Sil { points: (0..8).map(|i| vec![i as f64 * 0.5 + if i % 3 == 0 { 0.125 } else { 0.0 }]).collect(), k: 4, perms: "gen" });
        if ctx.thorough() {
            groups.push(Group::Sil { points: (0..10).map(|i| vec![(i % 4) as f64, (i / 4) as f64 * 0.75]).collect(), k: 5, perms: "gen" });
        }
    }

    {
        // (C) target containers + (1) one-sample / several-feature shapes
        let mut cases: Vec<Case> = Vec::new();
        let con = |c: Case| Case::Containers { base: Box::new(c) };
        for n in 1..=ctx.pick(4usize, 5usize) {
            for p in en::sequences(n, 2) {
                for t in en::sequences(n, 2) {
                    cases.push(con(Case::Labels { ty: "bool".into(), alphabet: strs(&["false", "true"]), pred: p.clone(), truth: t, perms: "none".into() }));
                }
            }
        }
        for (ty, alpha) in [("usize", strs(&["3", "7", "10", "42"])), ("string", strs(&["cat", "ant", "dog", "bee"]))] {
            for n in 1..=ctx.pick(3usize, 4usize) {
                for p in en::sequences(n, 3) {
                    for t in en::sequences(n, 3) {
                        cases.push(con(Case::Labels { ty: ty.into(), alphabet: alpha.clone(), pred: p.clone(), truth: t, perms: "none".into() }));
                    }
                }
            }
        }
        // silhouette: 4- and 5-subsets of the lattice with every 2-labelling, 6-subsets (thorough: all; quick: those containing point 0) with every 3-labelling
        for ss in en::subsets_upto(9, 4, 6) {
            let n = ss.len();
            if n == 6 && ctx.quick() && !(ss[0] == 0 && ss[1] == 1) {
                continue;
            }
            let k = if n >= 6 { 3 } else { 2 };
            for l in en::sequences(n, k) {
                let points: Vec<Vec<f64>> = ss.iter().map(|&i| lat[i].iter().map(|&v| v as f64).collect()).collect();
                cases.push(con(Case::Silhouette { points, labels: l.iter().map(|&i| SIL_LABEL_VALUES[i]).collect(), perms: "none".into() }));
            }
        }
        // scores: every score vector of length 2..3 x every truth
        for n in 2..=3usize {
            for sv in en::sequences(n, 5) {
                for t in en::sequences(n, 2) {
                    cases.push(con(Case::Scores { scores: sv.iter().map(|&i| score_alpha[i]).collect(), truth: t.iter().map(|&x| x == 1).collect(), perms: "none".into() }));
                }
            }
        }
        // one-sample regression vectors (R2 / explained variance are out of domain, the other six are not)
        for float in ["f64", "f32"] {
            for a in &ralpha {
                for b in &ralpha {
                    cases.push(Case::Regr { float: float.into(), pred: vec![*a], truth: vec![*b], perms: "none".into(), forms: true });
                }
            }
        }
        // silhouette with 1, 4, 5, 6, 7 and 9 features (the distance sums run through ndarray's unrolled
        // kernels): 6 points = lattice point + feature pattern, every 2-labelling, sub-unit scale 0.125
        for d in [1usize, 4, 5, 6, 7, 9] {
            for float in ["f64", "f32"] {
                for l in en::sequences(6, 2) {
                    let points: Vec<Vec<f64>> = (0..6).map(|i| (0..d).map(|j| 0.125 * (((i * (j + 2) + j * j) % 5) as f64 + if j == 0 { i as f64 } else { 0.0 })).collect()).collect();
                    cases.push(Case::SilhouetteF { float: float.into(), points, labels: l.iter().map(|&i| SIL_LABEL_VALUES[i]).collect(), perms: "gen".into() });
                }
            }
        }
        ctx.extra("hardening.container_and_shape_cases_enumerated", json!(cases.len()));
        chunked(&mut groups, cases, 300);
    }

    {
        // (T) translation: shifted copies (offset + step * value), f64 offsets 1e3, 1e6, 1e9, f32 1e2, 1e4,
        // steps 0.137 (non-dyadic: products and squares of the shifted values are inexact) and 1
        let mut cases: Vec<Case> = Vec::new();
        let sh = |c: Case, o: f64, s: f64| Case::Shifted { base: Box::new(c), offset: o, step: s };
        let offsets_of = |float: &str| -> Vec<f64> { if float == "f32" { vec![1e2, 1e4] } else { vec![1e3, 1e6, 1e9] } };
        let steps = [0.137, 1.0];
        for float in ["f64", "f32"] {
            // T-regression: every (pred, truth) of length 2, a third of length 3 (thorough: all), structured lengths
            for n in 2..=3usize {
                for (k, p) in en::sequences(n, ralpha.len()).into_iter().enumerate() {
                    for t in en::sequences(n, ralpha.len()) {
                        if t.iter().all(|&x| x == t[0]) {
                            continue;
                        }
                        if n == 3 && (k + t[0] + 2 * t[1]) % ctx.pick(9, 2) != 0 {
                            continue;
                        }
                        for &o in &offsets_of(float) {
                            for &s in &steps {
                                cases.push(sh(Case::Regr { float: float.into(), pred: p.iter().map(|&i| ralpha[i]).collect(), truth: t.iter().map(|&i| ralpha[i]).collect(), perms: "none".into(), forms: false }, o, s));
                            }
                        }
                    }
                }
            }
            for n in [5usize, 8, 17, 33, 64] {
                let truth: Vec<f64> = (0..n).map(|i| (i % 5) as f64 * 0.5 + 1.0).collect();
                let pred: Vec<f64> = (0..n).map(|i| truth[i] + if i % 2 == 0 { 0.25 } else { -0.25 } * (1 + (i * 3) % n) as f64).collect();
                for &o in &offsets_of(float) {
                    for &s in &steps {
                        cases.push(sh(Case::Regr { float: float.into(), pred: pred.clone(), truth: truth.clone(), perms: "none".into(), forms: false }, o, s));
                    }
                }
            }
            // T-Pearson: every 3x3 matrix over {-1,0,2}; thorough: every 4x2
            for q in en::sequences(9, 3) {
                let cols: Vec<Vec<f64>> = (0..3).map(|c| q[c * 3..c * 3 + 3].iter().map(|&i| pa3[i]).collect()).collect();
                for &o in &offsets_of(float) {
                    for &s in &steps {
                        cases.push(sh(Case::Pearson { float: float.into(), cols: cols.clone(), perms: "none".into() }, o, s));
                    }
                }
            }
            if ctx.thorough() {
                for q in en::sequences(8, 3) {
                    let cols: Vec<Vec<f64>> = (0..2).map(|c| q[c * 4..c * 4 + 4].iter().map(|&i| pa3[i]).collect()).collect();
                    for &o in &offsets_of(float) {
                        cases.push(sh(Case::Pearson { float: float.into(), cols: cols.clone(), perms: "none".into() }, o, 0.137));
                    }
                }
            }
            // T-silhouette: every 4- and 5-subset of the lattice x every 2-labelling (thorough: 6-subsets x
            // 3-labellings), plus 6 points with 1, 4, 5, 7, 9 features
            for ss in en::subsets_upto(9, 4, ctx.pick(5, 6)) {
                let n = ss.len();
                let k = if n >= 6 { 3 } else { 2 };
                for l in en::sequences(n, k) {
                    let points: Vec<Vec<f64>> = ss.iter().map(|&i| lat[i].iter().map(|&v| v as f64).collect()).collect();
                    for &o in &offsets_of(float) {
                        for &s in &steps {
                            if s == 1.0 && n >= 5 {
                                continue;
                            }
                            cases.push(sh(Case::SilhouetteF { float: float.into(), points: points.clone(), labels: l.iter().map(|&i| SIL_LABEL_VALUES[i]).collect(), perms: "none".into() }, o, s));
                        }
                    }
                }
            }
            for d in [1usize, 4, 5, 7, 9] {
                for l in en::sequences(6, 2) {
                    let points: Vec<Vec<f64>> = (0..6).map(|i| (0..d).map(|j| ((i * (j + 2) + j * j) % 5) as f64 + if j == 0 { i as f64 } else { 0.0 }).collect()).collect();
                    for &o in &offsets_of(float) {
                        cases.push(sh(Case::SilhouetteF { float: float.into(), points: points.clone(), labels: l.iter().map(|&i| SIL_LABEL_VALUES[i]).collect(), perms: "none".into() }, o, 0.137));
                    }
                }
            }
        }
        ctx.extra("hardening.shifted_cases_enumerated", json!(cases.len()));
        chunked(&mut groups, cases, 500);
    }

    let enumerated: u64 = groups.iter().map(|g| g.size()).sum();
    ctx.extra("groups", json!(groups.len()));
    ctx.extra("cases_enumerated", json!(enumerated));
    ctx.extra("regression.constant_truth_vectors_filtered", json!(constant_truth_filtered));
    for _ in 0..constant_truth_filtered {
        ctx.out_of_domain();
    }

    // ------------------------------------------------------------------ sweep
    let run = AtomicU64::new(0);
    par_sweep(&ctx, "metrics sweep", &groups, |g| {
        let mut total = Cnt::default();
        let mut viols = Sink::default();
        let mut k: u64 = 0;
        g.for_each(&mut |c: Case| {
            let cnt = run_case(&c, &mut viols);
            total.merge(cnt);
            k += 1;
        });
        run.fetch_add(k, Ordering::Relaxed);
        ctx.evals(total.evals, total.nontrivial);
        for _ in 0..total.ood {
            ctx.out_of_domain();
        }
        for _ in 0..total.indet {
            ctx.indeterminate();
        }
        for (key, v) in &total.extra {
            ctx.bump(key, *v);
        }
        ctx.violations(viols.out);
    });
    // evidence samples: deterministic, every family represented (the context keeps the offers
    // whose ordinal + seed is a power of two, so families are assigned by trailing ones)
    {
        let fam = |g: &Group| -> usize {
            match g {
                Group::Labels { ty, .. } => {
                    if *ty == "bool" {
                        0
                    } else {
                        1
                    }
                }
                Group::Scores { .. } => 2,
                Group::Regr { multi, .. } => {
                    if *multi {
                        4
                    } else {
                        3
                    }
                }
                Group::Sil { .. } => 5,
                Group::Pearson { .. } => 6,
                Group::LenMismatch => 7,
                Group::Explicit { .. } => 3,
            }
        };
        let by_fam: Vec<Vec<&Group>> = (0..7).map(|f| groups.iter().filter(|g| fam(g) == f).collect()).collect();
        for i in 0..64u64 {
            let f = ((i + ctx.seed % 7).trailing_ones() as usize) % 7;
            let gs = &by_fam[f];
            if gs.is_empty() {
                continue;
            }
            let g = gs[(gs.len() / 2 + 37 * i as usize) % gs.len()];
            let want = (g.size() / 2 + 5 * i) % g.size();
            let mut k = 0u64;
            let mut pick: Option<Case> = None;
            g.for_each(&mut |c: Case| {
                if k == want {
                    pick = Some(c);
                }
                k += 1;
            });
            if pick.is_none() {
                // the group filtered this index (constant truth): take its first case
                g.for_each(&mut |c: Case| {
                    if pick.is_none() {
                        pick = Some(c);
                    }
                });
            }
            ctx.sample(|| serde_json::to_value(pick.as_ref().unwrap()).unwrap());
        }
    }
    let run = run.load(Ordering::Relaxed);
    ctx.extra("cases_run", json!(run));
    let capped = ctx.over_budget();
    if run != enumerated && !capped {
        println!("MACHINERY-ERROR C05 ran {} cases but the enumerators promise {}", run, enumerated);
        std::process::exit(2);
    }
    ctx.finish(&replay_value);
}
