//! Target containers: the metrics read labels through the `Labels` / `AsTargets` traits of whatever
//! container they are handed. Every container form of the same (prediction, truth) must give the
//! value of the definition computed from the raw label vectors: plain arrays, array views, owned
//! datasets, dataset views, `CountedTargets` (built directly, by `with_labels` with exactly the
//! present labels / a superset with absent labels / a subset, by `one_vs_all`), `map_targets`
//! results, `into_single_target` of an n x 1 target matrix (also a strided one).

use crate::classif::{parse_cm, Lab, Parsed};
use crate::common::*;
use crate::report;
use linfa::dataset::{CountedTargets, DatasetBase, Pr};
use linfa::metrics::{BinaryClassification, ConfusionMatrix, SilhouetteScore, ToConfusionMatrix};
use lvmc_core::{guarded, json};
use ndarray::{s, Array1, Array2, Axis};
use std::fmt::Display;

/// members + cells by the definition (sorted union of labels, reversed when binary; cell (i, j) =
/// number of samples with prediction = class i and truth = class j)
pub fn ref_cm<L: Lab>(lp: &[L], lt: &[L]) -> Parsed {
    let mut classes: Vec<L> = lp.iter().chain(lt.iter()).cloned().collect();
    classes.sort();
    classes.dedup();
    if classes.len() == 2 {
        classes.reverse();
    }
    let m = classes
        .iter()
        .map(|ci| classes.iter().map(|cj| lp.iter().zip(lt).filter(|(a, b)| *a == ci && *b == cj).count() as f64).collect())
        .collect();
    Parsed { members: classes.iter().map(|c| c.to_string()).collect(), m }
}

type CmRes<A> = Result<linfa::error::Result<ConfusionMatrix<A>>, String>;

fn check_cm<A: Display>(form: &str, r: CmRes<A>, exp: &Parsed, outer: &Case, cnt: &mut Cnt, viols: &mut Sink) {
    cnt.bump("containers.confusion_matrices_compared", 1);
    let a = json!({"metric": "confusion_matrix", "form": form});
    match r {
        Ok(Ok(cm)) => match parse_cm(&cm) {
            Ok(p) if p == *exp => {}
            other => {
                report!(
                    viols,
                    "confusion_matrix.target_container_dependence",
                    outer,
                    a,
                    "{}: classes / cells {:?}; the definition on the raw label vectors gives classes {:?} cells {:?}",
                    form,
                    other.map(|p| (p.members, p.m)),
                    exp.members,
                    exp.m
                );
            }
        },
        Ok(Err(e)) => report!(viols, "confusion_matrix.target_container_dependence", outer, a, "{}: Err({}); expected classes {:?} cells {:?}", form, e, exp.members, exp.m),
        Err(p) => report!(viols, "confusion_matrix.target_container_dependence", outer, a, "{}: panicked: {}; expected classes {:?} cells {:?}", form, p, exp.members, exp.m),
    }
}

fn index_records(n: usize) -> Array2<f64> {
    Array2::from_shape_fn((n, 1), |(i, _)| i as f64)
}

/// container forms available for every label type
pub fn containers_labels<L: Lab>(outer: &Case, alphabet: &[String], pred: &[usize], truth: &[usize], viols: &mut Sink) -> Cnt {
    let mut cnt = Cnt::default();
    let n = pred.len();
    let lp: Vec<L> = pred.iter().map(|&i| L::parse(&alphabet[i])).collect();
    let lt: Vec<L> = truth.iter().map(|&i| L::parse(&alphabet[i])).collect();
    let exp = ref_cm(&lp, &lt);
    let ap = Array1::from(lp.clone());
    let at_ = Array1::from(lt.clone());
    let rec = index_records(n);
    let dp = DatasetBase::new(rec.clone(), ap.clone());
    let dt = DatasetBase::new(rec.clone(), at_.clone());
    cnt.evals += 1;
    cnt.nontrivial += 1;
    cnt.bump("containers.label_cases", 1);

    check_cm("array.cm(&array)", guarded(|| ap.confusion_matrix(&at_)), &exp, outer, &mut cnt, viols);
    check_cm("view.cm(&view)", guarded(|| ap.view().confusion_matrix(&at_.view())), &exp, outer, &mut cnt, viols);
    check_cm("view.cm(view)", guarded(|| ap.view().confusion_matrix(at_.view())), &exp, outer, &mut cnt, viols);
    check_cm("dataset.cm(&dataset)", guarded(|| dp.confusion_matrix(&dt)), &exp, outer, &mut cnt, viols);
    check_cm("dataset_view.cm(&dataset_view)", guarded(|| dp.view().confusion_matrix(&dt.view())), &exp, outer, &mut cnt, viols);
    check_cm("dataset.cm(&dataset_view)", guarded(|| dp.confusion_matrix(&dt.view())), &exp, outer, &mut cnt, viols);
    check_cm("dataset_view.cm(&dataset)", guarded(|| dp.view().confusion_matrix(&dt)), &exp, outer, &mut cnt, viols);
    check_cm("array.cm(&dataset_view)", guarded(|| ap.confusion_matrix(&dt.view())), &exp, outer, &mut cnt, viols);
    check_cm("dataset.cm(&array)", guarded(|| dp.confusion_matrix(&at_)), &exp, outer, &mut cnt, viols);
    // CountedTargets built directly, as receiver and as argument
    let cp = DatasetBase::new(rec.clone(), CountedTargets::new(ap.clone()));
    let ct = DatasetBase::new(rec.clone(), CountedTargets::new(at_.clone()));
    check_cm("counted_dataset.cm(&counted_dataset)", guarded(|| cp.confusion_matrix(&ct)), &exp, outer, &mut cnt, viols);
    check_cm("counted_dataset.cm(&array)", guarded(|| cp.confusion_matrix(&at_)), &exp, outer, &mut cnt, viols);
    check_cm("array.cm(&counted_dataset)", guarded(|| ap.confusion_matrix(&ct)), &exp, outer, &mut cnt, viols);
    check_cm("counted_dataset_view.cm(&counted_dataset_view)", guarded(|| cp.view().confusion_matrix(&ct.view())), &exp, outer, &mut cnt, viols);
    // map_targets: injective renaming to String, and a two-valued map to bool
    {
        let name = |l: &L| format!("L{}", l);
        let mp = dp.clone().map_targets(name);
        let mt = dt.clone().map_targets(name);
        let e2 = ref_cm::<String>(&lp.iter().map(name).collect::<Vec<_>>(), &lt.iter().map(name).collect::<Vec<_>>());
        check_cm("dataset.map_targets(rename).cm(&dataset.map_targets(rename))", guarded(|| mp.confusion_matrix(&mt)), &e2, outer, &mut cnt, viols);
        let first = L::parse(&alphabet[0]);
        let isf = |l: &L| *l == first;
        let bp = dp.clone().map_targets(isf);
        let bt = dt.clone().map_targets(isf);
        let e3 = ref_cm::<bool>(&lp.iter().map(isf).collect::<Vec<_>>(), &lt.iter().map(isf).collect::<Vec<_>>());
        check_cm("dataset.map_targets(is_first).cm(&dataset.map_targets(is_first))", guarded(|| bp.confusion_matrix(&bt)), &e3, outer, &mut cnt, viols);
        check_cm("counted(view of mapped).cm(..)", guarded(|| bp.view().confusion_matrix(&bt.view())), &e3, outer, &mut cnt, viols);
    }
    // into_single_target of an n x 1 target matrix: standard, and the first column of an n x 2 matrix
    // kept as an owned strided array
    {
        let p2 = DatasetBase::new(rec.clone(), ap.clone().insert_axis(Axis(1))).into_single_target();
        let t2 = DatasetBase::new(rec.clone(), at_.clone().insert_axis(Axis(1))).into_single_target();
        check_cm("into_single_target(n x 1).cm(..)", guarded(|| p2.confusion_matrix(&t2)), &exp, outer, &mut cnt, viols);
        let wide_p: Array2<L> = Array2::from_shape_fn((n, 2), |(i, j)| if j == 0 { lp[i].clone() } else { L::poison() });
        let wide_t: Array2<L> = Array2::from_shape_fn((n, 2), |(i, j)| if j == 0 { lt[i].clone() } else { L::poison() });
        let p3 = DatasetBase::new(rec.clone(), wide_p.slice_move(s![.., ..1])).into_single_target();
        let t3 = DatasetBase::new(rec.clone(), wide_t.slice_move(s![.., ..1])).into_single_target();
        check_cm("into_single_target(strided n x 1).cm(..)", guarded(|| p3.confusion_matrix(&t3)), &exp, outer, &mut cnt, viols);
    }
    // one_vs_all of both datasets: exactly one binary dataset per PRESENT label; pairing the two
    // datasets of a label gives the binarised confusion matrix
    {
        let present = |v: &[L]| {
            let mut p = v.to_vec();
            p.sort();
            p.dedup();
            p
        };
        match (guarded(|| dp.one_vs_all()), guarded(|| dt.one_vs_all())) {
            (Ok(Ok(op)), Ok(Ok(ot))) => {
                let mut got_p: Vec<L> = op.iter().map(|(l, _)| l.clone()).collect();
                got_p.sort();
                let mut got_t: Vec<L> = ot.iter().map(|(l, _)| l.clone()).collect();
                got_t.sort();
                cnt.bump("containers.one_vs_all_label_sets_compared", 2);
                if got_p != present(&lp) || got_t != present(&lt) {
                    report!(viols, "one_vs_all.wrong_label_set", outer, json!({"metric": "one_vs_all"}), "one_vs_all labels {:?} / {:?}, labels present {:?} / {:?}", got_p, got_t, present(&lp), present(&lt));
                }
                for (l, bp) in &op {
                    if let Some((_, bt)) = ot.iter().find(|(l2, _)| l2 == l) {
                        let e = ref_cm::<bool>(&lp.iter().map(|x| x == l).collect::<Vec<_>>(), &lt.iter().map(|x| x == l).collect::<Vec<_>>());
                        check_cm("dataset.one_vs_all()[l].cm(&dataset.one_vs_all()[l])", guarded(|| bp.confusion_matrix(bt)), &e, outer, &mut cnt, viols);
                    }
                }
            }
            other => report!(viols, "one_vs_all.error_or_panic", outer, json!({"metric": "one_vs_all"}), "one_vs_all failed: {:?}", (other.0.map(|r| r.map(|_| ()).map_err(|e| e.to_string())), other.1.map(|r| r.map(|_| ()).map_err(|e| e.to_string())))),
        }
    }
    cnt
}

/// `with_labels` needs `Copy` labels (bool, usize): requested = exactly the present labels, the whole
/// alphabet plus an absent label, and the present labels minus one (which drops samples).
pub fn containers_with_labels<L: Lab + Copy>(outer: &Case, alphabet: &[String], pred: &[usize], truth: &[usize], viols: &mut Sink) -> Cnt {
    let mut cnt = Cnt::default();
    let n = pred.len();
    let lp: Vec<L> = pred.iter().map(|&i| L::parse(&alphabet[i])).collect();
    let lt: Vec<L> = truth.iter().map(|&i| L::parse(&alphabet[i])).collect();
    let rec = index_records(n);
    let dp = DatasetBase::new(rec.clone(), Array1::from(lp.clone()));
    let mut present: Vec<L> = lp.clone();
    present.sort();
    present.dedup();
    let mut all: Vec<L> = alphabet.iter().map(|s| L::parse(s)).collect();
    all.push(L::poison());
    all.sort();
    all.dedup();
    let mut requests: Vec<(&str, Vec<L>)> = vec![("exactly the present labels", present.clone()), ("a superset with absent labels", all.clone())];
    if present.len() >= 2 {
        requests.push(("a subset (drops samples)", present[1..].to_vec()));
        requests.push(("a subset plus an absent label", {
            let mut v = present[..present.len() - 1].to_vec();
            v.push(L::poison());
            v
        }));
    }
    cnt.bump("containers.with_labels_cases", 1);
    for (what, req) in requests {
        let w = match guarded(|| dp.with_labels(&req)) {
            Ok(w) => w,
            Err(p) => {
                report!(viols, "with_labels.panic", outer, json!({"metric": "with_labels", "requested": what}), "with_labels({}) panicked: {}", what, p);
                continue;
            }
        };
        // which samples survived (records carry the sample index)
        let idx: Vec<usize> = w.records().column(0).iter().map(|x| *x as usize).collect();
        let want_idx: Vec<usize> = (0..n).filter(|&i| req.contains(&lp[i])).collect();
        cnt.bump("containers.with_labels_sample_sets_compared", 1);
        if idx != want_idx {
            report!(viols, "with_labels.wrong_samples_kept", outer, json!({"metric": "with_labels", "requested": what}), "with_labels({}) kept samples {:?}, expected {:?}", what, idx, want_idx);
            continue;
        }
        if idx.is_empty() {
            continue;
        }
        let fp: Vec<L> = idx.iter().map(|&i| lp[i]).collect();
        let ft: Vec<L> = idx.iter().map(|&i| lt[i]).collect();
        let exp = ref_cm(&fp, &ft);
        let ft_arr = Array1::from(ft.clone());
        let fp_arr = Array1::from(fp.clone());
        let frec = index_records(idx.len());
        let dtw = DatasetBase::new(frec.clone(), ft_arr.clone()).with_labels(&all);
        let f1 = format!("dataset.with_labels({}).cm(&truth_array)", what);
        check_cm(&f1, guarded(|| w.confusion_matrix(&ft_arr)), &exp, outer, &mut cnt, viols);
        let f2 = format!("dataset.with_labels({}).cm(&truth_dataset.with_labels(superset))", what);
        check_cm(&f2, guarded(|| w.confusion_matrix(&dtw)), &exp, outer, &mut cnt, viols);
        let f3 = format!("pred_array.cm(&truth_dataset.with_labels(superset)) [{}]", what);
        check_cm(&f3, guarded(|| fp_arr.confusion_matrix(&dtw)), &exp, outer, &mut cnt, viols);
        let f4 = format!("dataset.with_labels({}).view().cm(&truth_array)", what);
        check_cm(&f4, guarded(|| w.view().confusion_matrix(&ft_arr)), &exp, outer, &mut cnt, viols);
        // one_vs_all of the filtered dataset: one entry per label that still has members
        if let Ok(Ok(o)) = guarded(|| w.one_vs_all()) {
            let mut got: Vec<L> = o.iter().map(|(l, _)| *l).collect();
            got.sort();
            let mut want = fp.clone();
            want.sort();
            want.dedup();
            cnt.bump("containers.one_vs_all_label_sets_compared", 1);
            if got != want {
                report!(viols, "one_vs_all.wrong_label_set", outer, json!({"metric": "one_vs_all", "requested": what}), "with_labels({}).one_vs_all() labels {:?}, labels with members {:?}", what, got, want);
            }
        }
    }
    cnt
}

pub fn containers_silhouette(outer: &Case, points: &[Vec<f64>], labels: &[usize], viols: &mut Sink) -> Cnt {
    let mut cnt = Cnt::default();
    if !crate::clust::silhouette_in_domain(points, labels) {
        cnt.ood += 1;
        return cnt;
    }
    let n = points.len();
    let d = points[0].len();
    let rec = |pts: &[Vec<f64>]| -> Array2<f64> { Array2::from_shape_fn((pts.len(), d), |(i, j)| pts[i][j]) };
    let exp = crate::clust::ref_silhouette(points, labels);
    cnt.evals += 1;
    cnt.nontrivial += 1;
    cnt.bump("containers.silhouette_cases", 1);
    let check = |form: &str, r: Result<linfa::error::Result<f64>, String>, e: f64, cnt: &mut Cnt, viols: &mut Sink| {
        cnt.bump("containers.silhouette_values_compared", 1);
        let ok = matches!(&r, Ok(Ok(v)) if closef(*v, e, 1e-9, 1e-12, 1.0));
        if !ok {
            report!(
                viols,
                "silhouette.target_container_dependence",
                outer,
                json!({"metric": "silhouette_score", "form": form}),
                "{}: {:?}; the definition on the raw points and labels gives {}",
                form,
                r.map(|x| x.map_err(|e| e.to_string())),
                e
            );
        }
    };
    let la = Array1::from(labels.to_vec());
    let ds = DatasetBase::new(rec(points), la.clone());
    check("dataset(array targets)", guarded(|| ds.silhouette_score()), exp, &mut cnt, viols);
    check("dataset.view()", guarded(|| ds.view().silhouette_score()), exp, &mut cnt, viols);
    let dc = DatasetBase::new(rec(points), CountedTargets::new(la.clone()));
    check("dataset(CountedTargets)", guarded(|| dc.silhouette_score()), exp, &mut cnt, viols);
    check("dataset(CountedTargets).view()", guarded(|| dc.view().silhouette_score()), exp, &mut cnt, viols);
    let dm = ds.clone().map_targets(|l| format!("cluster-{}", l));
    check("dataset.map_targets(rename to String)", guarded(|| dm.silhouette_score()), exp, &mut cnt, viols);
    let mut present = labels.to_vec();
    present.sort();
    present.dedup();
    let mut sup = present.clone();
    sup.extend([77usize, 0]);
    let mut requests: Vec<(&str, Vec<usize>)> = vec![("exactly the present labels", present.clone()), ("a superset with absent labels", sup)];
    if present.len() >= 3 {
        requests.push(("a subset (drops samples)", present[1..].to_vec()));
        requests.push(("a subset plus an absent label", {
            let mut v = present[..present.len() - 1].to_vec();
            v.push(77);
            v
        }));
    }
    for (what, req) in requests {
        let keep: Vec<usize> = (0..n).filter(|&i| req.contains(&labels[i])).collect();
        let fpts: Vec<Vec<f64>> = keep.iter().map(|&i| points[i].clone()).collect();
        let fl: Vec<usize> = keep.iter().map(|&i| labels[i]).collect();
        if !crate::clust::silhouette_in_domain(&fpts, &fl) {
            continue;
        }
        let e = crate::clust::ref_silhouette(&fpts, &fl);
        let w = ds.with_labels(&req);
        let f = format!("dataset.with_labels({})", what);
        check(&f, guarded(|| w.silhouette_score()), e, &mut cnt, viols);
        let f = format!("dataset.with_labels({}).view()", what);
        check(&f, guarded(|| w.view().silhouette_score()), e, &mut cnt, viols);
    }
    cnt
}

/// roc / log-loss with the boolean truth in dataset views and `with_labels` containers
pub fn containers_scores(outer: &Case, scores: &[f32], truth: &[bool], viols: &mut Sink) -> Cnt {
    let mut cnt = Cnt::default();
    let n = scores.len();
    let arr: Array1<Pr> = Array1::from(scores.iter().map(|&s| Pr::new(s)).collect::<Vec<_>>());
    let both = truth.iter().any(|&t| t) && truth.iter().any(|&t| !t);
    let base_roc = if both { guarded(|| arr.roc(truth)).ok().and_then(|r| r.ok()) } else { None };
    let base_ll = guarded(|| arr.log_loss(truth)).ok().and_then(|r| r.ok());
    let rec = index_records(n);
    let dp = DatasetBase::new(rec.clone(), arr.clone());
    let dt = DatasetBase::new(rec.clone(), Array1::from(truth.to_vec()));
    let dtw = dt.with_labels(&[true, false]);
    let dtc = DatasetBase::new(rec, CountedTargets::new(Array1::from(truth.to_vec())));
    cnt.evals += 1;
    cnt.nontrivial += 1;
    cnt.bump("containers.scores_cases", 1);
    let lls = [
        ("dataset_view.log_loss(&dataset_view)", guarded(|| dp.view().log_loss(&dt.view()))),
        ("dataset.log_loss(&dataset.with_labels([true,false]))", guarded(|| dp.log_loss(&dtw))),
        ("dataset.log_loss(&counted_dataset)", guarded(|| dp.log_loss(&dtc))),
    ];
    for (form, r) in lls {
        cnt.bump("containers.score_values_compared", 1);
        let v = r.ok().and_then(|r| r.ok());
        if v.map(|x| x.to_bits()) != base_ll.map(|x| x.to_bits()) {
            report!(viols, "log_loss.target_container_dependence", outer, json!({"metric": "log_loss", "form": form}), "{} = {:?}, array form {:?}", form, v, base_ll);
        }
    }
    if both {
        let rocs = [
            ("dataset_view.roc(&dataset_view)", guarded(|| dp.view().roc(&dt.view()))),
            ("dataset.roc(&dataset.with_labels([true,false]))", guarded(|| dp.roc(&dtw))),
            ("dataset.roc(&counted_dataset)", guarded(|| dp.roc(&dtc))),
        ];
        for (form, r) in rocs {
            cnt.bump("containers.score_values_compared", 1);
            let v = r.ok().and_then(|r| r.ok());
            if v != base_roc {
                report!(viols, "roc.target_container_dependence", outer, json!({"metric": "roc", "form": form}), "{} = {:?}, array form {:?}", form, v, base_roc);
            }
        }
    }
    cnt
}
