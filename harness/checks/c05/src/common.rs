//! Shared bits of the C05 check: the self-contained case type, counters, permutation sets,
//! float comparison.

use lvmc_core::{json, Value, Violation};
use serde::{Deserialize, Serialize};
use std::collections::BTreeMap;

/// One self-contained input (literal numbers / labels). This is what a replay artefact holds.
#[derive(Clone, Debug, Serialize, Deserialize)]
#[serde(tag = "kind")]
pub enum Case {
    /// label vectors: `pred[i]`, `truth[i]` index into `alphabet`; `ty` = bool | usize | string
    Labels { ty: String, alphabet: Vec<String>, pred: Vec<usize>, truth: Vec<usize>, perms: String },
    /// probability scores + boolean truth (roc / auc / log-loss)
    Scores { scores: Vec<f32>, truth: Vec<bool>, perms: String },
    /// single-target regression, receiver = pred, argument = truth; `float` = f64 | f32
    Regr { float: String, pred: Vec<f64>, truth: Vec<f64>, perms: String, forms: bool },
    /// multi-target regression: column vectors
    RegrMulti { float: String, pred_cols: Vec<Vec<f64>>, truth_cols: Vec<Vec<f64>> },
    /// silhouette: points (rows) and a cluster label per point
    Silhouette { points: Vec<Vec<f64>>, labels: Vec<usize>, perms: String },
    /// Pearson: matrix given by its columns
    Pearson { float: String, cols: Vec<Vec<f64>>, perms: String },
    /// malformed call that the API documents as an error: label vectors of different length
    LabelsLenMismatch { n_pred: usize, n_truth: usize },
    /// silhouette with an explicit float type (f64 | f32)
    SilhouetteF { float: String, points: Vec<Vec<f64>>, labels: Vec<usize>, perms: String },
    /// the base case's inputs handed over in every non-standard memory layout (reversed / strided views
    /// of poisoned parents, column-major, transposed ...); results must equal the standard-layout run
    Layouts { base: Box<Case> },
    /// the base case's vectors / rows cyclically repeated up to length `n` (element i = base[i mod m]);
    /// run through the normal oracles, optionally also through the layout checks
    Replicated { base: Box<Case>, n: usize, layouts: bool },
    /// the base case with every value multiplied by a factor (one factor for everything, or one per
    /// column for Pearson / multi-target regression): scale-invariant scores must not move, scale-
    /// equivariant ones must follow, both judged against the definition at a RELATIVE tolerance
    Scaled { base: Box<Case>, factors: Vec<f64> },
    /// the base case's labels / truth handed over in every target container form (views, datasets,
    /// dataset views, CountedTargets, with_labels, one_vs_all, map_targets, into_single_target)
    Containers { base: Box<Case> },
    /// the base case with every value v replaced by offset + step * v (prediction and truth alike; all
    /// points; every column): translation-invariant scores must not move
    Shifted { base: Box<Case>, offset: f64, step: f64 },
}

#[derive(Default, Debug)]
pub struct Cnt {
    pub evals: u64,
    pub nontrivial: u64,
    pub ood: u64,
    pub indet: u64,
    pub extra: BTreeMap<&'static str, u64>,
}

impl Cnt {
    pub fn bump(&mut self, k: &'static str, n: u64) {
        *self.extra.entry(k).or_insert(0) += n;
    }
    pub fn merge(&mut self, o: Cnt) {
        self.evals += o.evals;
        self.nontrivial += o.nontrivial;
        self.ood += o.ood;
        self.indet += o.indet;
        for (k, v) in o.extra {
            *self.extra.entry(k).or_insert(0) += v;
        }
    }
}

/// Permutations applied to both sides of a case (identity excluded).
/// "all": every one of the n! - 1; "gen": the generating set {swap(0,1), rotate-by-one, reversal}
/// (since the sweep visits EVERY input vector, invariance under a generating set at every input
/// implies invariance under the whole symmetric group); "none": no explicit permutation.
pub fn perms(n: usize, mode: &str) -> Vec<Vec<usize>> {
    let id: Vec<usize> = (0..n).collect();
    let mut out: Vec<Vec<usize>> = match mode {
        "all" => lvmc_core::enumerate::permutations(n),
        "gen" if n >= 2 => {
            let mut sw = id.clone();
            sw.swap(0, 1);
            let rot: Vec<usize> = (0..n).map(|i| (i + 1) % n).collect();
            let rev: Vec<usize> = (0..n).rev().collect();
            vec![sw, rot, rev]
        }
        _ => vec![],
    };
    out.retain(|p| *p != id);
    out.sort();
    out.dedup();
    out
}

pub fn apply<T: Clone>(v: &[T], p: &[usize]) -> Vec<T> {
    p.iter().map(|&i| v[i].clone()).collect()
}

/// NaN matches NaN, infinities must be equal, else |a-b| <= abs + rel * scale.
pub fn closef(obs: f64, exp: f64, rel: f64, abs: f64, scale: f64) -> bool {
    if obs.is_nan() || exp.is_nan() {
        return obs.is_nan() && exp.is_nan();
    }
    if obs.is_infinite() || exp.is_infinite() {
        return obs == exp;
    }
    (obs - exp).abs() <= abs + rel * scale.max(obs.abs()).max(exp.abs())
}

pub fn viol(sig: impl Into<String>, what: impl Into<String>, case: &Case, at: Value) -> Violation {
    let mut v = serde_json::to_value(case).unwrap();
    v.as_object_mut().unwrap().insert("at".into(), at);
    Violation::new(sig, what, v)
}

pub fn at(metric: &str) -> Value {
    json!({ "metric": metric })
}

/// Collects the violations of one group of cases. The first `FULL_PER_SIG` violations of a
/// signature are materialised completely (message + replayable case); further ones of the same
/// signature only as counting placeholders (a known finding can fire on > 10^6 inputs; formatting
/// every one of them would dominate the run time). Because a group hands its violations to the
/// run context in order, a placeholder reaches the context only after three complete violations
/// of the same signature, so the artefacts kept by the context are always complete ones.
#[derive(Default)]
pub struct Sink {
    seen: BTreeMap<String, u64>,
    pub out: Vec<Violation>,
}

const FULL_PER_SIG: u64 = 3;

impl Sink {
    pub fn want(&mut self, sig: &str) -> bool {
        match self.seen.get_mut(sig) {
            Some(c) => {
                *c += 1;
                *c <= FULL_PER_SIG
            }
            None => {
                self.seen.insert(sig.to_string(), 1);
                true
            }
        }
    }
    pub fn push_full(&mut self, sig: String, what: String, case: &Case, at: Value) {
        self.out.push(viol(sig, what, case, at));
    }
    pub fn push_placeholder(&mut self, sig: String) {
        self.out.push(Violation::new(sig, String::new(), Value::Null));
    }
}

#[macro_export]
macro_rules! report {
    ($sink:expr, $sig:expr, $case:expr, $at:expr, $($fmt:tt)+) => {{
        let sig: String = ($sig).into();
        if $sink.want(&sig) {
            let what = format!($($fmt)+);
            let at = $at;
            $sink.push_full(sig, what, $case, at);
        } else {
            $sink.push_placeholder(sig);
        }
    }};
}
