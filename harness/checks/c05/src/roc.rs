//! ROC curve, AUC, log-loss.
//!
//! linfa's curve is the list of points (fraction of positives with score < s, fraction of
//! negatives with score < s) walked from the lowest to the highest distinct score s, plus the
//! final (1, 1); its trapezoidal area is integral(neg-fraction d pos-fraction) = P(neg < pos) +
//! P(tie)/2 = the Mann-Whitney statistic. Reference: brute-force pair counting.

use crate::common::*;
use crate::report;
use linfa::dataset::{DatasetBase, Pr};
use linfa::metrics::BinaryClassification;
use lvmc_core::{guarded, json};
use ndarray::{Array1, Array2};

const TOL_CURVE: f64 = 2e-6;
const TOL_AUC: f64 = 1e-5;

/// Relative tolerance of the f32 log-loss against the f64 reference: 1e-5, and for long inputs the
/// bound n * 2^-24 of a sequential f32 sum of n non-negative terms (only exceeds 1e-5 from n = 168).
fn ll_rel(n: usize) -> f64 {
    (1e-5f64).max(n as f64 * 6e-8)
}

fn ref_log_loss(scores: &[f32], truth: &[bool]) -> f64 {
    let lo = f32::EPSILON as f64;
    let hi = (1.0f32 - f32::EPSILON) as f64;
    let s: f64 = scores
        .iter()
        .zip(truth)
        .map(|(&p, &t)| {
            let p = (p as f64).clamp(lo, hi);
            if t {
                -p.ln()
            } else {
                -(1.0 - p).ln()
            }
        })
        .sum();
    s / scores.len() as f64
}

pub fn run_scores(case: &Case, viols: &mut Sink) -> Cnt {
    let Case::Scores { scores, truth, perms: pmode } = case else { unreachable!() };
    let mut cnt = Cnt::default();
    let n = scores.len();
    cnt.evals += 1;
    cnt.bump("scores.cases", 1);
    let prs: Vec<Pr> = scores.iter().map(|&s| Pr::new(s)).collect();
    let arr: Array1<Pr> = Array1::from(prs.clone());
    let npos = truth.iter().filter(|&&t| t).count();
    let nneg = n - npos;

    // ---------------- log-loss (defined for every truth vector) ----------------
    let exp_ll = ref_log_loss(scores, truth);
    let ll_tol = |o: f64, e: f64| closef(o, e, ll_rel(n), 1e-6, 1.0);
    cnt.bump("scores.values_compared", 1);
    let base_ll = match guarded(|| arr.log_loss(&truth[..])) {
        Ok(Ok(v)) => {
            if !ll_tol(v as f64, exp_ll) {
                report!(viols, "log_loss.wrong_value", case, at("log_loss"), "log_loss = {}, expected mean clipped negative log-likelihood {}", v, exp_ll);
            }
            Some(v)
        }
        Ok(Err(e)) => {
            report!(viols, "log_loss.unexpected_error", case, at("log_loss"), "log_loss returned Err({})", e);
            None
        }
        Err(p) => {
            report!(viols, "log_loss.panic", case, at("log_loss"), "log_loss panicked: {}", p);
            None
        }
    };
    // other calling forms of log_loss
    {
        let sl: &[Pr] = &prs;
        let rec: Array2<f64> = Array2::zeros((n, 1));
        let dp = DatasetBase::new(rec.clone(), arr.clone());
        let dt = DatasetBase::new(rec, Array1::from(truth.clone()));
        let f1 = guarded(|| sl.log_loss(&truth[..])).ok().and_then(|r| r.ok());
        let f2 = guarded(|| dp.log_loss(&dt)).ok().and_then(|r| r.ok());
        cnt.bump("scores.calling_forms_compared", 2);
        if f1.map(|x| x.to_bits()) != base_ll.map(|x| x.to_bits()) || f2.map(|x| x.to_bits()) != base_ll.map(|x| x.to_bits()) {
            report!(viols, "log_loss.calling_forms_differ", case, at("log_loss"), "array form {:?}, slice form {:?}, dataset form {:?}", base_ll, f1, f2);
        }
    }

    // ---------------- ROC / AUC: both classes must be present ----------------
    if npos == 0 || nneg == 0 {
        cnt.ood += 1;
        cnt.bump("scores.roc_out_of_domain_single_class", 1);
        return cnt;
    }
    let mut distinct: Vec<f32> = scores.clone();
    distinct.sort_by(|a, b| a.partial_cmp(b).unwrap());
    distinct.dedup();
    let mut exp_curve: Vec<(f64, f64)> = vec![(0.0, 0.0)];
    for &s in &distinct {
        let tp = scores.iter().zip(truth).filter(|(&x, &t)| x <= s && t).count() as f64;
        let fp = scores.iter().zip(truth).filter(|(&x, &t)| x <= s && !t).count() as f64;
        exp_curve.push((tp / npos as f64, fp / nneg as f64));
    }
    // Mann-Whitney with ties one half
    let mut u = 0.0;
    let mut cross_ties = 0u64;
    for i in 0..n {
        for j in 0..n {
            if truth[i] && !truth[j] {
                if scores[i] > scores[j] {
                    u += 1.0;
                } else if scores[i] == scores[j] {
                    u += 0.5;
                    cross_ties += 1;
                }
            }
        }
    }
    let exp_auc = u / (npos as f64 * nneg as f64);
    if exp_auc > 0.0 && exp_auc < 1.0 {
        cnt.nontrivial += 1;
    }
    if cross_ties > 0 {
        cnt.bump("scores.with_tie_between_a_positive_and_a_negative", 1);
    }
    let min_is_zero = distinct[0] == 0.0;
    if min_is_zero {
        cnt.bump("scores.with_lowest_score_0", 1);
    }
    if *distinct.last().unwrap() == 1.0 {
        cnt.bump("scores.with_highest_score_1", 1);
    }
    let tp0 = scores.iter().zip(truth).filter(|(&x, &t)| x == 0.0 && t).count() as f64;
    let fp0 = scores.iter().zip(truth).filter(|(&x, &t)| x == 0.0 && !t).count() as f64;

    let roc = match guarded(|| arr.roc(&truth[..])) {
        Ok(Ok(r)) => r,
        Ok(Err(e)) => {
            report!(viols, "roc.unexpected_error", case, at("roc"), "roc returned Err({})", e);
            return cnt;
        }
        Err(p) => {
            report!(viols, "roc.panic", case, at("roc"), "roc panicked: {}", p);
            return cnt;
        }
    };
    let curve: Vec<(f64, f64)> = roc.get_curve().iter().map(|&(a, b)| (a as f64, b as f64)).collect();
    let thr: Vec<f32> = roc.get_thresholds();
    // closed form of the implementation's ABSOLUTE tie tolerance: walking up the sorted scores, a
    // score opens a new curve point only if it is more than 1e-10 above the score that opened the
    // previous one. It merges distinct scores below ~1e-10, which a rank statistic must not do.
    let mut groups: Vec<f32> = Vec::new();
    {
        let mut s0: f32 = -1.0;
        for &s in &distinct {
            if (s - s0).abs() > 1e-10 {
                groups.push(s);
                s0 = s;
            }
        }
    }
    let guard_active = groups.len() != distinct.len();
    let guard_curve: Vec<(f64, f64)> = {
        let mut c: Vec<(f64, f64)> = groups
            .iter()
            .map(|&g| {
                let tp = scores.iter().zip(truth).filter(|(&x, &t)| x < g && t).count() as f64;
                let fp = scores.iter().zip(truth).filter(|(&x, &t)| x < g && !t).count() as f64;
                (tp / npos as f64, fp / nneg as f64)
            })
            .collect();
        c.push((1.0, 1.0));
        c
    };
    let guard_auc: f64 = guard_curve.windows(2).map(|w| (w[1].0 - w[0].0) * (w[0].1 + w[1].1) / 2.0).sum();
    if guard_active {
        cnt.bump("scores.with_distinct_scores_closer_than_1e-10", 1);
    }
    let same_curve = |a: &[(f64, f64)], b: &[(f64, f64)]| a.len() == b.len() && a.iter().zip(b).all(|(x, y)| (x.0 - y.0).abs() <= TOL_CURVE && (x.1 - y.1).abs() <= TOL_CURVE);
    cnt.bump("scores.values_compared", 2);
    if !(same_curve(&curve, &exp_curve) && thr == distinct) {
        let starts = curve.first().map_or(false, |p| p.0 == 0.0 && p.1 == 0.0);
        let ends = curve.last().map_or(false, |p| (p.0 - 1.0).abs() <= TOL_CURVE && (p.1 - 1.0).abs() <= TOL_CURVE);
        let monotone = curve.windows(2).all(|w| w[1].0 >= w[0].0 - TOL_CURVE && w[1].1 >= w[0].1 - TOL_CURVE);
        let sig = if guard_active && same_curve(&curve, &guard_curve) && thr == groups {
            "roc.absolute_tie_tolerance_merges_distinct_scores"
        } else if min_is_zero && same_curve(&curve, &exp_curve[1..]) && thr == distinct[1..] {
            // exactly the expected curve with its first point (0,0) and the threshold 0 missing
            "roc.missing_origin_when_min_score_is_0"
        } else {
            "roc.curve_wrong"
        };
        report!(viols, sig, case, at("roc"), "curve {:?} thresholds {:?}; expected {:?} thresholds {:?} (starts at (0,0): {}, ends at (1,1): {}, monotone: {})",
                curve, thr, exp_curve, distinct, starts, ends, monotone);
    }
    match guarded(|| roc.area_under_curve()) {
        Ok(auc) => {
            let auc = auc as f64;
            if !((auc - exp_auc).abs() <= TOL_AUC) {
                let lost = (tp0 / npos as f64) * (fp0 / nneg as f64) / 2.0;
                let sig = if guard_active && (auc - guard_auc).abs() <= TOL_AUC {
                    // exactly the area of the curve built with the absolute 1e-10 tie tolerance
                    "roc.absolute_tie_tolerance_merges_distinct_scores"
                } else if min_is_zero && tp0 > 0.0 && fp0 > 0.0 && (auc - (exp_auc - lost)).abs() <= TOL_AUC {
                    // exactly the Mann-Whitney value minus the half credit of the (positive, negative)
                    // pairs tied at score 0
                    "roc.auc_loses_ties_at_score_0"
                } else {
                    "roc.auc_wrong_value"
                };
                report!(viols, sig, case, at("auc"), "area_under_curve = {}, Mann-Whitney U/(P*N) with ties 1/2 = {} ({} positives and {} negatives at score 0)",
                        auc, exp_auc, tp0, fp0);
            }
        }
        Err(p) => report!(viols, "roc.auc.panic", case, at("auc"), "area_under_curve panicked: {}", p),
    }

    // other calling forms
    {
        let sl: &[Pr] = &prs;
        let rec: Array2<f64> = Array2::zeros((n, 1));
        let dp = DatasetBase::new(rec.clone(), arr.clone());
        let dt = DatasetBase::new(rec, Array1::from(truth.clone()));
        let f1 = guarded(|| sl.roc(&truth[..])).ok().and_then(|r| r.ok());
        let f2 = guarded(|| dp.roc(&dt)).ok().and_then(|r| r.ok());
        cnt.bump("scores.calling_forms_compared", 2);
        if f1.as_ref() != Some(&roc) || f2.as_ref() != Some(&roc) {
            report!(viols, "roc.calling_forms_differ", case, at("roc"), "array form {:?}, slice form {:?}, dataset form {:?}", roc, f1, f2);
        }
    }

    // one permutation applied to both sides
    for p in perms(n, pmode) {
        cnt.bump("scores.permuted_reruns", 1);
        let a2: Array1<Pr> = Array1::from(apply(&prs, &p));
        let t2: Vec<bool> = apply(truth, &p);
        let r2 = guarded(|| a2.roc(&t2[..])).ok().and_then(|r| r.ok());
        let l2 = guarded(|| a2.log_loss(&t2[..])).ok().and_then(|r| r.ok());
        let ll_same = match (base_ll, l2) {
            (Some(a), Some(b)) => closef(a as f64, b as f64, 2.0 * ll_rel(n), 1e-6, 1.0),
            _ => false,
        };
        if r2.as_ref() != Some(&roc) || !ll_same {
            report!(viols, "roc.not_permutation_invariant", case, json!({"metric": "permutation", "perm": p}), "permutation {:?} of scores and truth: roc {:?} log_loss {:?} vs {:?} {:?}", p, r2, l2, roc, base_ll);
            break;
        }
    }
    cnt
}

// ---------------------------------------------------------------------------------------------
// memory layouts
// ---------------------------------------------------------------------------------------------
use crate::layout::{hold1, L1_ALL};

fn is_unwrap_none(msg: &str) -> bool {
    msg.contains("on a `None` value")
}

pub fn lay_scores(outer: &Case, scores: &[f32], truth: &[bool], viols: &mut Sink) -> Cnt {
    let mut cnt = Cnt::default();
    let n = scores.len();
    let prs: Vec<Pr> = scores.iter().map(|&s| Pr::new(s)).collect();
    let arr: Array1<Pr> = Array1::from(prs.clone());
    let both = truth.iter().any(|&t| t) && truth.iter().any(|&t| !t);
    let base_roc = if both { guarded(|| arr.roc(truth)).ok().and_then(|r| r.ok()) } else { None };
    let base_ll = guarded(|| arr.log_loss(truth)).ok().and_then(|r| r.ok());
    cnt.evals += 1;
    cnt.nontrivial += 1;
    cnt.bump("layouts.scores_cases", 1);
    let ppois = |_: usize| Pr::new(0.8125);
    for (name, l) in L1_ALL.iter().skip(1) {
        let hp = hold1(&prs, &ppois, *l);
        let pv = hp.view();
        let tpois = |i: usize| !truth[i.min(n - 1)];
        let ht = hold1(truth, &tpois, *l);
        let tv = ht.view();
        cnt.bump("layouts.scores_layout_runs", 1);
        // log-loss on a strided probability view
        cnt.bump("layouts.values_compared", 1);
        match guarded(|| pv.log_loss(truth)) {
            Ok(Ok(v)) => {
                let ok = base_ll.map_or(false, |b| b.to_bits() == v.to_bits() || closef(v as f64, b as f64, ll_rel(n), 1e-6, 1.0));
                if !ok {
                    report!(viols, "log_loss.layout_dependence", outer, json!({"metric": "log_loss", "layout": name}), "log_loss on the scores as {} = {}, on the standard array {:?}", name, v, base_ll);
                }
            }
            other => {
                report!(viols, "log_loss.layout_dependence", outer, json!({"metric": "log_loss", "layout": name}), "log_loss on the scores as {}: {:?}, on the standard array {:?}", name, other.map(|r| r.map_err(|e| e.to_string())), base_ll);
            }
        }
        if !both {
            continue;
        }
        // roc on a strided probability view, and on datasets whose targets are strided views
        let rec: Array2<f64> = Array2::zeros((n, 1));
        let dp = DatasetBase::new(rec.clone(), pv);
        let dt = DatasetBase::new(rec, tv);
        let runs: Vec<(&str, Result<linfa::error::Result<linfa::metrics::ReceiverOperatingCharacteristic>, String>)> =
            vec![("view.roc(&[bool])", guarded(|| pv.roc(truth))), ("dataset(view targets).roc(&dataset(view targets))", guarded(|| dp.roc(&dt)))];
        for (form, r) in runs {
            cnt.bump("layouts.values_compared", 1);
            match r {
                Ok(Ok(r)) => {
                    if Some(&r) != base_roc.as_ref() {
                        report!(viols, "roc.layout_dependence", outer, json!({"metric": "roc", "layout": name, "form": form}), "{} with the scores as {} = {:?}, on the standard array {:?}", form, name, r, base_roc);
                    }
                }
                Ok(Err(e)) => {
                    report!(viols, "roc.layout_dependence", outer, json!({"metric": "roc", "layout": name, "form": form}), "{} with the scores as {} returned Err({})", form, name, e);
                }
                Err(p) => {
                    let sig = if is_unwrap_none(&p) { "roc.non_contiguous_view_panics" } else { "roc.layout_dependence" };
                    report!(
                        viols,
                        sig,
                        outer,
                        json!({"metric": "roc", "layout": name, "form": form}),
                        "{} with the scores as {} (a valid non-contiguous ndarray view with the same elements) panicked: {}; the standard array gives {:?}",
                        form,
                        name,
                        p,
                        base_roc
                    );
                }
            }
        }
        cnt.bump("layouts.values_compared", 1);
        match guarded(|| dp.log_loss(&dt)) {
            Ok(Ok(v)) => {
                let ok = base_ll.map_or(false, |b| b.to_bits() == v.to_bits() || closef(v as f64, b as f64, ll_rel(n), 1e-6, 1.0));
                if !ok {
                    report!(viols, "log_loss.layout_dependence", outer, json!({"metric": "log_loss", "layout": name, "form": "dataset"}), "dataset log_loss with targets as {} = {}, standard {:?}", name, v, base_ll);
                }
            }
            Ok(Err(e)) => {
                report!(viols, "log_loss.layout_dependence", outer, json!({"metric": "log_loss", "layout": name, "form": "dataset"}), "dataset log_loss with targets as {} returned Err({})", name, e);
            }
            Err(p) => {
                let sig = if is_unwrap_none(&p) { "log_loss.non_contiguous_view_panics" } else { "log_loss.layout_dependence" };
                report!(viols, sig, outer, json!({"metric": "log_loss", "layout": name, "form": "dataset"}), "dataset.log_loss(&dataset) with the boolean targets as {} panicked: {}; standard {:?}", name, p, base_ll);
            }
        }
    }
    cnt
}
