//! Confusion matrix and everything derived from it.
//!
//! Layout followed (brief + the comment inside `confusion_matrix` + `test_confusion_matrix`):
//! for `predicted.confusion_matrix(truth)` cell (i, j) counts samples with prediction = class i and
//! truth = class j; classes = sorted union of both label sets, reversed when there are exactly two.
//! Scores are the functions of the cells the rustdoc gives:
//!   binary precision = c00 / (c00 + c10), binary recall = c00 / (c00 + c01),
//!   K != 2: macro average over the one-vs-all splits, accuracy = trace / total,
//!   F-beta = (1+b^2) p r / (b^2 p + r), one-vs-all split i = [[tp, fp], [fn, tn]] with
//!   fp = row i - tp, fn = column i - tp; one-vs-one split (i < j) = [[c_ii, c_ij], [c_ji, c_jj]],
//!   N (N-1) / 2 of them. MCC = Pearson correlation of the one-hot encodings (Gorodkin's R_K).
//! The private cells are observed through the type's `Debug` table.

use crate::common::*;
use crate::report;
use linfa::dataset::{DatasetBase, Label};
use linfa::metrics::{ConfusionMatrix, ToConfusionMatrix};
use lvmc_core::{guarded, json};
use ndarray::{Array1, Array2};
use std::fmt::Display;

pub trait Lab: Label + Display + 'static {
    fn parse(s: &str) -> Self;
    /// filler value for the unused slots of a strided parent array
    fn poison() -> Self;
}
impl Lab for bool {
    fn parse(s: &str) -> Self {
        s == "true"
    }
    fn poison() -> Self {
        true
    }
}
impl Lab for usize {
    fn parse(s: &str) -> Self {
        s.parse().expect("usize label")
    }
    fn poison() -> Self {
        999
    }
}
impl Lab for String {
    fn parse(s: &str) -> Self {
        s.to_string()
    }
    fn poison() -> Self {
        "zzz".to_string()
    }
}

#[derive(Debug, Clone, PartialEq)]
pub struct Parsed {
    pub members: Vec<String>,
    pub m: Vec<Vec<f64>>,
}

/// Reads members and cells back from the `Debug` table of a confusion matrix.
pub fn parse_cm<A: Display>(cm: &ConfusionMatrix<A>) -> Result<Parsed, String> {
    let s = format!("{:?}", cm);
    let mut lines = s.lines().filter(|l| !l.trim().is_empty());
    let header = lines.next().ok_or_else(|| format!("no header in {:?}", s))?;
    let cols: Vec<String> = header.split('|').map(|c| c.trim().to_string()).collect();
    if cols.first().map(|c| c.as_str()) != Some("classes") {
        return Err(format!("unexpected header {:?}", header));
    }
    let members: Vec<String> = cols[1..].to_vec();
    let mut m = Vec::new();
    for (i, l) in lines.enumerate() {
        let f: Vec<&str> = l.split('|').map(|c| c.trim()).collect();
        if f.len() != members.len() + 1 || i >= members.len() || f[0] != members[i] {
            return Err(format!("unexpected row {:?} (members {:?})", l, members));
        }
        let mut row = Vec::new();
        for x in &f[1..] {
            row.push(x.parse::<f64>().map_err(|e| format!("cell {:?}: {}", x, e))?);
        }
        m.push(row);
    }
    if m.len() != members.len() {
        return Err(format!("{} rows for {} members", m.len(), members.len()));
    }
    Ok(Parsed { members, m })
}

pub const SCORE_NAMES: [&str; 7] = ["accuracy", "precision", "recall", "f1_score", "f_score(0.5)", "f_score(2)", "mcc"];

fn subject_scores<A>(cm: &ConfusionMatrix<A>) -> Result<[f32; 7], String> {
    guarded(|| [cm.accuracy(), cm.precision(), cm.recall(), cm.f1_score(), cm.f_score(0.5), cm.f_score(2.0), cm.mcc()])
}

fn fbeta(p: f64, r: f64, b: f64) -> f64 {
    (1.0 + b * b) * (p * r) / (b * b * p + r)
}

/// R_K from marginal counts: (c s - sum p_k t_k) / sqrt((s^2 - sum p_k^2)(s^2 - sum t_k^2)); 0/0 = NaN.
fn mcc_from_marginals(c: u64, s: u64, p: &[u64], t: &[u64]) -> f64 {
    let (c, s) = (c as f64, s as f64);
    let spt: f64 = p.iter().zip(t).map(|(a, b)| (*a as f64) * (*b as f64)).sum();
    let spp: f64 = p.iter().map(|a| (*a as f64) * (*a as f64)).sum();
    let stt: f64 = t.iter().map(|a| (*a as f64) * (*a as f64)).sum();
    let num = c * s - spt;
    let den2 = (s * s - spp) * (s * s - stt);
    if den2 == 0.0 {
        return f64::NAN;
    }
    num / den2.sqrt()
}

/// Scores of a 2x2 matrix [[c00, c01], [c10, c11]] by the documented cell formulas.
fn ref_scores_2x2(c: &[[u64; 2]; 2]) -> [f64; 7] {
    let f = |x: u64| x as f64;
    let tot = f(c[0][0] + c[0][1] + c[1][0] + c[1][1]);
    let p = f(c[0][0]) / f(c[0][0] + c[1][0]);
    let r = f(c[0][0]) / f(c[0][0] + c[0][1]);
    let acc = f(c[0][0] + c[1][1]) / tot;
    let mcc = mcc_from_marginals(
        c[0][0] + c[1][1],
        c[0][0] + c[0][1] + c[1][0] + c[1][1],
        &[c[0][0] + c[0][1], c[1][0] + c[1][1]],
        &[c[0][0] + c[1][0], c[0][1] + c[1][1]],
    );
    [acc, p, r, fbeta(p, r, 1.0), fbeta(p, r, 0.5), fbeta(p, r, 2.0), mcc]
}

fn cells_2x2(p: &Parsed) -> Option<[[u64; 2]; 2]> {
    if p.m.len() != 2 || p.m.iter().any(|r| r.len() != 2) {
        return None;
    }
    let g = |x: f64| if x >= 0.0 && x.fract() == 0.0 { Some(x as u64) } else { None };
    Some([[g(p.m[0][0])?, g(p.m[0][1])?], [g(p.m[1][0])?, g(p.m[1][1])?]])
}

const REL32: f64 = 1e-5;
const ABS32: f64 = 1e-6;

fn cmp_scores(prefix: &str, obs: &[f32; 7], exp: &[f64; 7], case: &Case, extra: serde_json::Value, viols: &mut Sink) -> u64 {
    let mut n = 0;
    for i in 0..7 {
        n += 1;
        if !closef(obs[i] as f64, exp[i], REL32, ABS32, 1.0) {
            let mut a = json!({"metric": SCORE_NAMES[i]});
            if let (Some(o), Some(e)) = (a.as_object_mut(), extra.as_object()) {
                for (k, v) in e {
                    o.insert(k.clone(), v.clone());
                }
            }
            report!(viols, format!("{}.{}.wrong_value", prefix, SCORE_NAMES[i].replace(['(', ')'], "_")), case, a, "{} {}: expected {} by the documented cell formula, observed {}", prefix, SCORE_NAMES[i], exp[i], obs[i]);
        }
    }
    n
}

pub fn run_labels<L: Lab>(case: &Case, viols: &mut Sink) -> Cnt {
    let Case::Labels { alphabet, pred, truth, perms: pmode, .. } = case else { unreachable!() };
    let mut cnt = Cnt::default();
    let n = pred.len();
    let lp: Vec<L> = pred.iter().map(|&i| L::parse(&alphabet[i])).collect();
    let lt: Vec<L> = truth.iter().map(|&i| L::parse(&alphabet[i])).collect();

    // ---------------- reference, straight from the two label vectors ----------------
    let mut classes: Vec<L> = lp.iter().chain(lt.iter()).cloned().collect();
    classes.sort();
    classes.dedup();
    if classes.len() == 2 {
        classes.reverse();
    }
    let k = classes.len();
    let ip: Vec<usize> = lp.iter().map(|l| classes.iter().position(|c| c == l).unwrap()).collect();
    let it: Vec<usize> = lt.iter().map(|l| classes.iter().position(|c| c == l).unwrap()).collect();
    let count = |f: &dyn Fn(usize, usize) -> bool| -> u64 { ip.iter().zip(&it).filter(|(a, b)| f(**a, **b)).count() as u64 };
    let cells: Vec<Vec<u64>> = (0..k).map(|i| (0..k).map(|j| count(&|a, b| a == i && b == j)).collect()).collect();
    let ova: Vec<[[u64; 2]; 2]> = (0..k)
        .map(|i| {
            [
                [count(&|a, b| a == i && b == i), count(&|a, b| a == i && b != i)],
                [count(&|a, b| a != i && b == i), count(&|a, b| a != i && b != i)],
            ]
        })
        .collect();
    let mut ovo: Vec<[[u64; 2]; 2]> = Vec::new();
    let mut ovo_with_degenerate: Vec<[[u64; 2]; 2]> = Vec::new();
    for i in 0..k {
        for j in i..k {
            let m = [[cells[i][i], cells[i][j]], [cells[j][i], cells[j][j]]];
            if j > i {
                ovo.push(m);
            }
            ovo_with_degenerate.push(m);
        }
    }
    let equal = count(&|a, b| a == b);
    let pk: Vec<u64> = (0..k).map(|i| count(&|a, _| a == i)).collect();
    let tk: Vec<u64> = (0..k).map(|i| count(&|_, b| b == i)).collect();
    let exp_scores: [f64; 7] = {
        let acc = equal as f64 / n as f64;
        let (p, r) = if k == 2 {
            let c = [[cells[0][0], cells[0][1]], [cells[1][0], cells[1][1]]];
            let s = ref_scores_2x2(&c);
            (s[1], s[2])
        } else {
            let ps: f64 = ova.iter().map(|c| ref_scores_2x2(c)[1]).sum::<f64>() / k as f64;
            let rs: f64 = ova.iter().map(|c| ref_scores_2x2(c)[2]).sum::<f64>() / k as f64;
            (ps, rs)
        };
        [acc, p, r, fbeta(p, r, 1.0), fbeta(p, r, 0.5), fbeta(p, r, 2.0), mcc_from_marginals(equal, n as u64, &pk, &tk)]
    };
    let exp_members: Vec<String> = classes.iter().map(|c| c.to_string()).collect();
    let exp_m: Vec<Vec<f64>> = cells.iter().map(|r| r.iter().map(|&x| x as f64).collect()).collect();

    cnt.evals += 1;
    let one_sided = (0..k).any(|i| pk[i] == 0 || tk[i] == 0);
    if k >= 2 && ip != it {
        cnt.nontrivial += 1;
    }
    cnt.bump("labels.cases", 1);
    cnt.bump(if k == 2 { "labels.binary" } else if k >= 3 { "labels.three_or_more_classes" } else { "labels.single_class" }, 1);
    if one_sided {
        cnt.bump("labels.with_label_on_one_side_only", 1);
    }
    if exp_scores.iter().any(|x| x.is_nan()) {
        cnt.bump("labels.with_a_nan_score_expected", 1);
    }

    // ---------------- subject ----------------
    let ap = Array1::from(lp.clone());
    let at_ = Array1::from(lt.clone());
    let cm = match guarded(|| ap.confusion_matrix(&at_)) {
        Ok(Ok(c)) => c,
        Ok(Err(e)) => {
            report!(viols, "confusion_matrix.unexpected_error", case, at("confusion_matrix"), "equal-length label vectors returned Err({})", e);
            return cnt;
        }
        Err(p) => {
            report!(viols, "confusion_matrix.panic", case, at("confusion_matrix"), "confusion_matrix panicked: {}", p);
            return cnt;
        }
    };
    let parsed = match parse_cm(&cm) {
        Ok(p) => p,
        Err(e) => {
            report!(viols, "confusion_matrix.debug_table_unreadable", case, at("confusion_matrix"), "{}", e);
            return cnt;
        }
    };
    cnt.bump("labels.values_compared", 1);
    if parsed.members != exp_members {
        report!(viols, "confusion_matrix.wrong_label_order", case, at("confusion_matrix"), "members {:?}, expected sorted union (reversed when binary) {:?}", parsed.members, exp_members);
        return cnt;
    }
    if parsed.m != exp_m {
        let transposed = (0..k).all(|i| (0..k).all(|j| parsed.m[i][j] == exp_m[j][i]));
        let total: f64 = parsed.m.iter().flatten().sum();
        report!(viols, if transposed { "confusion_matrix.cells_transposed" } else { "confusion_matrix.wrong_cells" }, case, at("confusion_matrix"), "cells {:?} (sum {}), expected count of (pred, truth) pairs {:?} (n = {}) over classes {:?}", parsed.m, total, exp_m, n, exp_members);
        return cnt;
    }

    // scores of the full matrix
    match subject_scores(&cm) {
        Ok(obs) => {
            let c = cmp_scores("confusion_matrix", &obs, &exp_scores, case, json!({}), viols);
            cnt.bump("labels.values_compared", c);
        }
        Err(p) => report!(viols, "confusion_matrix.scores.panic", case, at("scores"), "a score method panicked: {}", p),
    }

    // one-vs-all
    match guarded(|| cm.split_one_vs_all()) {
        Ok(list) => {
            let got: Vec<Option<Parsed>> = list.iter().map(|c| parse_cm(c).ok()).collect();
            let ok = got.len() == k
                && got.iter().zip(&ova).all(|(g, e)| g.as_ref().map_or(false, |g| g.members == ["true", "false"] && cells_2x2(g) == Some(*e)));
            cnt.bump("labels.values_compared", 1);
            if !ok {
                report!(viols, "split_one_vs_all.wrong_matrices", case, at("split_one_vs_all"), "one-vs-all splits {:?}, expected [[tp, fp], [fn, tn]] per class = {:?}", got.iter().map(|g| g.as_ref().map(|g| g.m.clone())).collect::<Vec<_>>(), ova);
            } else {
                for (i, c) in list.iter().enumerate() {
                    match subject_scores(c) {
                        Ok(obs) => {
                            let c = cmp_scores("split_one_vs_all", &obs, &ref_scores_2x2(&ova[i]), case, json!({"class_index": i}), viols);
                            cnt.bump("labels.values_compared", c);
                        }
                        Err(p) => report!(viols, "split_one_vs_all.scores.panic", case, at("split_one_vs_all"), "a score method panicked: {}", p),
                    }
                }
            }
        }
        Err(p) => report!(viols, "split_one_vs_all.panic", case, at("split_one_vs_all"), "split_one_vs_all panicked: {}", p),
    }

    // one-vs-one
    match guarded(|| cm.split_one_vs_one()) {
        Ok(list) => {
            let got: Vec<Option<Parsed>> = list.iter().map(|c| parse_cm(c).ok()).collect();
            let same = |exp: &Vec<[[u64; 2]; 2]>| {
                got.len() == exp.len() && got.iter().zip(exp).all(|(g, e)| g.as_ref().map_or(false, |g| g.members == ["true", "false"] && cells_2x2(g) == Some(*e)))
            };
            cnt.bump("labels.values_compared", 1);
            if same(&ovo) {
                for (i, c) in list.iter().enumerate() {
                    if let Ok(obs) = subject_scores(c) {
                        let c = cmp_scores("split_one_vs_one", &obs, &ref_scores_2x2(&ovo[i]), case, json!({"pair_index": i}), viols);
                        cnt.bump("labels.values_compared", c);
                    }
                }
            } else if same(&ovo_with_degenerate) {
                // exactly the documented pairs plus one degenerate [[c_ii, c_ii], [c_ii, c_ii]] per class
                report!(viols, "split_one_vs_one.includes_degenerate_i_eq_j_pairs", case, at("split_one_vs_one"), "{} classes: split_one_vs_one returned {} matrices = N(N+1)/2 (the documented N(N-1)/2 = {} pairs i<j plus one degenerate i == j matrix [[c_ii, c_ii], [c_ii, c_ii]] per class): {:?}",
                        k,
                        got.len(),
                        ovo.len(),
                        got.iter().map(|g| g.as_ref().map(|g| g.m.clone())).collect::<Vec<_>>());
            } else {
                report!(viols, "split_one_vs_one.wrong_matrices", case, at("split_one_vs_one"), "{} classes: split_one_vs_one returned {} matrices {:?}, expected the {} pairs (i<j) [[c_ii, c_ij], [c_ji, c_jj]] = {:?}",
                        k,
                        got.len(),
                        got.iter().map(|g| g.as_ref().map(|g| g.m.clone())).collect::<Vec<_>>(),
                        ovo.len(),
                        ovo);
            }
        }
        Err(p) => report!(viols, "split_one_vs_one.panic", case, at("split_one_vs_one"), "split_one_vs_one panicked: {}", p),
    }

    // ---------------- other calling forms: must give the same matrix ----------------
    {
        let rec: Array2<f64> = Array2::zeros((n, 1));
        let dp = DatasetBase::new(rec.clone(), ap.clone());
        let dt = DatasetBase::new(rec.clone(), at_.clone());
        let forms: Vec<(&str, Result<linfa::error::Result<ConfusionMatrix<L>>, String>)> = vec![
            ("array.confusion_matrix(array by value)", guarded(|| ap.confusion_matrix(at_.clone()))),
            ("dataset.confusion_matrix(&dataset)", guarded(|| dp.confusion_matrix(&dt))),
            ("array.confusion_matrix(&dataset)", guarded(|| ap.confusion_matrix(&dt))),
        ];
        for (name, r) in forms {
            cnt.bump("labels.calling_forms_compared", 1);
            match r {
                Ok(Ok(c2)) => {
                    if c2 != cm {
                        let p2 = parse_cm(&c2).ok();
                        let transposed = p2.as_ref().map_or(false, |p2| p2.members == exp_members && (0..k).all(|i| (0..k).all(|j| p2.m[i][j] == exp_m[j][i])));
                        if transposed && name == "array.confusion_matrix(&dataset)" {
                            report!(viols, "confusion_matrix.array_pred_dataset_truth_form_transposed", case, json!({"metric": "calling_form", "form": name}), "pred.confusion_matrix(&truth_dataset) = {:?} is the transpose of pred.confusion_matrix(&truth_array) = {:?} (classes {:?}): with the truth wrapped in a dataset the roles of prediction and truth are swapped, so precision() and recall() trade places",
                                    p2.map(|p| p.m),
                                    exp_m,
                                    exp_members);
                        } else {
                            report!(viols, "confusion_matrix.calling_forms_differ", case, json!({"metric": "calling_form", "form": name}), "{} = {:?}, but the array/array form gives {:?}", name, p2.map(|p| p.m), exp_m);
                        }
                    }
                }
                Ok(Err(e)) => report!(viols, "confusion_matrix.calling_forms_differ", case, json!({"metric": "calling_form", "form": name}), "{} returned Err({})", name, e),
                Err(p) => report!(viols, "confusion_matrix.calling_form.panic", case, json!({"metric": "calling_form", "form": name}), "{} panicked: {}", name, p),
            }
        }
    }

    // ---------------- one permutation applied to both sides ----------------
    let base_scores = subject_scores(&cm).ok();
    for p in perms(n, pmode) {
        cnt.bump("labels.permuted_reruns", 1);
        let a2 = Array1::from(apply(&lp, &p));
        let t2 = Array1::from(apply(&lt, &p));
        match guarded(|| a2.confusion_matrix(&t2)) {
            Ok(Ok(c2)) => {
                let s2 = subject_scores(&c2).ok();
                let same_scores = match (&base_scores, &s2) {
                    (Some(a), Some(b)) => a.iter().zip(b.iter()).all(|(x, y)| x.to_bits() == y.to_bits() || (x.is_nan() && y.is_nan())),
                    _ => false,
                };
                if c2 != cm || !same_scores {
                    report!(viols, "confusion_matrix.not_permutation_invariant", case, json!({"metric": "permutation", "perm": p}), "permutation {:?} of both vectors changes the matrix / scores: {:?} {:?} vs {:?} {:?}", p, parse_cm(&c2).ok().map(|x| x.m), s2, exp_m, base_scores);
                    break;
                }
            }
            other => {
                report!(viols, "confusion_matrix.not_permutation_invariant", case, json!({"metric": "permutation", "perm": p}), "permutation {:?} of both vectors: {:?}", p, other.map(|r| r.map(|_| "ok").map_err(|e| e.to_string())));
                break;
            }
        }
    }
    cnt
}

pub fn run_len_mismatch(case: &Case, viols: &mut Sink) -> Cnt {
    let Case::LabelsLenMismatch { n_pred, n_truth } = case else { unreachable!() };
    let mut cnt = Cnt::default();
    cnt.evals += 1;
    cnt.nontrivial += 1;
    cnt.bump("labels.length_mismatch_calls", 1);
    let a: Array1<usize> = Array1::from((0..*n_pred).map(|i| i % 2).collect::<Vec<_>>());
    let b: Array1<usize> = Array1::from((0..*n_truth).map(|i| i % 2).collect::<Vec<_>>());
    match guarded(|| a.confusion_matrix(&b).map(|_| ())) {
        Ok(Err(_)) => {}
        Ok(Ok(())) => report!(viols, "confusion_matrix.length_mismatch_accepted", case, at("confusion_matrix"), "vectors of length {} and {} were accepted", n_pred, n_truth),
        Err(p) => report!(viols, "confusion_matrix.length_mismatch_panic", case, at("confusion_matrix"), "vectors of length {} and {} panicked: {}", n_pred, n_truth, p),
    }
    cnt
}

// ---------------------------------------------------------------------------------------------
// memory layouts: label vectors handed over as reversed / strided views
// ---------------------------------------------------------------------------------------------
use crate::layout::{hold1, L1, L1_ALL};

pub fn lay_labels<L: Lab>(outer: &Case, alphabet: &[String], pred: &[usize], truth: &[usize], viols: &mut Sink) -> Cnt {
    let mut cnt = Cnt::default();
    let lp: Vec<L> = pred.iter().map(|&i| L::parse(&alphabet[i])).collect();
    let lt: Vec<L> = truth.iter().map(|&i| L::parse(&alphabet[i])).collect();
    let ap = Array1::from(lp.clone());
    let at_ = Array1::from(lt.clone());
    let Ok(Ok(base)) = guarded(|| ap.confusion_matrix(&at_)) else {
        return cnt; // reported by the standard-layout sweep
    };
    cnt.evals += 1;
    cnt.nontrivial += 1;
    cnt.bump("layouts.labels_cases", 1);
    let poison = |_: usize| L::poison();
    for (lpn, l1) in L1_ALL {
        for (ltn, l2) in L1_ALL {
            if l1 == L1::Std && l2 == L1::Std {
                continue;
            }
            let hp = hold1(&lp, &poison, l1);
            let ht = hold1(&lt, &poison, l2);
            let (pv, tv) = (hp.view(), ht.view());
            cnt.bump("layouts.labels_layout_runs", 1);
            cnt.bump("layouts.values_compared", 1);
            let a = json!({"metric": "confusion_matrix", "pred_layout": lpn, "truth_layout": ltn});
            match guarded(|| pv.confusion_matrix(&tv)) {
                Ok(Ok(cm)) => {
                    if cm != base {
                        report!(
                            viols,
                            "confusion_matrix.layout_dependence",
                            outer,
                            a,
                            "prediction as {}, truth as {}: matrix {:?}, standard-layout arrays with the same labels give {:?}",
                            lpn,
                            ltn,
                            parse_cm(&cm).ok().map(|p| p.m),
                            parse_cm(&base).ok().map(|p| p.m)
                        );
                    }
                }
                Ok(Err(e)) => {
                    report!(viols, "confusion_matrix.layout_dependence", outer, a, "prediction as {}, truth as {}: Err({})", lpn, ltn, e);
                }
                Err(p) => {
                    let sig = if p.contains("on a `None` value") { "confusion_matrix.non_contiguous_view_panics" } else { "confusion_matrix.layout_dependence" };
                    report!(
                        viols,
                        sig,
                        outer,
                        a,
                        "confusion_matrix with the prediction as {} and the truth as {} (valid non-contiguous ndarray views with the same labels) panicked: {}",
                        lpn,
                        ltn,
                        p
                    );
                }
            }
        }
    }
    cnt
}
