//! Regression scores against textbook f64 formulas (receiver = prediction, argument = truth).

use crate::common::*;
use crate::report;
use linfa::dataset::{AsMultiTargets, AsSingleTargets, DatasetBase};
use linfa::metrics::{MultiTargetRegression, SingleTargetRegression};
use linfa::Float;
use lvmc_core::{guarded, json};
use ndarray::{Array1, Array2};

pub const NAMES: [&str; 8] = [
    "max_error",
    "mean_absolute_error",
    "mean_squared_error",
    "mean_squared_log_error",
    "median_absolute_error",
    "mean_absolute_percentage_error",
    "r2",
    "explained_variance",
];

fn conv<F: Float>(x: Result<linfa::error::Result<F>, String>) -> Result<f64, String> {
    match x {
        Ok(Ok(v)) => Ok(v.to_f64().unwrap()),
        Ok(Err(e)) => Err(format!("Err({})", e)),
        Err(p) => Err(format!("panic: {}", p)),
    }
}

fn eight<F: Float, R, T>(r: &R, t: &T) -> Vec<Result<f64, String>>
where
    R: SingleTargetRegression<F, T>,
    T: AsSingleTargets<Elem = F>,
{
    vec![
        conv(guarded(|| SingleTargetRegression::<F, T>::max_error(r, t))),
        conv(guarded(|| SingleTargetRegression::<F, T>::mean_absolute_error(r, t))),
        conv(guarded(|| SingleTargetRegression::<F, T>::mean_squared_error(r, t))),
        conv(guarded(|| SingleTargetRegression::<F, T>::mean_squared_log_error(r, t))),
        conv(guarded(|| SingleTargetRegression::<F, T>::median_absolute_error(r, t))),
        conv(guarded(|| SingleTargetRegression::<F, T>::mean_absolute_percentage_error(r, t))),
        conv(guarded(|| SingleTargetRegression::<F, T>::r2(r, t))),
        conv(guarded(|| SingleTargetRegression::<F, T>::explained_variance(r, t))),
    ]
}

fn convm<F: Float>(x: Result<linfa::error::Result<Array1<F>>, String>) -> Result<Vec<f64>, String> {
    match x {
        Ok(Ok(v)) => Ok(v.iter().map(|x| x.to_f64().unwrap()).collect()),
        Ok(Err(e)) => Err(format!("Err({})", e)),
        Err(p) => Err(format!("panic: {}", p)),
    }
}

fn eight_multi<F: Float, R, T>(r: &R, t: &T) -> Vec<Result<Vec<f64>, String>>
where
    R: MultiTargetRegression<F, T>,
    T: AsMultiTargets<Elem = F>,
{
    vec![
        convm(guarded(|| MultiTargetRegression::<F, T>::max_error(r, t))),
        convm(guarded(|| MultiTargetRegression::<F, T>::mean_absolute_error(r, t))),
        convm(guarded(|| MultiTargetRegression::<F, T>::mean_squared_error(r, t))),
        convm(guarded(|| MultiTargetRegression::<F, T>::mean_squared_log_error(r, t))),
        convm(guarded(|| MultiTargetRegression::<F, T>::median_absolute_error(r, t))),
        convm(guarded(|| MultiTargetRegression::<F, T>::mean_absolute_percentage_error(r, t))),
        convm(guarded(|| MultiTargetRegression::<F, T>::r2(r, t))),
        convm(guarded(|| MultiTargetRegression::<F, T>::explained_variance(r, t))),
    ]
}

/// Expected value per metric: None = input outside the metric's domain.
/// (expected, scale for the relative tolerance, extra absolute slack)
pub struct Expect {
    pub v: [Option<(f64, f64, f64)>; 8],
    /// the closed form of the known explained-variance defect: 1 - (sum e^2 - mean e) / (SStot + 1e-10)
    pub ev_wrong_closed_form: Option<f64>,
}

pub fn reference(p: &[f64], t: &[f64]) -> Expect {
    let n = p.len() as f64;
    let e: Vec<f64> = p.iter().zip(t).map(|(a, b)| a - b).collect();
    let abs: Vec<f64> = e.iter().map(|x| x.abs()).collect();
    let maxe = abs.iter().cloned().fold(f64::NEG_INFINITY, f64::max);
    let mae = abs.iter().sum::<f64>() / n;
    let sse: f64 = e.iter().map(|x| x * x).sum();
    let mse = sse / n;
    let medae = {
        let mut s = abs.clone();
        s.sort_by(|a, b| a.partial_cmp(b).unwrap());
        let m = s.len();
        if m % 2 == 1 {
            s[m / 2]
        } else {
            (s[m / 2 - 1] + s[m / 2]) / 2.0
        }
    };
    let msle = if p.iter().chain(t.iter()).all(|&x| x > -1.0) {
        let lp: Vec<f64> = p.iter().map(|x| (1.0 + x).ln()).collect();
        let lt: Vec<f64> = t.iter().map(|x| (1.0 + x).ln()).collect();
        let v = lp.iter().zip(&lt).map(|(a, b)| (a - b) * (a - b)).sum::<f64>() / n;
        let sc = lp.iter().chain(lt.iter()).map(|x| x * x).fold(0.0, f64::max);
        Some((v, sc, 0.0))
    } else {
        None
    };
    let mape = if p.iter().all(|&x| x != 0.0) {
        let v = p.iter().zip(t).map(|(a, b)| ((a - b) / a).abs()).sum::<f64>() / n;
        Some((v, v, 0.0))
    } else {
        None
    };
    let tmean = t.iter().sum::<f64>() / n;
    let sst: f64 = t.iter().map(|x| (x - tmean) * (x - tmean)).sum();
    let emean = e.iter().sum::<f64>() / n;
    let (r2, ev, wrong) = if sst > 0.0 {
        let ratio = sse / sst;
        // the documented 1e-10 guard in the denominator moves the value by at most ratio * 1e-10 / sst
        let guard = 2.0 * ratio * 1e-10 / sst;
        let evnum = sse - n * emean * emean;
        (
            // r2 guards only a constant target since a02735e: no slack for it any more
            Some((1.0 - ratio, ratio.max(1.0), 0.0)),
            Some((1.0 - evnum / sst, ratio.max(1.0), guard)),
            Some(1.0 - (sse - emean) / (sst + 1e-10)),
        )
    } else {
        (None, None, None)
    };
    Expect {
        v: [Some((maxe, maxe, 0.0)), Some((mae, maxe, 0.0)), Some((mse, maxe * maxe, 0.0)), msle, Some((medae, maxe, 0.0)), mape, r2, ev],
        ev_wrong_closed_form: wrong,
    }
}

struct Tol {
    rel: f64,
    abs: f64,
}

fn tol_of(float: &str) -> Tol {
    if float == "f32" {
        Tol { rel: 1e-4, abs: 1e-6 }
    } else {
        Tol { rel: 1e-9, abs: 1e-12 }
    }
}

/// Compares one observed score with its expectation; pushes a violation with the right signature.
fn judge(i: usize, obs: &Result<f64, String>, exp: &Expect, tol: &Tol, case: &Case, extra: serde_json::Value, cnt: &mut Cnt, viols: &mut Sink) {
    let Some((e, scale, slack)) = exp.v[i] else {
        cnt.bump("regression.metric_inputs_out_of_domain", 1);
        return;
    };
    cnt.bump("regression.values_compared", 1);
    let mut a = json!({"metric": NAMES[i]});
    if let (Some(o), Some(x)) = (a.as_object_mut(), extra.as_object()) {
        for (k, v) in x {
            o.insert(k.clone(), v.clone());
        }
    }
    match obs {
        Ok(o) => {
            if !closef(*o, e, tol.rel, tol.abs + slack, scale) {
                let sig = if i == 7 && exp.ev_wrong_closed_form.map_or(false, |w| closef(*o, w, tol.rel, tol.abs + slack, scale)) {
                    "regression.explained_variance.subtracts_mean_error_instead_of_n_mean_error_squared".to_string()
                } else {
                    format!("regression.{}.wrong_value", NAMES[i])
                };
                let what = if i == 7 {
                    format!(
                        "explained_variance = {}, expected 1 - Var(pred - truth)/Var(truth) = 1 - (sum e^2 - n*mean(e)^2)/SStot = {}; the closed form 1 - (sum e^2 - mean(e))/(SStot + 1e-10) gives {:?}",
                        o, e, exp.ev_wrong_closed_form
                    )
                } else {
                    format!("{} = {}, textbook value {}", NAMES[i], o, e)
                };
                report!(viols, sig, case, a, "{}", what);
            }
        }
        Err(msg) => report!(viols, format!("regression.{}.error_or_panic", NAMES[i]), case, a, "{} on equal-length finite vectors: {}", NAMES[i], msg),
    }
}

fn arr<F: Float>(v: &[f64]) -> Array1<F> {
    Array1::from_iter(v.iter().map(|&x| F::cast(x)))
}

fn back<F: Float>(a: &Array1<F>) -> Vec<f64> {
    a.iter().map(|x| x.to_f64().unwrap()).collect()
}

pub fn run_regr<F: Float>(case: &Case, viols: &mut Sink) -> Cnt {
    let Case::Regr { float, pred, truth, perms: pmode, forms } = case else { unreachable!() };
    let mut cnt = Cnt::default();
    let tol = tol_of(float);
    let n = pred.len();
    let p: Array1<F> = arr(pred);
    let t: Array1<F> = arr(truth);
    let (p64, t64) = (back(&p), back(&t));
    let exp = reference(&p64, &t64);
    cnt.evals += 1;
    if p64 != t64 {
        cnt.nontrivial += 1;
    }
    cnt.bump("regression.single_target_cases", 1);
    let base = eight::<F, _, _>(&p, &t);
    for i in 0..8 {
        judge(i, &base[i], &exp, &tol, case, json!({}), &mut cnt, viols);
    }
    let same = |a: &Result<f64, String>, b: &Result<f64, String>| match (a, b) {
        (Ok(x), Ok(y)) => x.to_bits() == y.to_bits() || (x.is_nan() && y.is_nan()),
        (Err(_), Err(_)) => true,
        _ => false,
    };
    if *forms {
        let rec: Array2<F> = Array2::zeros((n, 1));
        let dp = DatasetBase::new(rec.clone(), p.clone());
        let dt = DatasetBase::new(rec, t.clone());
        let f1 = eight::<F, _, _>(&dp, &t);
        let f2 = eight::<F, _, _>(&p, &dt);
        let f3 = eight::<F, _, _>(&p.view(), &t.view());
        let f4 = eight::<F, _, _>(&dp.view(), &t);
        let f5 = eight::<F, _, _>(&p, &dt.view());
        let f6 = eight::<F, _, _>(&dp.view(), &dt.view());
        for (name, f) in [
            ("dataset.metric(&array)", &f1),
            ("array.metric(&dataset)", &f2),
            ("view.metric(&view)", &f3),
            ("dataset_view.metric(&array)", &f4),
            ("array.metric(&dataset_view)", &f5),
            ("dataset_view.metric(&dataset_view)", &f6),
        ] {
            cnt.bump("regression.calling_forms_compared", 1);
            for i in 0..8 {
                if !same(&f[i], &base[i]) {
                    report!(viols, "regression.calling_forms_differ", case, json!({"metric": NAMES[i], "form": name}), "{} via {} = {:?}, array/array form = {:?}", NAMES[i], name, f[i], base[i]);
                }
            }
        }
    }
    for pm in perms(n, pmode) {
        cnt.bump("regression.permuted_reruns", 1);
        let p2: Array1<F> = arr(&apply(pred, &pm));
        let t2: Array1<F> = arr(&apply(truth, &pm));
        let r2 = eight::<F, _, _>(&p2, &t2);
        let mut bad = false;
        for i in 0..8 {
            let ok = match (&r2[i], &base[i], exp.v[i]) {
                (_, _, None) => true, // outside the metric's domain
                (Ok(a), Ok(b), Some((_, scale, slack))) => closef(*a, *b, 2.0 * tol.rel, 2.0 * (tol.abs + slack), scale),
                (Err(_), Err(_), _) => true,
                _ => false,
            };
            if !ok {
                report!(viols, format!("regression.{}.not_permutation_invariant", NAMES[i]), case, json!({"metric": NAMES[i], "perm": pm}), "{}: permutation {:?} of both vectors gives {:?}, unpermuted {:?}", NAMES[i], pm, r2[i], base[i]);
                bad = true;
            }
        }
        if bad {
            break;
        }
    }
    cnt
}

pub fn run_regr_multi<F: Float>(case: &Case, viols: &mut Sink) -> Cnt {
    let Case::RegrMulti { float, pred_cols, truth_cols } = case else { unreachable!() };
    let mut cnt = Cnt::default();
    let tol = tol_of(float);
    let m = pred_cols.len();
    let n = pred_cols[0].len();
    let p: Array2<F> = Array2::from_shape_fn((n, m), |(i, j)| F::cast(pred_cols[j][i]));
    let t: Array2<F> = Array2::from_shape_fn((n, m), |(i, j)| F::cast(truth_cols[j][i]));
    cnt.evals += 1;
    cnt.nontrivial += 1;
    cnt.bump("regression.multi_target_cases", 1);
    let exps: Vec<Expect> = (0..m)
        .map(|j| {
            let pc: Vec<f64> = (0..n).map(|i| p[(i, j)].to_f64().unwrap()).collect();
            let tc: Vec<f64> = (0..n).map(|i| t[(i, j)].to_f64().unwrap()).collect();
            reference(&pc, &tc)
        })
        .collect();
    let rec: Array2<F> = Array2::zeros((n, 1));
    let dp = DatasetBase::new(rec, p.clone());
    let res = eight_multi::<F, _, _>(&p, &t);
    let res_ds = eight_multi::<F, _, _>(&dp, &t);
    for i in 0..8 {
        match &res[i] {
            Ok(v) if v.len() == m => {
                for j in 0..m {
                    judge(i, &Ok(v[j]), &exps[j], &tol, case, json!({"column": j}), &mut cnt, viols);
                }
            }
            Ok(v) => report!(viols, format!("regression.{}.wrong_number_of_columns", NAMES[i]), case, at(NAMES[i]), "{} on {} target columns returned {} values", NAMES[i], m, v.len()),
            Err(msg) => {
                // a column outside a metric's domain may legitimately produce NaN but never an error
                report!(viols, format!("regression.{}.error_or_panic", NAMES[i]), case, at(NAMES[i]), "multi-target {}: {}", NAMES[i], msg)
            }
        }
        cnt.bump("regression.calling_forms_compared", 1);
        let same = match (&res[i], &res_ds[i]) {
            (Ok(a), Ok(b)) => a.len() == b.len() && a.iter().zip(b).all(|(x, y)| x.to_bits() == y.to_bits() || (x.is_nan() && y.is_nan())),
            (Err(_), Err(_)) => true,
            _ => false,
        };
        if !same {
            report!(viols, "regression.calling_forms_differ", case, json!({"metric": NAMES[i], "form": "dataset.metric(&array2)"}), "multi-target {}: dataset form {:?}, array form {:?}", NAMES[i], res_ds[i], res[i]);
        }
    }
    cnt
}

// ---------------------------------------------------------------------------------------------
// memory layouts: the same logical vectors / matrices handed over as strided, reversed,
// column-major ... views must give the scores of the standard-layout run
// ---------------------------------------------------------------------------------------------
use crate::layout::{hold1, hold2, L1, L1_ALL, L2, L2_ALL};

fn same_bits(a: &Result<f64, String>, b: &Result<f64, String>) -> bool {
    match (a, b) {
        (Ok(x), Ok(y)) => x.to_bits() == y.to_bits() || (x.is_nan() && y.is_nan()),
        (Err(_), Err(_)) => true,
        _ => false,
    }
}

pub fn lay_regr<F: Float>(outer: &Case, float: &str, pred: &[f64], truth: &[f64], viols: &mut Sink) -> Cnt {
    let mut cnt = Cnt::default();
    let tol = tol_of(float);
    let p: Vec<F> = pred.iter().map(|&x| F::cast(x)).collect();
    let t: Vec<F> = truth.iter().map(|&x| F::cast(x)).collect();
    let p64: Vec<f64> = p.iter().map(|x| x.to_f64().unwrap()).collect();
    let t64: Vec<f64> = t.iter().map(|x| x.to_f64().unwrap()).collect();
    let exp = reference(&p64, &t64);
    let base = eight::<F, _, _>(&Array1::from(p.clone()), &Array1::from(t.clone()));
    let poison = |_: usize| F::cast(1e30);
    cnt.evals += 1;
    cnt.nontrivial += 1;
    cnt.bump("layouts.regression_single_cases", 1);
    for (lpn, lp) in L1_ALL {
        for (ltn, lt) in L1_ALL {
            if lp == L1::Std && lt == L1::Std {
                continue;
            }
            let hp = hold1(&p, &poison, lp);
            let ht = hold1(&t, &poison, lt);
            let (pv, tv) = (hp.view(), ht.view());
            let r = eight::<F, _, _>(&pv, &tv);
            cnt.bump("layouts.regression_layout_runs", 1);
            for i in 0..8 {
                let Some((_, scale, slack)) = exp.v[i] else { continue };
                cnt.bump("layouts.values_compared", 1);
                if same_bits(&r[i], &base[i]) {
                    cnt.bump("layouts.values_bit_identical", 1);
                    continue;
                }
                let ok = match (&r[i], &base[i]) {
                    (Ok(a), Ok(b)) => closef(*a, *b, 2.0 * tol.rel, 2.0 * (tol.abs + slack), scale),
                    _ => false,
                };
                if !ok {
                    report!(
                        viols,
                        format!("regression.{}.layout_dependence", NAMES[i]),
                        outer,
                        json!({"metric": NAMES[i], "pred_layout": lpn, "truth_layout": ltn}),
                        "{}: prediction as {}, truth as {} gives {:?}; the standard-layout arrays with the same elements give {:?}",
                        NAMES[i],
                        lpn,
                        ltn,
                        r[i],
                        base[i]
                    );
                }
            }
        }
    }
    cnt
}

pub fn lay_regr_multi<F: Float>(outer: &Case, float: &str, pred_cols: &[Vec<f64>], truth_cols: &[Vec<f64>], viols: &mut Sink) -> Cnt {
    let mut cnt = Cnt::default();
    let tol = tol_of(float);
    let m = pred_cols.len();
    let n = pred_cols[0].len();
    let getp = |i: usize, j: usize| F::cast(pred_cols[j][i]);
    let gett = |i: usize, j: usize| F::cast(truth_cols[j][i]);
    let poison = |_: usize, _: usize| F::cast(1e30);
    let exps: Vec<Expect> = (0..m)
        .map(|j| {
            let pc: Vec<f64> = (0..n).map(|i| getp(i, j).to_f64().unwrap()).collect();
            let tc: Vec<f64> = (0..n).map(|i| gett(i, j).to_f64().unwrap()).collect();
            reference(&pc, &tc)
        })
        .collect();
    let bp = hold2(n, m, &getp, &poison, L2::Std);
    let bt = hold2(n, m, &gett, &poison, L2::Std);
    let base = eight_multi::<F, _, _>(&bp.view(), &bt.view());
    cnt.evals += 1;
    cnt.nontrivial += 1;
    cnt.bump("layouts.regression_multi_cases", 1);
    for (lpn, lp) in L2_ALL {
        for (ltn, lt) in L2_ALL {
            if lp == L2::Std && lt == L2::Std {
                continue;
            }
            let hp = hold2(n, m, &getp, &poison, lp);
            let ht = hold2(n, m, &gett, &poison, lt);
            let r = eight_multi::<F, _, _>(&hp.view(), &ht.view());
            cnt.bump("layouts.regression_layout_runs", 1);
            for i in 0..8 {
                for j in 0..m {
                    let Some((_, scale, slack)) = exps[j].v[i] else { continue };
                    cnt.bump("layouts.values_compared", 1);
                    let a: Result<f64, String> = r[i].as_ref().map(|v| v.get(j).copied().unwrap_or(f64::NAN)).map_err(|e| e.clone());
                    let b: Result<f64, String> = base[i].as_ref().map(|v| v.get(j).copied().unwrap_or(f64::NAN)).map_err(|e| e.clone());
                    if same_bits(&a, &b) {
                        cnt.bump("layouts.values_bit_identical", 1);
                        continue;
                    }
                    let ok = match (&a, &b) {
                        (Ok(x), Ok(y)) => closef(*x, *y, 2.0 * tol.rel, 2.0 * (tol.abs + slack), scale),
                        _ => false,
                    };
                    if !ok {
                        report!(
                            viols,
                            format!("regression.{}.layout_dependence", NAMES[i]),
                            outer,
                            json!({"metric": NAMES[i], "column": j, "pred_layout": lpn, "truth_layout": ltn}),
                            "multi-target {} column {}: prediction matrix as {}, truth matrix as {} gives {:?}; standard layout gives {:?}",
                            NAMES[i],
                            j,
                            lpn,
                            ltn,
                            a,
                            b
                        );
                    }
                }
            }
        }
    }
    cnt
}

// ---------------------------------------------------------------------------------------------
// scale: every value multiplied by a factor. max / mean / median absolute error follow the factor,
// MSE its square, MAPE / R2 / explained variance do not move. Judged against the definition on the
// scaled values with a purely relative tolerance (no absolute slack, no allowance for the 1e-10
// denominator guard of r2 / explained_variance: that guard is what makes them scale dependent).
// ---------------------------------------------------------------------------------------------

/// power of the factor each metric scales with (None: neither invariant nor equivariant)
const SCALE_DEGREE: [Option<i32>; 8] = [Some(1), Some(1), Some(2), None, Some(1), Some(0), Some(0), Some(0)];

fn judge_scaled(i: usize, obs: &Result<f64, String>, p: &[f64], t: &[f64], factor: f64, tol: &Tol, outer: &Case, extra: serde_json::Value, cnt: &mut Cnt, viols: &mut Sink) {
    let Some(deg) = SCALE_DEGREE[i] else { return };
    let exp = reference(p, t);
    let Some((e, scale, _guard_slack)) = exp.v[i] else {
        cnt.bump("scale.metric_inputs_out_of_domain", 1);
        return;
    };
    cnt.bump("scale.values_compared", 1);
    let abs = tol.abs * factor.abs().powi(deg);
    let mut a = json!({"metric": NAMES[i], "factor": factor});
    if let (Some(o), Some(x)) = (a.as_object_mut(), extra.as_object()) {
        for (k, v) in x {
            o.insert(k.clone(), v.clone());
        }
    }
    let o = match obs {
        Ok(o) => *o,
        Err(msg) => {
            report!(viols, format!("regression.{}.error_or_panic", NAMES[i]), outer, a, "{} on scaled input: {}", NAMES[i], msg);
            return;
        }
    };
    if closef(o, e, tol.rel, abs, scale) {
        return;
    }
    // closed forms of the known deviations
    let n = p.len() as f64;
    let err: Vec<f64> = p.iter().zip(t).map(|(a, b)| a - b).collect();
    let sse: f64 = err.iter().map(|x| x * x).sum();
    let emean = err.iter().sum::<f64>() / n;
    let tmean = t.iter().sum::<f64>() / n;
    let sst: f64 = t.iter().map(|x| (x - tmean) * (x - tmean)).sum();
    let like = |w: f64| closef(o, w, tol.rel, abs, (sse / (sst + 1e-10)).max(1.0));
    let sig = if i == 6 && like(1.0 - sse / (sst + 1e-10)) {
        "regression.r2.absolute_denominator_guard_breaks_scale_invariance".to_string()
    } else if i == 7 && like(1.0 - (sse - emean) / (sst + 1e-10)) {
        "regression.explained_variance.subtracts_mean_error_instead_of_n_mean_error_squared".to_string()
    } else if i == 7 && like(1.0 - (sse - n * emean * emean) / (sst + 1e-10)) {
        "regression.explained_variance.absolute_denominator_guard_breaks_scale_invariance".to_string()
    } else {
        format!("regression.{}.scale_dependence", NAMES[i])
    };
    report!(
        viols,
        sig,
        outer,
        a,
        "{} on the base vectors multiplied by {:e} = {:e}; the definition on the scaled values gives {:e} (SSres = {:e}, SStot = {:e}; with `+ 1e-10` in the denominator: {:e})",
        NAMES[i],
        factor,
        o,
        e,
        sse,
        sst,
        1.0 - sse / (sst + 1e-10)
    );
}

pub fn run_regr_scaled<F: Float>(outer: &Case, float: &str, pred: &[f64], truth: &[f64], factor: f64, viols: &mut Sink) -> Cnt {
    let mut cnt = Cnt::default();
    let tol = tol_of(float);
    let p: Array1<F> = arr(&pred.iter().map(|x| x * factor).collect::<Vec<_>>());
    let t: Array1<F> = arr(&truth.iter().map(|x| x * factor).collect::<Vec<_>>());
    let (p64, t64) = (back(&p), back(&t));
    cnt.evals += 1;
    cnt.nontrivial += 1;
    cnt.bump("scale.regression_single_cases", 1);
    let r = eight::<F, _, _>(&p, &t);
    for i in 0..8 {
        judge_scaled(i, &r[i], &p64, &t64, factor, &tol, outer, json!({}), &mut cnt, viols);
    }
    cnt
}

/// one factor per target column (a tiny column next to a huge one)
pub fn run_regr_multi_scaled<F: Float>(outer: &Case, float: &str, pred_cols: &[Vec<f64>], truth_cols: &[Vec<f64>], factors: &[f64], viols: &mut Sink) -> Cnt {
    let mut cnt = Cnt::default();
    let tol = tol_of(float);
    let m = pred_cols.len();
    let n = pred_cols[0].len();
    let fac = |j: usize| factors[j % factors.len()];
    let p: Array2<F> = Array2::from_shape_fn((n, m), |(i, j)| F::cast(pred_cols[j][i] * fac(j)));
    let t: Array2<F> = Array2::from_shape_fn((n, m), |(i, j)| F::cast(truth_cols[j][i] * fac(j)));
    cnt.evals += 1;
    cnt.nontrivial += 1;
    cnt.bump("scale.regression_multi_cases", 1);
    let res = eight_multi::<F, _, _>(&p, &t);
    for j in 0..m {
        let pc: Vec<f64> = (0..n).map(|i| p[(i, j)].to_f64().unwrap()).collect();
        let tc: Vec<f64> = (0..n).map(|i| t[(i, j)].to_f64().unwrap()).collect();
        for i in 0..8 {
            let o: Result<f64, String> = res[i].as_ref().map(|v| v.get(j).copied().unwrap_or(f64::NAN)).map_err(|e| e.clone());
            judge_scaled(i, &o, &pc, &tc, fac(j), &tol, outer, json!({"column": j}), &mut cnt, viols);
        }
    }
    cnt
}

// ---------------------------------------------------------------------------------------------
// translation: prediction and truth moved by a common offset (value -> offset + step * value).
// max / mean / median absolute error, MSE, R2 and explained variance do not move. The reference is
// the definition on the CENTRED values x - offset (that subtraction is exact in f64 for the values as
// the subject sees them), i.e. the definition evaluated without any rounding caused by the offset.
// Tolerance = the usual relative one + the conditioning of the definition's own two-pass arithmetic:
// the differences p - t and t - mean are exact, only the mean itself carries an error
// delta <= n * u * |offset|, which enters SStot as n * delta^2 (second order).
// ---------------------------------------------------------------------------------------------

const TRANSLATION_INVARIANT: [bool; 8] = [true, true, true, false, true, false, true, true];

pub fn run_regr_shifted<F: Float>(outer: &Case, float: &str, pred: &[f64], truth: &[f64], offset: f64, step: f64, viols: &mut Sink) -> Cnt {
    let mut cnt = Cnt::default();
    let tol = tol_of(float);
    let u = if float == "f32" { f32::EPSILON as f64 / 2.0 } else { f64::EPSILON / 2.0 };
    let n = pred.len();
    let p: Array1<F> = arr(&pred.iter().map(|x| offset + step * x).collect::<Vec<_>>());
    let t: Array1<F> = arr(&truth.iter().map(|x| offset + step * x).collect::<Vec<_>>());
    let pc: Vec<f64> = back(&p).iter().map(|x| x - offset).collect();
    let tc: Vec<f64> = back(&t).iter().map(|x| x - offset).collect();
    let exp = reference(&pc, &tc);
    cnt.evals += 1;
    cnt.nontrivial += 1;
    cnt.bump("shift.regression_cases", 1);
    let tmean = tc.iter().sum::<f64>() / n as f64;
    let sst: f64 = tc.iter().map(|x| (x - tmean) * (x - tmean)).sum();
    let delta = n as f64 * u * (offset.abs() + tc.iter().fold(0.0f64, |m, x| m.max(x.abs())));
    let r = eight::<F, _, _>(&p, &t);
    for i in 0..8 {
        if !TRANSLATION_INVARIANT[i] {
            continue;
        }
        let Some((e, scale, slack)) = exp.v[i] else {
            cnt.bump("shift.metric_inputs_out_of_domain", 1);
            continue;
        };
        cnt.bump("shift.values_compared", 1);
        // conditioning of the two-pass definition (r2 / explained variance only)
        let cond = if i >= 6 && sst > 0.0 { 4.0 * scale * (n as f64 * delta * delta / sst) } else { 0.0 };
        let a = json!({"metric": NAMES[i], "offset": offset, "step": step});
        match &r[i] {
            Ok(o) => {
                if !closef(*o, e, tol.rel, tol.abs + slack + cond, scale) {
                    let sig = if i == 7 && exp.ev_wrong_closed_form.map_or(false, |w| closef(*o, w, tol.rel, tol.abs + slack + cond, scale)) {
                        "regression.explained_variance.subtracts_mean_error_instead_of_n_mean_error_squared".to_string()
                    } else {
                        format!("regression.{}.translation_dependence", NAMES[i])
                    };
                    report!(
                        viols,
                        sig,
                        outer,
                        a,
                        "{} on prediction and truth both moved to {:e} + {} * value = {:e}; the definition on the centred values gives {:e} (allowed: relative {:e} + {:e})",
                        NAMES[i],
                        offset,
                        step,
                        o,
                        e,
                        tol.rel,
                        tol.abs + slack + cond
                    );
                }
            }
            Err(msg) => report!(viols, format!("regression.{}.error_or_panic", NAMES[i]), outer, a, "{} on shifted input: {}", NAMES[i], msg),
        }
    }
    cnt
}
