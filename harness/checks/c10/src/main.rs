//! C10 — a fitted Gaussian mixture is a valid mixture and yields valid probabilities.
//!
//! Exhaustive sweep (DESIGN.md §4 C10): every member of a finite CATALOGUE of deterministic blob
//! datasets (separated / overlapping / anisotropic / far-apart blobs; 1..3 (quick) or 1..6
//! (thorough) features; 20..60 rows; coordinates from an LCG with fixed constants — this is data
//! construction, not sampling of the case space: every catalogue member is run) x the full
//! configuration grid (components 1..3 x {KMeans, Random} initialisation x seeds x reg_covar x
//! tolerance x n_runs x iteration budget) x the query menu (every training row, every component
//! mean, and the points at 10, 38, 39, 100, 1e3, 1e6 Mahalanobis standard deviations from every
//! component along +-every coordinate axis and every diagonal; 38 / 39 bracket the f64 exp
//! underflow).
//!
//! Oracles are recomputed from the definition in plain f64 (lvmc_core::refmath; no linfa code):
//! weights, bounding box, symmetry, own Cholesky, precision x covariance = I (tolerance scaled by
//! the Jacobi condition number), the moment identity of an M-step
//!     sum_k w_k (S_k + (mu_k - m)(mu_k - m)^T) - reg I = population covariance of the data,
//! validity of every `predict_proba` row, `predict` in the arg-max set of its row, and both against
//! the posterior computed from the PUBLISHED weights / means / covariances with a max-shifted
//! log-sum-exp.

use linfa::prelude::*;
use linfa::{DatasetBase, Float, MultiTargetModel};
use linfa_clustering::{GaussianMixtureModel, GmmError, GmmInitMethod, GmmParams};
use lvmc_core::refmath::{self, Mat};
use lvmc_core::{guarded, json, par_sweep, Ctx, Level, Value, Violation};
use ndarray::{s, Array1, Array2, ArrayBase, ArrayView2, Data, Ix2, ShapeBuilder};
use rand::{RngCore, SeedableRng};
use rand_xoshiro::Xoshiro256Plus;
use serde::{Deserialize, Serialize};
use std::collections::{BTreeMap, BTreeSet};
use std::sync::Mutex;

// ------------------------------------------------------------------------------------------
// constants: every bound / tolerance is repeated in ctx.assume in main()
// ------------------------------------------------------------------------------------------

/// Mahalanobis distances of the far queries: 38 / 39 bracket the f64 exp underflow (30, 35 lead up to
/// it); 12..30 cover the f32 underflow band (exp is subnormal below -87.3 and 0 below -104, i.e. from
/// about 13.2 / 14.4 standard deviations on).
const SCALES_F64: [f64; 8] = [10.0, 30.0, 35.0, 38.0, 39.0, 100.0, 1e3, 1e6];
const SCALES_F32: [f64; 12] = [10.0, 12.0, 14.0, 16.0, 20.0, 25.0, 30.0, 38.0, 39.0, 100.0, 1e3, 1e6];
const LADDER: [u64; 5] = [1, 2, 3, 5, 10];

/// Tolerances per float type of the subject (all repeated in ctx.assume).
#[derive(Clone, Copy)]
struct Tols {
    /// |sum - 1| of a predict_proba row
    sum: f64,
    /// |sum - 1| of the weights (n <= 60 accumulated responsibilities)
    wsum: f64,
    sym: f64,
    moment: f64,
    boxr: f64,
    diag_rel: f64,
    /// safety factor on cond * (maha + d) bounding the discrepancy between two Cholesky-based
    /// evaluations of the same Gaussian log density (~900 eps of the float type)
    err_cond: f64,
    /// posterior comparison is skipped (indeterminate) when the error bound exceeds this
    err_skip: f64,
    ps_cond: f64,
    ps_floor: f64,
    ps_skip: f64,
    prob_floor: f64,
    tie: f64,
    margin_rel: f64,
    mean_round: f64,
    /// ln(MIN_POSITIVE): below it exp() is subnormal (loses bits)
    ln_min_normal: f64,
    /// slightly below the point where exp() becomes 0
    ln_zero: f64,
    /// a covariance without reference Cholesky factor is indeterminate when its smallest eigenvalue is
    /// above -pd_rel * largest (f64: only with reg_covar = 0)
    pd_rel: f64,
    pd_any_reg: bool,
    /// rounding of a mean log-likelihood computed by the subject in its float type (relative)
    loglik_round: f64,
    scales: &'static [f64],
}

const TOLS_F64: Tols = Tols {
    sum: 1e-9,
    wsum: 1e-9,
    sym: 1e-10,
    moment: 1e-9,
    boxr: 1e-9,
    diag_rel: 1e-12,
    err_cond: 1e-13,
    err_skip: 1e-4,
    ps_cond: 1e-13,
    ps_floor: 1e-12,
    ps_skip: 1e-6,
    prob_floor: 1e-9,
    tie: 1e-12,
    margin_rel: 1e-9,
    mean_round: 1e-10,
    ln_min_normal: -708.3964185322641,
    ln_zero: -745.2,
    pd_rel: 1e-12,
    pd_any_reg: false,
    loglik_round: 1e-10,
    scales: &SCALES_F64,
};
const TOLS_F32: Tols = Tols {
    sum: 1e-5,
    wsum: 5e-5,
    sym: 1e-5,
    moment: 5e-5,
    boxr: 5e-5,
    diag_rel: 1e-5,
    err_cond: 1e-5,
    err_skip: 1e-2,
    ps_cond: 1e-5,
    ps_floor: 1e-5,
    ps_skip: 1e-2,
    prob_floor: 1e-5,
    tie: 1e-6,
    margin_rel: 1e-6,
    mean_round: 1e-4,
    ln_min_normal: -87.33654475055310,
    ln_zero: -104.04,
    pd_rel: 1e-5,
    pd_any_reg: true,
    loglik_round: 1e-4,
    scales: &SCALES_F32,
};

// signatures of the one defect known from the design probe (no max-shift in the log-sum-exp of
// `estimate_log_prob_resp`); each is assigned only in the regime where the closed form applies
const SIG_INF: &str = "gmm.predict_proba.row_all_inf_when_every_component_density_underflows";
const SIG_SUBNORMAL: &str = "gmm.predict_proba.row_sum_off_when_component_densities_are_subnormal";
const SIG_PRED_FIRST: &str = "gmm.predict.first_component_when_proba_row_is_all_inf";

// ------------------------------------------------------------------------------------------
// case
// ------------------------------------------------------------------------------------------

/// One case group = dataset x component count x initialiser; the remaining grid dimensions are
/// lists that `run_case` walks completely. A violation carries the same structure with singleton
/// lists, so it replays exactly the failing fit.
#[derive(Clone, Debug, Serialize, Deserialize)]
struct Case {
    dataset: String,
    family: String,
    data: Vec<Vec<f64>>,
    n_clusters: usize,
    init: String, // "kmeans" | "random"
    seeds: Vec<u64>,
    reg_covars: Vec<f64>,
    tolerances: Vec<f64>,
    n_runs: Vec<u64>,
    max_iters: Vec<u64>,
    /// "sweep" (fit + parameter + query oracles) | "ladder" (iteration budgets: outcome kind only)
    #[serde(default = "default_kind")]
    kind: String,
    /// float type of the subject: "f64" | "f32"
    #[serde(default = "default_float")]
    float: String,
}

fn default_kind() -> String {
    "sweep".to_string()
}
fn default_float() -> String {
    "f64".to_string()
}

#[derive(Clone, Debug)]
struct Cfg {
    seed: u64,
    reg: f64,
    tol: f64,
    n_runs: u64,
    max_iter: u64,
}

impl Case {
    fn configs(&self) -> Vec<Cfg> {
        let mut out = Vec::new();
        for &seed in &self.seeds {
            for &reg in &self.reg_covars {
                for &tol in &self.tolerances {
                    for &n_runs in &self.n_runs {
                        for &max_iter in &self.max_iters {
                            out.push(Cfg { seed, reg, tol, n_runs, max_iter });
                        }
                    }
                }
            }
        }
        out
    }
}

fn single_case_json(case: &Case, cfg: &Cfg, at: Value) -> Value {
    let c = Case {
        dataset: case.dataset.clone(),
        family: case.family.clone(),
        data: case.data.clone(),
        n_clusters: case.n_clusters,
        init: case.init.clone(),
        seeds: vec![cfg.seed],
        reg_covars: vec![cfg.reg],
        tolerances: vec![cfg.tol],
        n_runs: vec![cfg.n_runs],
        max_iters: vec![cfg.max_iter],
        kind: case.kind.clone(),
        float: case.float.clone(),
    };
    let mut v = serde_json::to_value(&c).unwrap();
    v.as_object_mut().unwrap().insert("at".into(), at);
    v
}

#[derive(Default, Clone)]
struct Cnt(BTreeMap<String, u64>);
impl Cnt {
    fn add(&mut self, k: &str, n: u64) {
        *self.0.entry(k.to_string()).or_insert(0) += n;
    }
    fn max(&mut self, k: &str, v: u64) {
        let e = self.0.entry(k.to_string()).or_insert(0);
        if v > *e {
            *e = v;
        }
    }
    fn merge(&mut self, o: &Cnt) {
        for (k, v) in &o.0 {
            if k.contains("max_log10") {
                self.max(k, *v);
            } else {
                self.add(k, *v);
            }
        }
    }
}

// ------------------------------------------------------------------------------------------
// catalogue of datasets (deterministic; LCG with fixed constants)
// ------------------------------------------------------------------------------------------

struct Lcg(u64);
impl Lcg {
    fn unif(&mut self) -> f64 {
        self.0 = self.0.wrapping_mul(6364136223846793005).wrapping_add(1442695040888963407);
        ((self.0 >> 11) as f64) / ((1u64 << 53) as f64)
    }
    /// unit-variance bell-shaped deviate: centred sum of four uniforms (variance 4/12) x sqrt(3)
    fn bell(&mut self) -> f64 {
        (self.unif() + self.unif() + self.unif() + self.unif() - 2.0) * 3f64.sqrt()
    }
}

const FAMILIES: [&str; 5] = ["separated", "overlapping", "anisotropic", "far", "degenerate"];
const AXIS_SCALE: [f64; 6] = [3.0, 0.3, 1.0, 0.5, 2.0, 0.2];
const OFFSET: [f64; 6] = [2.5, -1.25, 0.75, 4.0, -3.5, 1.5];

fn build_dataset(fam_idx: usize, d: usize, blobs: usize, rows_variant: usize) -> Vec<Vec<f64>> {
    let family = FAMILIES[fam_idx];
    let sep = match family {
        "separated" => 10.0,
        "overlapping" => 1.5,
        "anisotropic" => 6.0,
        "far" => 1000.0,
        _ => 4.0, // degenerate
    };
    let rows: Vec<usize> = if rows_variant == 0 { vec![10; blobs] } else { [25usize, 15, 20][..blobs].to_vec() };
    let mut lcg = Lcg(0x9E37_79B9_7F4A_7C15 ^ (((fam_idx as u64) << 32) | ((d as u64) << 16) | ((blobs as u64) << 8) | rows_variant as u64));
    // warm up
    for _ in 0..8 {
        lcg.unif();
    }
    let mut data = Vec::new();
    for b in 0..blobs {
        let mut centre = vec![0.0; d];
        match b {
            0 => {}
            1 => centre[0] = sep,
            _ => {
                if d >= 2 {
                    centre[0] = -0.6 * sep;
                    centre[1] = 0.9 * sep;
                } else {
                    centre[0] = -1.3 * sep;
                }
            }
        }
        let sig = [1.0, 0.7, 1.4][b];
        let ang = 0.5236 * (b as f64 + 1.0);
        for _ in 0..rows[b] {
            let mut z: Vec<f64> = (0..d).map(|_| lcg.bell()).collect();
            if family == "anisotropic" {
                for j in 0..d {
                    z[j] *= AXIS_SCALE[(j + b) % 6];
                }
                if d >= 2 {
                    let (c, s) = (ang.cos(), ang.sin());
                    let (a0, a1) = (z[0], z[1]);
                    z[0] = c * a0 - s * a1;
                    z[1] = s * a0 + c * a1;
                }
            } else {
                for v in z.iter_mut() {
                    *v *= sig;
                }
            }
            if family == "degenerate" {
                // rank-deficient clouds: in >= 2 dimensions the last coordinate is constant (only reg_covar
                // makes the covariances positive definite); in one dimension the values lie on a grid of
                // step 0.5, so that many rows are exact duplicates
                if d >= 2 {
                    z[d - 1] = 0.0;
                    centre[d - 1] = 0.0;
                } else {
                    z[0] = (z[0] * 2.0).round() / 2.0;
                }
            }
            // six decimals: short literals that survive the JSON round trip of the replay artefact exactly
            let row: Vec<f64> = (0..d).map(|j| ((centre[j] + OFFSET[j] + z[j]) * 1e6).round() / 1e6).collect();
            data.push(row);
        }
    }
    data
}

struct Member {
    id: String,
    family: &'static str,
    data: Vec<Vec<f64>>,
}

fn catalogue(thorough: bool) -> Vec<Member> {
    let mut out = Vec::new();
    let dims: Vec<usize> = if thorough { vec![1, 2, 3, 4, 5, 6] } else { vec![1, 2, 3] };
    for (fi, fam) in FAMILIES.iter().enumerate() {
        for &d in &dims {
            for blobs in [2usize, 3] {
                for rv in [0usize, 1] {
                    out.push(Member { id: format!("{}-d{}-b{}-r{}", fam, d, blobs, rv), family: fam, data: build_dataset(fi, d, blobs, rv) });
                }
            }
        }
    }
    // "duplicates": 20 / 60 rows that are copies of only 1..3 distinct points located away from the
    // origin (box [5,9] x [3,7] x [4,8]); fitted with up to 4 components, i.e. also with MORE components
    // than distinct points, which is what empties a component (k-means initialisation) and must end
    // in Err(EmptyCluster) or in a valid model
    const DISTINCT: [[f64; 3]; 3] = [[5.25, 6.5, 4.5], [8.75, 3.125, 7.25], [6.5, 4.75, 5.75]];
    let dup_dims: Vec<usize> = if thorough { vec![1, 2, 3] } else { vec![1, 2] };
    for &d in &dup_dims {
        for p in 1..=3usize {
            for n in [20usize, 60] {
                // unequal multiplicities, blocks in the order of DISTINCT: cumulative shares 50 % / 80 % / 100 %
                let data: Vec<Vec<f64>> = (0..n)
                    .map(|i| {
                        let f = i as f64 / n as f64;
                        let which = if p == 1 { 0 } else if p == 2 { (f >= 0.6) as usize } else { (f >= 0.5) as usize + (f >= 0.8) as usize };
                        DISTINCT[which][..d].to_vec()
                    })
                    .collect();
                out.push(Member { id: format!("duplicates-d{}-p{}-n{}", d, p, n), family: "duplicates", data });
            }
        }
    }
    out
}

// ------------------------------------------------------------------------------------------
// reference model of one component (plain f64)
// ------------------------------------------------------------------------------------------

struct RefComp {
    lw: f64,
    mu: Vec<f64>,
    l: Mat,
    logdet: f64,
    cond: f64,
}

/// y = L^-1 v (forward substitution)
fn fwd(l: &Mat, v: &[f64]) -> Vec<f64> {
    let n = v.len();
    let mut y = vec![0.0; n];
    for i in 0..n {
        let mut s = v[i];
        for k in 0..i {
            s -= l[i][k] * y[k];
        }
        y[i] = s / l[i][i];
    }
    y
}

impl RefComp {
    /// (weighted log density, squared Mahalanobis distance)
    fn wlp(&self, x: &[f64]) -> (f64, f64) {
        let d = x.len();
        let diff: Vec<f64> = x.iter().zip(&self.mu).map(|(a, b)| a - b).collect();
        let y = fwd(&self.l, &diff);
        let maha: f64 = y.iter().map(|v| v * v).sum();
        let lp = -0.5 * (d as f64 * (2.0 * std::f64::consts::PI).ln() + self.logdet + maha);
        (self.lw + lp, maha)
    }
}

fn dirs(d: usize) -> Vec<(String, Vec<f64>)> {
    let mut out = Vec::new();
    for j in 0..d {
        for s in [1.0, -1.0] {
            let mut u = vec![0.0; d];
            u[j] = s;
            out.push((format!("axis{}{}", if s > 0.0 { "+" } else { "-" }, j), u));
        }
    }
    if d >= 2 {
        let r = 1.0 / (d as f64).sqrt();
        for mask in 0..(1usize << d) {
            let u: Vec<f64> = (0..d).map(|j| if mask >> j & 1 == 1 { -r } else { r }).collect();
            out.push((format!("diag{:0w$b}", mask, w = d), u));
        }
    }
    out
}

fn error_kind(e: &GmmError) -> &'static str {
    match e {
        GmmError::InvalidValue(_) => "InvalidValue",
        GmmError::LinalgError(_) => "LinalgError",
        GmmError::EmptyCluster(_) => "EmptyCluster",
        GmmError::LowerBoundError(_) => "LowerBoundError",
        GmmError::NotConverged(_) => "NotConverged",
        GmmError::KMeansError(_) => "KMeansError",
        GmmError::LinfaError(_) => "LinfaError",
        GmmError::MinMaxError(_) => "MinMaxError",
    }
}

fn max_abs(m: &Mat) -> f64 {
    m.iter().flatten().fold(0.0f64, |s, v| s.max(v.abs()))
}

// ------------------------------------------------------------------------------------------
// one fit + all its oracles
// ------------------------------------------------------------------------------------------

/// Returns true when the fit produced a model (so the parameter and query oracles ran).
fn do_fit<F: Float>(case: &Case, cfg: &Cfg, max_iter: u64) -> Result<Result<GaussianMixtureModel<F>, GmmError>, String> {
    let n = case.data.len();
    let d = case.data[0].len();
    let rec = Array2::from_shape_fn((n, d), |(i, j)| F::cast(case.data[i][j]));
    fit_records(case, cfg, max_iter, rec)
}

fn fit_records<F: Float, D: Data<Elem = F>>(case: &Case, cfg: &Cfg, max_iter: u64, rec: ArrayBase<D, Ix2>) -> Result<Result<GaussianMixtureModel<F>, GmmError>, String> {
    let ds = DatasetBase::from(rec);
    let init = match case.init.as_str() {
        "kmeans" => GmmInitMethod::KMeans,
        "random" => GmmInitMethod::Random,
        other => panic!("unknown init {}", other),
    };
    guarded(|| {
        GaussianMixtureModel::<F>::params(case.n_clusters)
            .init_method(init)
            .reg_covariance(F::cast(cfg.reg))
            .tolerance(F::cast(cfg.tol))
            .n_runs(cfg.n_runs)
            .max_n_iterations(max_iter)
            .with_rng(Xoshiro256Plus::seed_from_u64(cfg.seed))
            .fit(&ds)
    })
}

fn cfg_text(case: &Case, cfg: &Cfg) -> String {
    format!(
        "dataset {} ({}x{}), {}, {} components, {} init, seed {}, reg_covar {:e}, tolerance {:e}, n_runs {}, max_iter {}",
        case.dataset,
        case.data.len(),
        case.data[0].len(),
        case.float,
        case.n_clusters,
        case.init,
        cfg.seed,
        cfg.reg,
        cfg.tol,
        cfg.n_runs,
        cfg.max_iter
    )
}

fn f64_of<F: Float>(x: F) -> f64 {
    x.to_f64().unwrap()
}

fn run_fit<F: Float>(case: &Case, cfg: &Cfg, t: &Tols, cnt: &mut Cnt, viols: &mut Vec<Violation>) -> bool {
    let n = case.data.len();
    let d = case.data[0].len();
    let k = case.n_clusters;
    // the data as the subject sees them (rounded to F)
    let data: Mat = case.data.iter().map(|r| r.iter().map(|&v| f64_of(F::cast(v))).collect()).collect();
    let reg = f64_of(F::cast(cfg.reg));
    let cj = |at: Value| single_case_json(case, cfg, at);
    cnt.add("fits", 1);
    let cfg_txt = cfg_text(case, cfg);
    // sums over n rows: the tolerances of the accumulated quantities grow with n beyond the 60 rows
    // they were stated for (unchanged for every dataset of <= 60 rows)
    let ns = (n as f64 / 60.0).max(1.0);
    let t = &Tols { wsum: t.wsum * ns, moment: t.moment * ns, boxr: t.boxr * ns, ..*t };

    let fit = do_fit::<F>(case, cfg, cfg.max_iter);
    let model = match fit {
        Err(p) => {
            cnt.add("fit_panics", 1);
            viols.push(Violation::new("gmm.fit.panic", format!("fit panicked ({}): {}", cfg_txt, p), cj(json!({"phase": "fit"}))));
            return false;
        }
        Ok(Err(e)) => {
            let kind = error_kind(&e);
            cnt.add(&format!("fit_err.{}", kind), 1);
            if kind == "InvalidValue" {
                viols.push(Violation::new(
                    "gmm.fit.valid_hyperparameters_rejected",
                    format!("valid hyper-parameters were rejected ({}): {}", cfg_txt, e),
                    cj(json!({"phase": "fit"})),
                ));
            }
            return false;
        }
        Ok(Ok(m)) => m,
    };
    cnt.add("fits_ok", 1);

    // ---------------- published parameters as plain vectors ----------------
    let w: Vec<f64> = model.weights().iter().map(|&v| f64_of(v)).collect();
    let mu: Mat = model.means().rows().into_iter().map(|r| r.iter().map(|&v| f64_of(v)).collect()).collect();
    let to_mats = |a: &ndarray::Array3<F>| -> Vec<Mat> { a.outer_iter().map(|m| m.rows().into_iter().map(|r| r.iter().map(|&v| f64_of(v)).collect()).collect()).collect() };
    let cov: Vec<Mat> = to_mats(model.covariances());
    let prec: Vec<Mat> = to_mats(model.precisions());
    let at_model = |what: &str| cj(json!({"phase": "model", "check": what}));

    let shape_ok = w.len() == k
        && mu.len() == k
        && mu.iter().all(|r| r.len() == d)
        && cov.len() == k
        && prec.len() == k
        && cov.iter().chain(prec.iter()).all(|m| m.len() == d && m.iter().all(|r| r.len() == d));
    if !shape_ok {
        viols.push(Violation::new(
            "gmm.fit.wrong_shape",
            format!("{}: weights {:?}, means {:?}, covariances {:?}, precisions {:?} for k={} d={}", cfg_txt, model.weights().dim(), model.means().dim(), model.covariances().dim(), model.precisions().dim(), k, d),
            at_model("shape"),
        ));
        return true;
    }
    let all_finite = w.iter().all(|v| v.is_finite())
        && mu.iter().flatten().all(|v| v.is_finite())
        && cov.iter().flatten().flatten().all(|v| v.is_finite())
        && prec.iter().flatten().flatten().all(|v| v.is_finite());
    if !all_finite {
        viols.push(Violation::new(
            "gmm.fit.non_finite_parameters",
            format!("{}: Ok model with non-finite parameters: weights {:?} means {:?}", cfg_txt, w, mu),
            at_model("finite"),
        ));
        return true;
    }

    // weights
    let wsum: f64 = w.iter().sum();
    if w.iter().any(|&v| !(v > 0.0)) {
        viols.push(Violation::new("gmm.fit.weight_not_positive", format!("{}: weights {:?}", cfg_txt, w), at_model("weights_positive")));
    }
    if (wsum - 1.0).abs() > t.wsum {
        viols.push(Violation::new("gmm.fit.weights_do_not_sum_to_one", format!("{}: weights {:?} sum to {} (expected 1 +- {:e})", cfg_txt, w, wsum, t.wsum), at_model("weights_sum")));
    }

    // bounding box
    let xmax = data.iter().flatten().fold(0.0f64, |s, v| s.max(v.abs()));
    for j in 0..d {
        let lo = data.iter().map(|r| r[j]).fold(f64::INFINITY, f64::min);
        let hi = data.iter().map(|r| r[j]).fold(f64::NEG_INFINITY, f64::max);
        let slack = t.boxr * (1.0 + xmax);
        if let Some(c) = (0..k).find(|&c| mu[c][j] < lo - slack || mu[c][j] > hi + slack) {
            viols.push(Violation::new(
                "gmm.fit.mean_outside_bounding_box",
                format!("{}: mean of component {} has coordinate {} = {} outside the data range [{}, {}]", cfg_txt, c, j, mu[c][j], lo, hi),
                at_model("bounding_box"),
            ));
            break;
        }
    }

    // covariances: symmetric, diagonal >= reg, positive definite (own Cholesky)
    let mut comps: Vec<RefComp> = Vec::new();
    let mut pd = true;
    for c in 0..k {
        let s = &cov[c];
        let sm = max_abs(s);
        let mut asym = 0.0f64;
        for i in 0..d {
            for j in 0..i {
                asym = asym.max((s[i][j] - s[j][i]).abs());
            }
        }
        if asym > t.sym * sm {
            viols.push(Violation::new("gmm.fit.covariance_not_symmetric", format!("{}: covariance {} = {:?} asymmetric by {:e}", cfg_txt, c, s, asym), at_model("symmetric")));
        }
        if let Some(i) = (0..d).find(|&i| s[i][i] < reg * (1.0 - t.diag_rel)) {
            viols.push(Violation::new(
                "gmm.fit.covariance_diagonal_below_reg_covar",
                format!("{}: covariance {} has diagonal entry [{}] = {:e} < reg_covar {:e}", cfg_txt, c, i, s[i][i], cfg.reg),
                at_model("diag_reg"),
            ));
        }
        // symmetrised copy for the reference factorisation (the asymmetry is checked above)
        let sym: Mat = (0..d).map(|i| (0..d).map(|j| 0.5 * (s[i][j] + s[j][i])).collect()).collect();
        match refmath::cholesky(&sym) {
            Some(l) => {
                let (vals, _) = refmath::jacobi_eig(&sym);
                let lmin = vals.last().cloned().unwrap_or(0.0);
                let cond = if lmin > 0.0 { vals[0] / lmin } else { f64::INFINITY };
                let logdet = 2.0 * (0..d).map(|i| l[i][i].ln()).sum::<f64>();
                comps.push(RefComp { lw: w[c].ln(), mu: mu[c].clone(), l, logdet, cond });
            }
            None => {
                pd = false;
                // numerically semi-definite matrices (possible only with reg_covar = 0) are a rounding
                // question between two Cholesky implementations, not a verdict
                let (vals, _) = refmath::jacobi_eig(&sym);
                if (cfg.reg == 0.0 || t.pd_any_reg) && vals.last().map_or(false, |&l| l > -t.pd_rel * vals[0].abs()) {
                    cnt.add("positive_definite_indeterminate_numerically_semi_definite", 1);
                    continue;
                }
                viols.push(Violation::new("gmm.fit.covariance_not_positive_definite", format!("{}: covariance {} = {:?} has no Cholesky factor", cfg_txt, c, s), at_model("positive_definite")));
            }
        }
    }
    if !pd {
        return true;
    }
    let max_cond = comps.iter().fold(1.0f64, |s, c| s.max(c.cond));
    if max_cond.is_finite() {
        cnt.max("max_log10_condition_number_x100", (max_cond.log10() * 100.0).max(0.0) as u64);
    } else {
        // Cholesky succeeded but the smallest Jacobi eigenvalue is <= 0 (reg_covar = 0 on rank-deficient
        // data): no reference-based oracle is possible, the validity oracles still run
        cnt.add("models_with_numerically_singular_covariance", 1);
    }

    // precisions x covariances = I
    for c in 0..k {
        let tol_ps = t.ps_cond * comps[c].cond + t.ps_floor;
        if !(tol_ps <= t.ps_skip) {
            cnt.add("precision_checks_indeterminate_cond_too_large", 1);
            continue;
        }
        cnt.add("precision_checks", 1);
        let ps = refmath::matmul(&prec[c], &cov[c]);
        let mut dev = 0.0f64;
        for i in 0..d {
            for j in 0..d {
                dev = dev.max((ps[i][j] - if i == j { 1.0 } else { 0.0 }).abs());
            }
        }
        if dev > tol_ps {
            viols.push(Violation::new(
                "gmm.fit.precisions_not_inverse_of_covariances",
                format!("{}: component {}: max |P S - I| = {:e} (tolerance {:e}, condition number {:e}); P = {:?}, S = {:?}", cfg_txt, c, dev, tol_ps, comps[c].cond, prec[c], cov[c]),
                at_model("precision_times_covariance"),
            ));
            break;
        }
    }

    // moment identities of an M-step with responsibilities whose rows sum to one
    let m = refmath::col_means(&data);
    let total = refmath::covariance(&data, 0.0);
    let mix_mean: Vec<f64> = (0..d).map(|j| (0..k).map(|c| w[c] * mu[c][j]).sum::<f64>() / wsum).collect();
    if (wsum - 1.0).abs() <= t.wsum {
        if let Some(j) = (0..d).find(|&j| (mix_mean[j] - m[j]).abs() > t.moment * (1.0 + xmax)) {
            viols.push(Violation::new(
                "gmm.fit.mixture_mean_differs_from_data_mean",
                format!("{}: sum_k w_k mu_k [{}] = {} but the data mean is {}", cfg_txt, j, mix_mean[j], m[j]),
                at_model("moment_mean"),
            ));
        }
        let mut mix = refmath::zeros(d, d);
        for c in 0..k {
            for i in 0..d {
                for j in 0..d {
                    mix[i][j] += w[c] * (cov[c][i][j] + (mu[c][i] - m[i]) * (mu[c][j] - m[j]));
                }
            }
        }
        for i in 0..d {
            mix[i][i] -= reg;
        }
        // absolute floor (1e-10 (1 + max|x|))^2: the square of the rounding of a mean, which is all that is
        // left when every row is the same point and reg_covar = 0 (population covariance exactly 0)
        let tol_m = t.moment * (max_abs(&total) + reg) + (t.mean_round * (1.0 + xmax)).powi(2);
        let mut worst = (0.0f64, 0usize, 0usize);
        for i in 0..d {
            for j in 0..d {
                let dv = (mix[i][j] - total[i][j]).abs();
                if dv > worst.0 {
                    worst = (dv, i, j);
                }
            }
        }
        cnt.add("moment_identity_checks", 1);
        if worst.0 > tol_m {
            let (i, j) = (worst.1, worst.2);
            viols.push(Violation::new(
                "gmm.fit.mixture_second_moment_differs_from_data_covariance_plus_reg",
                format!(
                    "{}: [sum_k w_k (S_k + (mu_k-m)(mu_k-m)^T) - reg I][{}][{}] = {} but the population covariance of the data is {} (|diff| {:e} > {:e})",
                    cfg_txt, i, j, mix[i][j], total[i][j], worst.0, tol_m
                ),
                at_model("moment_covariance"),
            ));
        }
    }

    // statistic on "Ok implies converged": the subject stops when the mean log-likelihood changed by less than the
    // tolerance between two consecutive iterations, so one further (reference) EM step from the published
    // parameters must not move it by much more than that
    if max_cond.is_finite() && max_cond < 1e10 {
        let l1 = mean_loglik(&data, &comps);
        match ref_em_step(&data, &comps, reg) {
            Some(next) if l1.is_finite() => {
                let l2 = mean_loglik(&data, &next);
                let tol_f = f64_of(F::cast(cfg.tol));
                let bound = 10.0 * tol_f + t.loglik_round * (1.0 + l1.abs());
                cnt.add("stationarity_checks", 1);
                let ratio = (l2 - l1).abs() / tol_f;
                cnt.max("max_log10_next_step_change_over_tolerance_x100_plus_2000", if ratio > 0.0 { (ratio.log10() * 100.0 + 2000.0).max(0.0) as u64 } else { 0 });
                // statistic only: a run may legitimately stop on a plateau that a dormant component leaves
                // later (seen with more components than distinct points), so this is not a verdict; the
                // verdict on "Ok implies converged" is the lock-step reference EM of the `lockstep` cases
                if !((l2 - l1).abs() <= bound) {
                    cnt.add("ok_models_whose_next_em_step_moves_the_log_likelihood_by_more_than_10_tolerances", 1);
                }
            }
            _ => cnt.add("stationarity_checks_indeterminate_reference_step_failed", 1),
        }
    } else {
        cnt.add("stationarity_checks_indeterminate_ill_conditioned", 1);
    }

    // ---------------- query menu ----------------
    struct Q {
        kind: String,
        x: Vec<f64>,
    }
    let mut qs: Vec<Q> = Vec::new();
    for (i, r) in data.iter().enumerate() {
        qs.push(Q { kind: format!("train{}", i), x: r.clone() });
    }
    for c in 0..k {
        qs.push(Q { kind: format!("mean{}", c), x: mu[c].clone() });
    }
    let dd = dirs(d);
    for c in 0..k {
        for &s in t.scales {
            for (name, u) in &dd {
                let y = fwd(&comps[c].l, u);
                let un: f64 = y.iter().map(|v| v * v).sum::<f64>().sqrt();
                let tt = s / un;
                // rounded to the subject's float type: the reference sees the same point
                let x: Vec<f64> = (0..d).map(|j| f64_of(F::cast(mu[c][j] + tt * u[j]))).collect();
                qs.push(Q { kind: format!("comp{}:{}sd:{}", c, s, name), x });
            }
        }
    }
    let nq = qs.len();
    let qarr = Array2::from_shape_fn((nq, d), |(i, j)| F::cast(qs[i].x[j]));
    cnt.add("queries", nq as u64);
    let at_q = |i: usize, q: &Q| cj(json!({"phase": "query", "query_index": i, "query_kind": q.kind, "query": q.x}));

    let proba = match guarded(|| model.predict_proba(&qarr)) {
        Ok(p) => p,
        Err(p) => {
            viols.push(Violation::new("gmm.predict_proba.panic", format!("{}: predict_proba on {} finite queries panicked: {}", cfg_txt, nq, p), cj(json!({"phase": "query_batch"}))));
            return true;
        }
    };
    if proba.dim() != (nq, k) {
        viols.push(Violation::new("gmm.predict_proba.wrong_shape", format!("{}: predict_proba returned {:?} for {} queries and {} components", cfg_txt, proba.dim(), nq, k), cj(json!({"phase": "query_batch"}))));
        return true;
    }
    let pred: Option<Vec<usize>> = match guarded(|| model.predict(&qarr)) {
        Ok(p) => Some(p.to_vec()),
        Err(p) => {
            let nan_rows = (0..nq).filter(|&i| proba.row(i).iter().any(|v| v.is_nan())).count();
            viols.push(Violation::new(
                "gmm.predict.panic",
                format!("{}: predict on {} finite queries panicked: {} ({} predict_proba rows contain NaN)", cfg_txt, nq, p, nan_rows),
                cj(json!({"phase": "query_batch"})),
            ));
            None
        }
    };
    if let Some(p) = &pred {
        if p.len() != nq {
            viols.push(Violation::new("gmm.predict.wrong_length", format!("{}: predict returned {} labels for {} queries", cfg_txt, p.len(), nq), cj(json!({"phase": "query_batch"}))));
            return true;
        }
    }

    // first violation per signature and fit is reported; the number of affected queries goes into the text
    let mut first: BTreeMap<&'static str, (usize, String)> = BTreeMap::new();
    let mut affected: BTreeMap<&'static str, u64> = BTreeMap::new();
    let mut note = |sig: &'static str, i: usize, what: String| {
        *affected.entry(sig).or_insert(0) += 1;
        first.entry(sig).or_insert((i, what));
    };
    let mut train_resp = vec![0.0f64; k];
    for (i, q) in qs.iter().enumerate() {
        let row: Vec<f64> = proba.row(i).iter().map(|&v| f64_of(v)).collect();
        let refs: Vec<(f64, f64)> = comps.iter().map(|c| c.wlp(&q.x)).collect();
        let wl: Vec<f64> = refs.iter().map(|r| r.0).collect();
        if i < n {
            for (c, p) in posterior(&wl).iter().enumerate() {
                train_resp[c] += p;
            }
        }
        let errs: Vec<f64> = refs.iter().zip(&comps).map(|((l, maha), c)| t.err_cond * c.cond * (maha + d as f64) + t.err_cond * l.abs()).collect();
        let err_max = errs.iter().cloned().fold(0.0f64, f64::max);
        let wl_max = wl.iter().cloned().fold(f64::NEG_INFINITY, f64::max);
        // regime: can any exp() of the reference weighted log densities be computed without loss?
        // slack of the classification: the discrepancy bound, but never more than 5 % of the value (an
        // ill-conditioned model must not widen the regime in which the narrow signatures apply)
        let slack = 1.0 + err_max.min(0.05 * wl_max.abs());
        let low_regime = wl_max < t.ln_min_normal + slack;
        if low_regime {
            if wl_max < t.ln_zero {
                cnt.add("queries_every_density_underflows_to_0", 1);
            } else {
                cnt.add("queries_largest_density_subnormal", 1);
            }
        } else {
            cnt.add("queries_normal_range", 1);
        }
        let all_pos_inf = row.iter().all(|&v| v == f64::INFINITY);
        let mut row_valid = false;
        if row.iter().any(|v| !v.is_finite()) {
            if low_regime && all_pos_inf {
                note(SIG_INF, i, format!("query {} = {:?}: predict_proba row {:?}; reference weighted log densities {:?} (all below ln(min subnormal) = {}, so every exp() is 0, the sum 0, its ln -inf); expected posterior {:?}", q.kind, q.x, row, wl, t.ln_zero, posterior(&wl)));
            } else {
                note("gmm.predict_proba.non_finite_row", i, format!("query {} = {:?}: predict_proba row {:?}; reference weighted log densities {:?}", q.kind, q.x, row, wl));
            }
        } else if row.iter().any(|&v| v < 0.0) {
            note("gmm.predict_proba.negative_probability", i, format!("query {} = {:?}: predict_proba row {:?}", q.kind, q.x, row));
        } else {
            let s: f64 = row.iter().sum();
            if (s - 1.0).abs() > t.sum {
                // subnormal band only: below it the un-shifted sum is exactly 0 and the row is all inf
                if low_regime && wl_max >= t.ln_zero - slack {
                    note(SIG_SUBNORMAL, i, format!("query {} = {:?}: predict_proba row {:?} sums to {} (|sum-1| = {:e}); reference weighted log densities {:?}: the largest exp() is subnormal, so the un-shifted sum has lost its mantissa", q.kind, q.x, row, s, (s - 1.0).abs(), wl));
                } else {
                    note("gmm.predict_proba.row_does_not_sum_to_one", i, format!("query {} = {:?}: predict_proba row {:?} sums to {} (expected 1 +- {:e})", q.kind, q.x, row, s, t.sum));
                }
            } else {
                row_valid = true;
            }
        }
        // posterior of the published parameters
        if row_valid && !low_regime {
            if err_max > t.err_skip {
                cnt.add("posterior_checks_indeterminate_error_bound_too_large", 1);
            } else {
                cnt.add("posterior_checks", 1);
                let p = posterior(&wl);
                let tol = k as f64 * err_max + t.prob_floor;
                if let Some(c) = (0..k).find(|&c| (p[c] - row[c]).abs() > tol) {
                    note(
                        "gmm.predict_proba.differs_from_posterior_of_published_parameters",
                        i,
                        format!("query {} = {:?}: predict_proba row {:?} but the posterior of the published weights / means / covariances is {:?} (component {} differs by {:e} > {:e})", q.kind, q.x, row, p, c, (p[c] - row[c]).abs(), tol),
                    );
                }
            }
        }
        // predict
        if let Some(pv) = &pred {
            let c = pv[i];
            if c >= k {
                note("gmm.predict.index_out_of_range", i, format!("query {} = {:?}: predict returned {} with {} components", q.kind, q.x, c, k));
                continue;
            }
            if !row.iter().any(|v| v.is_nan()) {
                let rmax = row.iter().cloned().fold(f64::NEG_INFINITY, f64::max);
                if !(row[c] >= rmax - t.tie) {
                    note("gmm.predict.not_argmax_of_predict_proba_row", i, format!("query {} = {:?}: predict returned {} but predict_proba row is {:?}", q.kind, q.x, c, row));
                }
            }
            let gap = wl_max - wl[c];
            let margin = 2.0 * err_max + t.margin_rel * (1.0 + wl_max.abs());
            if gap > margin {
                cnt.add("argmax_checks", 1);
                let best = (0..k).find(|&j| wl[j] == wl_max).unwrap();
                if all_pos_inf && low_regime && c == 0 {
                    note(SIG_PRED_FIRST, i, format!("query {} = {:?}: predict returned 0 (first of the all-inf predict_proba row {:?}) but component {} has the maximal posterior: reference weighted log densities {:?}", q.kind, q.x, row, best, wl));
                } else {
                    note("gmm.predict.not_a_component_of_maximal_posterior", i, format!("query {} = {:?}: predict returned {} but component {} has the maximal posterior: reference weighted log densities {:?} (gap {:e} > margin {:e}); predict_proba row {:?}", q.kind, q.x, c, best, wl, gap, margin, row));
                }
            } else if gap > 0.0 {
                cnt.add("argmax_checks_indeterminate_within_margin", 1);
            } else {
                cnt.add("argmax_checks", 1);
            }
        }
    }
    // statistic only (not demanded by the statement for a model that passed the guard one step earlier):
    // components whose total responsibility over the training rows, recomputed from the published
    // parameters, is below the subject's own emptiness threshold 10 eps
    if train_resp.iter().any(|&r| r < 10.0 * f64::EPSILON) {
        cnt.add("ok_models_with_a_component_of_total_training_responsibility_below_10eps", 1);
    }
    for (sig, (i, what)) in first {
        let nq_aff = affected[sig];
        cnt.add(&format!("queries_affected.{}", sig), nq_aff);
        viols.push(Violation::new(sig, format!("{}: {} [{} of the {} queries of this fit]", cfg_txt, what, nq_aff, nq), at_q(i, &qs[i])));
    }
    true
}

/// Mean log-likelihood of the data under the reference components.
fn mean_loglik(data: &Mat, comps: &[RefComp]) -> f64 {
    data.iter().map(|x| refmath::logsumexp(&comps.iter().map(|c| c.wlp(x).0).collect::<Vec<_>>())).sum::<f64>() / data.len() as f64
}

/// One textbook EM step (E-step with a max-shifted log-sum-exp, M-step with reg on the diagonal) from the
/// given components; None when a new covariance has no Cholesky factor or a component is emptied.
fn ref_em_step(data: &Mat, comps: &[RefComp], reg: f64) -> Option<Vec<RefComp>> {
    let (n, d, k) = (data.len(), data[0].len(), comps.len());
    let resp: Vec<Vec<f64>> = data.iter().map(|x| posterior(&comps.iter().map(|c| c.wlp(x).0).collect::<Vec<_>>())).collect();
    let mut out = Vec::new();
    for c in 0..k {
        let nk: f64 = resp.iter().map(|r| r[c]).sum();
        if !(nk > 1e-12) {
            return None;
        }
        let mu: Vec<f64> = (0..d).map(|j| data.iter().zip(&resp).map(|(x, r)| r[c] * x[j]).sum::<f64>() / nk).collect();
        let mut s = refmath::zeros(d, d);
        for (x, r) in data.iter().zip(&resp) {
            for i in 0..d {
                for j in 0..d {
                    s[i][j] += r[c] * (x[i] - mu[i]) * (x[j] - mu[j]);
                }
            }
        }
        for i in 0..d {
            for j in 0..d {
                s[i][j] /= nk;
            }
            s[i][i] += reg;
        }
        let l = refmath::cholesky(&s)?;
        let logdet = 2.0 * (0..d).map(|i| l[i][i].ln()).sum::<f64>();
        out.push(RefComp { lw: (nk / n as f64).ln(), mu, l, logdet, cond: 1.0 });
    }
    Some(out)
}

fn posterior(wl: &[f64]) -> Vec<f64> {
    let lse = refmath::logsumexp(wl);
    wl.iter().map(|v| (v - lse).exp()).collect()
}

// ------------------------------------------------------------------------------------------
// lock-step reference EM: "Ok implies converged, Err(NotConverged) implies not converged"
// ------------------------------------------------------------------------------------------

fn ref_comps_of(model: &GaussianMixtureModel<f64>) -> Option<Vec<RefComp>> {
    let mut out = Vec::new();
    for (c, s) in model.covariances().outer_iter().enumerate() {
        let sm: Mat = s.rows().into_iter().map(|r| r.to_vec()).collect();
        let l = refmath::cholesky(&sm)?;
        let logdet = 2.0 * (0..sm.len()).map(|i| l[i][i].ln()).sum::<f64>();
        out.push(RefComp { lw: model.weights()[c].ln(), mu: model.means().row(c).to_vec(), l, logdet, cond: 1.0 });
    }
    Some(out)
}

/// n_runs >= 2: the runs continue from each other's state; the run with the best lower bound is returned
/// and ITS convergence flag decides between Ok and Err(NotConverged).
fn run_lockstep_multi(case: &Case, cfg: &Cfg, cnt: &mut Cnt, viols: &mut Vec<Violation>) -> bool {
    let cj = |at: Value| single_case_json(case, cfg, at);
    let cfg_txt = cfg_text(case, cfg);
    cnt.add("fits", 1);
    let data = &case.data;
    let one = Cfg { n_runs: 1, ..cfg.clone() };
    let start = match do_fit::<f64>(case, &Cfg { tol: 1e300, ..one.clone() }, cfg.max_iter.max(2)) {
        Ok(Ok(m)) => m,
        _ => {
            cnt.add("multi_indeterminate_no_two_iteration_state", 1);
            return false;
        }
    };
    // the first run must not stop at an iteration <= 2 (its first two log-likelihoods are not observable)
    match do_fit::<f64>(case, &one, 3) {
        Ok(Err(GmmError::NotConverged(_))) => {}
        _ => {
            cnt.add("multi_indeterminate_first_run_stops_within_three_iterations", 1);
            return false;
        }
    }
    let result = match do_fit::<f64>(case, cfg, cfg.max_iter) {
        Err(p) => {
            viols.push(Violation::new("gmm.fit.panic", format!("fit panicked ({}): {}", cfg_txt, p), cj(json!({"phase": "fit"}))));
            return false;
        }
        Ok(r) => r,
    };
    let Some(mut theta) = ref_comps_of(&start) else {
        cnt.add("multi_indeterminate_reference_failed", 1);
        return false;
    };
    let near = |a: f64, b: f64, l: f64| (a - b).abs() <= 1e-11 * (1.0 + l.abs()) + 0.01 * cfg.tol.min(1.0);
    let mut max_lower = f64::NEG_INFINITY;
    let mut best: Option<(Vec<RefComp>, bool, u64)> = None;
    let mut log: Vec<String> = Vec::new();
    for run in 0..cfg.n_runs {
        let mut lower = f64::NEG_INFINITY;
        let mut conv = false;
        let first_iter = if run == 0 { 2 } else { 0 };
        let mut prev = if run == 0 { f64::NAN } else { f64::NEG_INFINITY };
        for j in first_iter..cfg.max_iter {
            let l = mean_loglik(data, &theta);
            let Some(next) = ref_em_step(data, &theta, cfg.reg) else {
                cnt.add("multi_indeterminate_reference_failed", 1);
                return false;
            };
            lower = l;
            theta = next;
            let change = l - prev;
            prev = l;
            if run == 0 && j == 2 {
                continue; // known not to stop here (probe above)
            }
            if change.is_finite() && near(change.abs(), cfg.tol, l) {
                cnt.add("multi_indeterminate_change_within_rounding_of_the_tolerance", 1);
                return false;
            }
            if change.abs() < cfg.tol {
                conv = true;
                break;
            }
        }
        log.push(format!("run {}: lower bound {} converged {}", run + 1, lower, conv));
        if max_lower.is_finite() && near(lower, max_lower, lower) {
            cnt.add("multi_indeterminate_lower_bounds_tied", 1);
            return false;
        }
        if lower > max_lower {
            max_lower = lower;
            best = Some((theta.iter().map(|c| RefComp { lw: c.lw, mu: c.mu.clone(), l: c.l.clone(), logdet: c.logdet, cond: c.cond }).collect(), conv, run + 1));
        }
    }
    let Some((bt, bconv, brun)) = best else {
        cnt.add("multi_indeterminate_reference_failed", 1);
        return false;
    };
    cnt.add("multi_decided", 1);
    if brun < cfg.n_runs {
        cnt.add("multi_decided_best_run_is_not_the_last", 1);
    }
    let at = cj(json!({"phase": "lockstep_multi"}));
    let dist = |m: &GaussianMixtureModel<f64>| -> f64 {
        let mut dv = 0.0f64;
        let mut sc = 1.0f64;
        for (c, r) in bt.iter().enumerate() {
            dv = dv.max((m.weights()[c] - r.lw.exp()).abs());
            for (a, b) in m.means().row(c).iter().zip(&r.mu) {
                dv = dv.max((a - b).abs());
                sc = sc.max(b.abs());
            }
        }
        dv / sc
    };
    match (&result, bconv) {
        (Ok(m), true) => {
            cnt.add("multi_decided_ok", 1);
            let dv = dist(m);
            if !(dv <= 1e-6) {
                viols.push(Violation::new("gmm.fit.multi_run.ok_model_is_not_the_best_run", format!("{}: reference runs [{}]: run {} has the best lower bound and converged, but the published model differs from its final state by {:e} relative (weights {:?})", cfg_txt, log.join("; "), brun, dv, m.weights().to_vec()), at));
            }
        }
        (Err(GmmError::NotConverged(_)), false) => cnt.add("multi_decided_not_converged", 1),
        (Ok(m), false) => viols.push(Violation::new(
            "gmm.fit.multi_run.ok_although_the_best_run_did_not_converge",
            format!("{}: reference runs [{}]: run {} has the best lower bound and exhausted its {} iterations, so the fit must be Err(NotConverged); it returned Ok with weights {:?} ({:e} relative from that run's final state)", cfg_txt, log.join("; "), brun, cfg.max_iter, m.weights().to_vec(), dist(m)),
            at,
        )),
        (Err(e), true) => viols.push(Violation::new("gmm.fit.multi_run.err_although_the_best_run_converged", format!("{}: reference runs [{}]: run {} has the best lower bound and converged, but fit returned Err({})", cfg_txt, log.join("; "), brun, e), at)),
        (Err(_), false) => cnt.add("multi_indeterminate_other_error", 1),
    }
    true
}

fn run_lockstep(case: &Case, cfg: &Cfg, cnt: &mut Cnt, viols: &mut Vec<Violation>) -> bool {
    if cfg.n_runs > 1 {
        return run_lockstep_multi(case, cfg, cnt, viols);
    }
    let cj = |at: Value| single_case_json(case, cfg, at);
    let cfg_txt = cfg_text(case, cfg);
    cnt.add("fits", 1);
    let data = &case.data;
    // the subject's own state after exactly two EM iterations
    let start = match do_fit::<f64>(case, &Cfg { tol: 1e300, ..cfg.clone() }, cfg.max_iter) {
        Ok(Ok(m)) => m,
        _ => {
            cnt.add("indeterminate_no_two_iteration_state", 1);
            return false;
        }
    };
    match do_fit::<f64>(case, cfg, 3) {
        Ok(Ok(_)) => {
            cnt.add("indeterminate_stopped_within_the_first_three_iterations", 1);
            return false;
        }
        Ok(Err(GmmError::NotConverged(_))) => {}
        _ => {
            cnt.add("indeterminate_error_within_the_first_three_iterations", 1);
            return false;
        }
    }
    let result = match do_fit::<f64>(case, cfg, cfg.max_iter) {
        Err(p) => {
            viols.push(Violation::new("gmm.fit.panic", format!("fit panicked ({}): {}", cfg_txt, p), cj(json!({"phase": "fit"}))));
            return false;
        }
        Ok(r) => r,
    };
    // reference trajectory: theta[j] are the parameters at the start of iteration j, l[j] their mean log-likelihood
    let Some(mut theta) = ref_comps_of(&start) else {
        cnt.add("indeterminate_reference_failed", 1);
        return false;
    };
    let mut l_prev = f64::NAN; // L_1 is not observable
    let mut expected: Option<(u64, Vec<RefComp>, f64)> = None; // (iteration, parameters after its M-step, change)
    let mut changes: Vec<f64> = Vec::new();
    for j in 2..cfg.max_iter {
        let l_j = mean_loglik(data, &theta);
        let Some(next) = ref_em_step(data, &theta, cfg.reg) else {
            cnt.add("indeterminate_reference_failed", 1);
            return false;
        };
        if j >= 3 {
            let change = l_j - l_prev;
            changes.push(change);
            if (change.abs() - cfg.tol).abs() <= 1e-11 * (1.0 + l_j.abs()) + 0.01 * cfg.tol {
                cnt.add("indeterminate_change_within_rounding_of_the_tolerance", 1);
                return false;
            }
            if change.abs() < cfg.tol {
                expected = Some((j, next, change));
                break;
            }
        }
        l_prev = l_j;
        theta = next;
    }
    let at = cj(json!({"phase": "lockstep"}));
    let dist = |m: &GaussianMixtureModel<f64>, th: &[RefComp]| -> f64 {
        let mut dv = 0.0f64;
        let mut sc = 1.0f64;
        for (c, r) in th.iter().enumerate() {
            dv = dv.max((m.weights()[c] - r.lw.exp()).abs());
            for (a, b) in m.means().row(c).iter().zip(&r.mu) {
                dv = dv.max((a - b).abs());
                sc = sc.max(b.abs());
            }
        }
        dv / sc
    };
    cnt.add("decided", 1);
    match (&result, &expected) {
        (Ok(m), Some((j, th, change))) => {
            cnt.add("decided_converged", 1);
            let dv = dist(m, th);
            if !(dv <= 1e-6) {
                // which iteration of the reference trajectory does the published model belong to?
                let mut th2 = ref_comps_of(&start).unwrap();
                let mut found: Option<(u64, f64)> = None;
                let mut lp = f64::NAN;
                for jj in 2..cfg.max_iter {
                    let lj = mean_loglik(data, &th2);
                    let Some(nx) = ref_em_step(data, &th2, cfg.reg) else { break };
                    if dist(m, &nx) <= 1e-6 {
                        found = Some((jj, lj - lp));
                        break;
                    }
                    lp = lj;
                    th2 = nx;
                }
                let (sig, extra) = match found {
                    Some((jj, ch)) => ("gmm.fit.stopped_at_an_iteration_whose_change_is_not_below_the_tolerance", format!("it is the reference state of iteration {} whose lower-bound change is {:e}", jj, ch)),
                    None => ("gmm.fit.ok_model_is_not_the_reference_em_state_at_convergence", "it matches no reference iterate".to_string()),
                };
                viols.push(Violation::new(
                    sig,
                    format!(
                        "{}: the reference EM (started from the subject's state after 2 iterations) first meets |change| < {:e} at iteration {} (change {:e}); the published model differs from that state by {:e} relative: {}; weights {:?} vs reference {:?}",
                        cfg_txt, cfg.tol, j, change, dv, extra, m.weights().to_vec(), th.iter().map(|c| c.lw.exp()).collect::<Vec<_>>()
                    ),
                    at,
                ));
            }
        }
        (Err(GmmError::NotConverged(_)), None) => cnt.add("decided_not_converged", 1),
        (Ok(m), None) => viols.push(Violation::new(
            "gmm.fit.ok_although_no_iteration_meets_the_tolerance",
            format!("{}: the reference EM never has |change| < {:e} within {} iterations (changes from iteration 3: {:?} ...), yet fit returned Ok with weights {:?}", cfg_txt, cfg.tol, cfg.max_iter, &changes[..changes.len().min(6)], m.weights().to_vec()),
            at,
        )),
        (Err(e), Some((j, _, change))) => viols.push(Violation::new(
            "gmm.fit.err_although_reference_em_converges",
            format!("{}: the reference EM meets |change| < {:e} at iteration {} (change {:e}) but fit returned Err({})", cfg_txt, cfg.tol, j, change, e),
            at,
        )),
        (Err(_), None) => cnt.add("indeterminate_other_error", 1),
    }
    true
}

// ------------------------------------------------------------------------------------------
// calling forms of predict (routes through the blanket impls of the core crate)
// ------------------------------------------------------------------------------------------

/// Every calling form of `predict` on the same batch; each label must be one of maximal probability
/// in the corresponding `predict_proba` row (the statement), for the full query batch, a one-row and a
/// two-row batch.
fn run_forms(case: &Case, cfg: &Cfg, cnt: &mut Cnt, viols: &mut Vec<Violation>) -> bool {
    let cj = |at: Value| single_case_json(case, cfg, at);
    let cfg_txt = cfg_text(case, cfg);
    let (n, d) = (case.data.len(), case.data[0].len());
    let k = case.n_clusters;
    cnt.add("fits", 1);
    let model = match do_fit::<f64>(case, cfg, cfg.max_iter) {
        Err(p) => {
            viols.push(Violation::new("gmm.fit.panic", format!("fit panicked ({}): {}", cfg_txt, p), cj(json!({"phase": "fit"}))));
            return false;
        }
        Ok(Err(e)) => {
            cnt.add(&format!("fit_err.{}", error_kind(&e)), 1);
            return false;
        }
        Ok(Ok(m)) => m,
    };
    cnt.add("fits_ok", 1);
    // a second, different mixture for the two-member MultiTargetModel
    let mut case2 = case.clone();
    case2.n_clusters = k % 3 + 1;
    let cfg2 = Cfg { seed: cfg.seed + 7, ..cfg.clone() };
    let model2 = match do_fit::<f64>(&case2, &cfg2, cfg.max_iter) {
        Ok(Ok(m)) => Some(m),
        _ => None,
    };
    let mu = model.means();
    let cov = model.covariances();
    let mut qs: Vec<Vec<f64>> = case.data.clone();
    for c in 0..k {
        qs.push(mu.row(c).to_vec());
        for s in [10.0, 39.0] {
            for (_, u) in dirs(d) {
                qs.push((0..d).map(|j| mu[(c, j)] + s * cov[(c, j, j)].abs().sqrt() * u[j]).collect());
            }
        }
    }
    let full = Array2::from_shape_fn((qs.len(), d), |(i, j)| qs[i][j]);
    let batches: Vec<(&str, Array2<f64>)> = vec![
        ("full", full.clone()),
        ("one_row", full.slice(s![n / 2..n / 2 + 1, ..]).to_owned()),
        ("two_rows", ndarray::stack![ndarray::Axis(0), full.row(0), full.row(n - 1)]),
    ];
    for (bname, b) in &batches {
        let nb = b.nrows();
        let proba = match guarded(|| model.predict_proba(b)) {
            Ok(p) => p,
            Err(p) => {
                viols.push(Violation::new("gmm.predict_proba.panic", format!("{}: predict_proba on the {} batch panicked: {}", cfg_txt, bname, p), cj(json!({"phase": "forms", "batch": bname}))));
                continue;
            }
        };
        let proba2 = model2.as_ref().map(|m| m.predict_proba(b));
        let mut check = |form: &str, labels: Result<Vec<usize>, String>, pr: &Array2<f64>, viols: &mut Vec<Violation>, cnt: &mut Cnt| {
            cnt.add("form_calls", 1);
            let at = cj(json!({"phase": "forms", "batch": bname, "form": form}));
            let labels = match labels {
                Ok(l) => l,
                Err(p) => {
                    viols.push(Violation::new(format!("gmm.predict.form_{}.panic", form), format!("{}: {} batch ({} rows): panicked: {}", cfg_txt, bname, nb, p), at));
                    return;
                }
            };
            if labels.len() != nb {
                viols.push(Violation::new(format!("gmm.predict.form_{}.wrong_length", form), format!("{}: {} batch: {} labels for {} rows", cfg_txt, bname, labels.len(), nb), at));
                return;
            }
            for i in 0..nb {
                cnt.add("form_labels_checked", 1);
                let row = pr.row(i);
                let rmax = row.iter().cloned().fold(f64::NEG_INFINITY, f64::max);
                let l = labels[i];
                if !(l < row.len() && row[l] >= rmax - 1e-12) {
                    viols.push(Violation::new(
                        format!("gmm.predict.form_{}.not_argmax_of_predict_proba_row", form),
                        format!("{}: {} batch ({} rows), calling form {}: row {} = {:?} is labelled {} but predict_proba gives {:?} (all labels {:?})", cfg_txt, bname, nb, form, i, b.row(i).to_vec(), l, row.to_vec(), &labels[..nb.min(12)]),
                        at,
                    ));
                    return;
                }
            }
        };
        let same_records = |form: &str, r: ArrayView2<f64>, viols: &mut Vec<Violation>| {
            if r != b.view() {
                viols.push(Violation::new(format!("gmm.predict.form_{}.records_changed", form), format!("{}: {} batch: the records of the returned dataset differ from the input", cfg_txt, bname), cj(json!({"phase": "forms", "batch": bname, "form": form}))));
            }
        };
        // &array, owned array, array view
        check("ref_array", guarded(|| model.predict(b).to_vec()), &proba, viols, cnt);
        match guarded(|| model.predict(b.clone())) {
            Ok(ds) => {
                same_records("owned_array", ds.records().view(), viols);
                check("owned_array", Ok(ds.targets().to_vec()), &proba, viols, cnt);
            }
            Err(p) => check("owned_array", Err(p), &proba, viols, cnt),
        }
        match guarded(|| model.predict(b.view())) {
            Ok(ds) => {
                same_records("array_view", ds.records().view(), viols);
                check("array_view", Ok(ds.targets().to_vec()), &proba, viols, cnt);
            }
            Err(p) => check("array_view", Err(p), &proba, viols, cnt),
        }
        // &dataset, owned dataset (without and with previous targets), dataset view, &dataset view
        let ds0 = DatasetBase::from(b.clone());
        check("ref_dataset", guarded(|| model.predict(&ds0).to_vec()), &proba, viols, cnt);
        match guarded(|| model.predict(DatasetBase::from(b.clone()))) {
            Ok(ds) => {
                same_records("owned_dataset", ds.records().view(), viols);
                check("owned_dataset", Ok(ds.targets().to_vec()), &proba, viols, cnt);
            }
            Err(p) => check("owned_dataset", Err(p), &proba, viols, cnt),
        }
        match guarded(|| model.predict(DatasetBase::new(b.clone(), Array1::<usize>::from_elem(nb, 99)))) {
            Ok(ds) => {
                same_records("owned_dataset_with_old_targets", ds.records().view(), viols);
                check("owned_dataset_with_old_targets", Ok(ds.targets().to_vec()), &proba, viols, cnt);
            }
            Err(p) => check("owned_dataset_with_old_targets", Err(p), &proba, viols, cnt),
        }
        match guarded(|| model.predict(DatasetBase::from(b.view()))) {
            Ok(ds) => {
                same_records("dataset_of_view", ds.records().view(), viols);
                check("dataset_of_view", Ok(ds.targets().to_vec()), &proba, viols, cnt);
            }
            Err(p) => check("dataset_of_view", Err(p), &proba, viols, cnt),
        }
        let dsv = DatasetBase::from(b.view());
        check("ref_dataset_of_view", guarded(|| model.predict(&dsv).to_vec()), &proba, viols, cnt);
        // predict_inplace into a poisoned buffer and into a buffer holding the labels of another batch
        check(
            "inplace_poisoned_buffer",
            guarded(|| {
                let mut buf = Array1::from_elem(nb, usize::MAX);
                model.predict_inplace(b, &mut buf);
                buf.to_vec()
            }),
            &proba,
            viols,
            cnt,
        );
        check(
            "inplace_reused_buffer",
            guarded(|| {
                let rev = b.slice(s![..;-1, ..]).to_owned();
                let mut buf = model.predict(&rev);
                model.predict_inplace(b, &mut buf);
                buf.to_vec()
            }),
            &proba,
            viols,
            cnt,
        );
        // MultiTargetModel with exactly one member (both constructors) and with two members
        let one_a: MultiTargetModel<Array2<f64>, usize> = std::iter::once(model.clone()).collect();
        check("multi_target_one_member_from_iter", guarded(|| { let t: Array2<usize> = one_a.predict(b); if t.ncols() == 1 { t.column(0).to_vec() } else { vec![] } }), &proba, viols, cnt);
        let one_b: MultiTargetModel<Array2<f64>, usize> = MultiTargetModel::new(vec![Box::new(model.clone())]);
        check("multi_target_one_member_new", guarded(|| { let t: Array2<usize> = one_b.predict(b); if t.ncols() == 1 { t.column(0).to_vec() } else { vec![] } }), &proba, viols, cnt);
        check(
            "multi_target_one_member_inplace_poisoned",
            guarded(|| {
                let mut t = Array2::from_elem((nb, 1), usize::MAX);
                one_b.predict_inplace(b, &mut t);
                t.column(0).to_vec()
            }),
            &proba,
            viols,
            cnt,
        );
        if let (Some(m2), Some(p2)) = (&model2, &proba2) {
            let two: MultiTargetModel<Array2<f64>, usize> = vec![model.clone(), m2.clone()].into_iter().collect();
            let t = guarded(|| { let t: Array2<usize> = two.predict(b); t });
            match t {
                Ok(t) if t.ncols() == 2 => {
                    check("multi_target_two_members_first", Ok(t.column(0).to_vec()), &proba, viols, cnt);
                    check("multi_target_two_members_second", Ok(t.column(1).to_vec()), p2, viols, cnt);
                }
                Ok(t) => check("multi_target_two_members_first", Ok(vec![0; t.ncols() + nb + 1]), &proba, viols, cnt),
                Err(p) => check("multi_target_two_members_first", Err(p), &proba, viols, cnt),
            }
        }
    }
    true
}

// ------------------------------------------------------------------------------------------
// builder history: the same logical parameter set built in every order of the setters
// ------------------------------------------------------------------------------------------

#[derive(Clone, Copy, PartialEq, Eq, Debug)]
enum Op {
    Rng,
    Tol,
    Reg,
    Runs,
    Iters,
    Init,
}
const OPS: [Op; 6] = [Op::Rng, Op::Tol, Op::Reg, Op::Runs, Op::Iters, Op::Init];

fn init_of(s: &str) -> GmmInitMethod {
    match s {
        "kmeans" => GmmInitMethod::KMeans,
        "random" => GmmInitMethod::Random,
        other => panic!("unknown init {}", other),
    }
}

/// Applies one setter; `decoy` writes a value that a later write of the same field must replace.
fn apply_op(p: GmmParams<f64, Xoshiro256Plus>, op: Op, decoy: bool, case: &Case, cfg: &Cfg) -> GmmParams<f64, Xoshiro256Plus> {
    match (op, decoy) {
        (Op::Rng, false) => p.with_rng(Xoshiro256Plus::seed_from_u64(cfg.seed)),
        (Op::Rng, true) => p.with_rng(Xoshiro256Plus::seed_from_u64(cfg.seed + 1000)),
        (Op::Tol, false) => p.tolerance(cfg.tol),
        (Op::Tol, true) => p.tolerance(0.5),
        (Op::Reg, false) => p.reg_covariance(cfg.reg),
        (Op::Reg, true) => p.reg_covariance(7.0),
        (Op::Runs, false) => p.n_runs(cfg.n_runs),
        (Op::Runs, true) => p.n_runs(9),
        (Op::Iters, false) => p.max_n_iterations(cfg.max_iter),
        (Op::Iters, true) => p.max_n_iterations(1),
        (Op::Init, false) => p.init_method(init_of(&case.init)),
        (Op::Init, true) => p.init_method(if case.init == "kmeans" { GmmInitMethod::Random } else { GmmInitMethod::KMeans }),
    }
}

fn script_text(sc: &[(Op, bool)]) -> String {
    sc.iter().map(|(o, d)| format!("{:?}{}", o, if *d { "(decoy)" } else { "" })).collect::<Vec<_>>().join(" -> ")
}

/// Every order of {with_rng, tolerance, reg_covariance, n_runs, max_n_iterations, init_method} (720) plus,
/// per field, two histories that write a decoy first (last write wins): the values published by the
/// checked parameter set must be the configured ones; for a sub-family of the histories (with_rng at
/// every position, the others ascending / descending; the decoy histories) the fit must be bit-identical
/// to the fit of the canonical history params_with_rng(k, rng).tolerance().reg_covariance()...
fn run_builder(case: &Case, cfg: &Cfg, cnt: &mut Cnt, viols: &mut Vec<Violation>) -> bool {
    let cj = |at: Value| single_case_json(case, cfg, at);
    let cfg_txt = cfg_text(case, cfg);
    let k = case.n_clusters;
    let (n, d) = (case.data.len(), case.data[0].len());
    let rec = Array2::from_shape_fn((n, d), |(i, j)| case.data[i][j]);
    let ds = DatasetBase::from(rec);
    cnt.add("fits", 1);
    let mut scripts: Vec<(Vec<(Op, bool)>, bool)> = Vec::new(); // (history, also fit)
    for perm in lvmc_core::enumerate::permutations(6) {
        let sc: Vec<(Op, bool)> = perm.iter().map(|&i| (OPS[i], false)).collect();
        let others: Vec<usize> = perm.iter().cloned().filter(|&i| i != 0).collect();
        let fit_too = others.windows(2).all(|w| w[0] < w[1]) || others.windows(2).all(|w| w[0] > w[1]);
        scripts.push((sc, fit_too));
    }
    for f in 0..6 {
        let rest: Vec<(Op, bool)> = OPS.iter().filter(|&&o| o != OPS[f] && o != Op::Rng).map(|&o| (o, false)).collect();
        // decoy, with_rng, the others, real value last
        let mut a = vec![(OPS[f], true)];
        if OPS[f] != Op::Rng {
            a.push((Op::Rng, false));
        }
        a.extend(rest.iter().cloned());
        a.push((OPS[f], false));
        scripts.push((a, true));
        // decoy and real value first, then the others, with_rng last
        let mut b = vec![(OPS[f], true), (OPS[f], false)];
        b.extend(rest.iter().cloned());
        if OPS[f] != Op::Rng {
            b.push((Op::Rng, false));
        }
        scripts.push((b, true));
    }
    let canonical = guarded(|| {
        GaussianMixtureModel::<f64>::params_with_rng(k, Xoshiro256Plus::seed_from_u64(cfg.seed))
            .tolerance(cfg.tol)
            .reg_covariance(cfg.reg)
            .n_runs(cfg.n_runs)
            .max_n_iterations(cfg.max_iter)
            .init_method(init_of(&case.init))
            .fit(&ds)
    });
    let canonical = match canonical {
        Ok(r) => r,
        Err(p) => {
            viols.push(Violation::new("gmm.fit.panic", format!("fit panicked ({}): {}", cfg_txt, p), cj(json!({"phase": "fit"}))));
            return false;
        }
    };
    match &canonical {
        Ok(_) => cnt.add("fits_ok", 1),
        Err(e) => cnt.add(&format!("fit_err.{}", error_kind(e)), 1),
    }
    let want_rng = Xoshiro256Plus::seed_from_u64(cfg.seed).next_u64();
    let mut reported_getter = false;
    let mut reported_fit = false;
    for (sc, fit_too) in &scripts {
        cnt.add("histories", 1);
        let mut p = GaussianMixtureModel::<f64>::params(k);
        for &(op, decoy) in sc {
            p = apply_op(p, op, decoy, case, cfg);
        }
        let at = cj(json!({"phase": "builder", "history": script_text(sc)}));
        match p.check_ref() {
            Err(e) => {
                if !reported_getter {
                    reported_getter = true;
                    viols.push(Violation::new("gmm.params.builder_order_dependence", format!("{}: history {} is rejected by check(): {}", cfg_txt, script_text(sc), e), at.clone()));
                }
            }
            Ok(c) => {
                let got = format!(
                    "n_clusters {} tolerance {:e} reg_covar {:e} n_runs {} max_n_iterations {} init {:?} rng {}",
                    c.n_clusters(), c.tolerance(), c.reg_covariance(), c.n_runs(), c.max_n_iterations(), c.init_method(), c.rng().next_u64()
                );
                let want = format!(
                    "n_clusters {} tolerance {:e} reg_covar {:e} n_runs {} max_n_iterations {} init {:?} rng {}",
                    k, cfg.tol, cfg.reg, cfg.n_runs, cfg.max_iter, init_of(&case.init), want_rng
                );
                if got != want && !reported_getter {
                    reported_getter = true;
                    viols.push(Violation::new(
                        "gmm.params.builder_order_dependence",
                        format!("{}: after the history {} the checked parameters publish [{}] instead of the configured [{}]", cfg_txt, script_text(sc), got, want),
                        at.clone(),
                    ));
                }
            }
        }
        if !*fit_too {
            continue;
        }
        cnt.add("history_fits", 1);
        let r = guarded(|| p.fit(&ds));
        let differs = match (&canonical, &r) {
            (_, Err(pn)) => Some(format!("panicked: {}", pn)),
            (Ok(m0), Ok(Ok(m1))) => if m0 == m1 { None } else { Some(format!("gives another model (weights {:?} vs canonical {:?})", m1.weights().to_vec(), m0.weights().to_vec())) },
            (Err(e0), Ok(Err(e1))) => if error_kind(e0) == error_kind(e1) { None } else { Some(format!("gives Err({}) vs canonical Err({})", e1, e0)) },
            (Ok(_), Ok(Err(e1))) => Some(format!("gives Err({}) while the canonical history gives a model", e1)),
            (Err(e0), Ok(Ok(_))) => Some(format!("gives a model while the canonical history gives Err({})", e0)),
        };
        if let Some(what) = differs {
            if !reported_fit {
                reported_fit = true;
                viols.push(Violation::new("gmm.params.builder_order_dependence", format!("{}: the fit of the parameter set built by the history {} {}", cfg_txt, script_text(sc), what), at));
            }
        }
    }
    true
}

const LAYOUTS: [&str; 5] = ["f_order_owned", "transposed_view_of_feature_major", "reversed_rows_view_of_reversed_copy", "reversed_feature_axis_view_of_reversed_copy", "every_second_row_view_nan_filler"];

/// Calls `f` with the logical matrix `m` stored in the named memory layout.
fn with_layout<F: Float, R>(m: &Array2<F>, lay: &str, f: &mut dyn FnMut(ndarray::ArrayView2<F>) -> R) -> R {
    let (n, d) = m.dim();
    match lay {
        "transposed_view_of_feature_major" => {
            let t = Array2::from_shape_fn((d, n), |(j, i)| m[(i, j)]);
            f(t.t())
        }
        "reversed_rows_view_of_reversed_copy" => {
            let r = Array2::from_shape_fn((n, d), |(i, j)| m[(n - 1 - i, j)]);
            f(r.slice(s![..;-1, ..]))
        }
        "reversed_feature_axis_view_of_reversed_copy" => {
            // every row is 'contiguous' in memory order but runs backwards
            let r = Array2::from_shape_fn((n, d), |(i, j)| m[(i, d - 1 - j)]);
            f(r.slice(s![.., ..;-1]))
        }
        "every_second_row_view_nan_filler" => {
            let big = Array2::from_shape_fn((2 * n, d), |(i, j)| if i % 2 == 0 { m[(i / 2, j)] } else { F::nan() });
            f(big.slice(s![..;2, ..]))
        }
        other => panic!("unknown layout {}", other),
    }
}

fn f_order<F: Float>(m: &Array2<F>) -> Array2<F> {
    let mut a = Array2::zeros(m.dim().f());
    a.assign(m);
    a
}

fn model_params<F: Float>(m: &GaussianMixtureModel<F>) -> Vec<f64> {
    m.weights().iter().chain(m.means().iter()).chain(m.covariances().iter()).chain(m.precisions().iter()).map(|&v| f64_of(v)).collect()
}

/// The records given to fit and the observations given to predict / predict_proba in five memory
/// layouts of the same logical matrix: results must not depend on the layout.
fn run_layout<F: Float>(case: &Case, cfg: &Cfg, t: &Tols, cnt: &mut Cnt, viols: &mut Vec<Violation>) -> bool {
    let n = case.data.len();
    let d = case.data[0].len();
    let k = case.n_clusters;
    let cj = |at: Value| single_case_json(case, cfg, at);
    let cfg_txt = cfg_text(case, cfg);
    let eps = if case.float == "f32" { f32::EPSILON as f64 } else { f64::EPSILON };
    cnt.add("fits", 1);
    let rec: Array2<F> = Array2::from_shape_fn((n, d), |(i, j)| F::cast(case.data[i][j]));
    let base = match fit_records(case, cfg, cfg.max_iter, rec.clone()) {
        Err(p) => {
            viols.push(Violation::new("gmm.fit.panic", format!("fit panicked ({}): {}", cfg_txt, p), cj(json!({"phase": "fit"}))));
            return false;
        }
        Ok(r) => r,
    };
    // ---- fit in every layout
    for lay in LAYOUTS {
        cnt.add("layout_fits", 1);
        let r = if lay == "f_order_owned" { fit_records(case, cfg, cfg.max_iter, f_order(&rec)) } else { with_layout(&rec, lay, &mut |v| fit_records(case, cfg, cfg.max_iter, v)) };
        let at = cj(json!({"phase": "layout_fit", "layout": lay}));
        match (&base, r) {
            (_, Err(p)) => viols.push(Violation::new("gmm.fit.panic", format!("{}: fit on records in layout {} panicked: {}", cfg_txt, lay, p), at)),
            (Err(e0), Ok(Err(e1))) => {
                if error_kind(e0) != error_kind(&e1) {
                    viols.push(Violation::new("gmm.fit.layout_dependence", format!("{}: standard layout gives Err({}), layout {} gives Err({})", cfg_txt, e0, lay, e1), at));
                }
            }
            (Err(e0), Ok(Ok(_))) => viols.push(Violation::new("gmm.fit.layout_dependence", format!("{}: standard layout gives Err({}), layout {} gives a model", cfg_txt, e0, lay), at)),
            (Ok(_), Ok(Err(e1))) => viols.push(Violation::new("gmm.fit.layout_dependence", format!("{}: standard layout gives a model, layout {} gives Err({})", cfg_txt, lay, e1), at)),
            (Ok(m0), Ok(Ok(m1))) => {
                let (p0, p1) = (model_params(m0), model_params(&m1));
                if p0 == p1 {
                    cnt.add("layout_fits_bit_identical", 1);
                }
                // same data, same seed: only the rounding order may differ (amplified by the EM iterations)
                let scale = p0.iter().fold(1.0f64, |s, v| s.max(v.abs()));
                let dev = p0.iter().zip(&p1).fold(0.0f64, |s, (a, b)| s.max((a - b).abs()));
                cnt.max("max_log10_layout_fit_deviation_x100_plus_2000", if dev > 0.0 { ((dev / scale).log10() * 100.0 + 2000.0).max(0.0) as u64 } else { 0 });
                if p0.len() != p1.len() || !(dev <= 1e6 * eps * scale) {
                    viols.push(Violation::new(
                        "gmm.fit.layout_dependence",
                        format!("{}: the model fitted on records in layout {} differs from the standard-layout model by {:e} (largest parameter {:e}): weights {:?} vs {:?}", cfg_txt, lay, dev, scale, m1.weights().to_vec().iter().map(|&v| f64_of(v)).collect::<Vec<_>>(), m0.weights().to_vec().iter().map(|&v| f64_of(v)).collect::<Vec<_>>()),
                        at,
                    ));
                }
            }
        }
    }
    let model = match base {
        Ok(m) => m,
        Err(e) => {
            cnt.add(&format!("fit_err.{}", error_kind(&e)), 1);
            return false;
        }
    };
    cnt.add("fits_ok", 1);
    // ---- predict / predict_proba in every layout: training rows, means, points 10 / 39 / 100 sd out
    let w: Vec<f64> = model.weights().iter().map(|&v| f64_of(v)).collect();
    let mu: Mat = model.means().rows().into_iter().map(|r| r.iter().map(|&v| f64_of(v)).collect()).collect();
    let cov: Vec<Mat> = model.covariances().outer_iter().map(|m| m.rows().into_iter().map(|r| r.iter().map(|&v| f64_of(v)).collect()).collect()).collect();
    let mut qs: Vec<Vec<f64>> = case.data.clone();
    qs.extend(mu.iter().cloned());
    for c in 0..k {
        for s in [10.0, 39.0, 100.0] {
            for (_, u) in dirs(d) {
                qs.push((0..d).map(|j| mu[c][j] + s * cov[c][j][j].abs().sqrt() * u[j]).collect());
            }
        }
    }
    let nq = qs.len();
    let qarr: Array2<F> = Array2::from_shape_fn((nq, d), |(i, j)| F::cast(qs[i][j]));
    let q64: Mat = (0..nq).map(|i| (0..d).map(|j| f64_of(qarr[(i, j)])).collect()).collect();
    let (p0, l0) = match guarded(|| (model.predict_proba(&qarr), model.predict(&qarr))) {
        Ok(x) => x,
        Err(p) => {
            viols.push(Violation::new("gmm.predict.panic", format!("{}: predict / predict_proba on {} standard-layout queries panicked: {}", cfg_txt, nq, p), cj(json!({"phase": "query_batch"}))));
            return true;
        }
    };
    // bound on the effect of a different summation order: relative d * eps on every squared Mahalanobis distance
    let pinv: Vec<Option<Mat>> = cov.iter().map(|s| refmath::inverse(s)).collect();
    let tol_of = |x: &[f64]| -> Option<f64> {
        let mut worst = 0.0f64;
        for c in 0..k {
            let p = pinv[c].as_ref()?;
            let diff: Vec<f64> = (0..d).map(|j| x[j] - mu[c][j]).collect();
            let maha = refmath::dot(&diff, &refmath::matvec(p, &diff)).abs();
            worst = worst.max(maha + w[c].ln().abs() + 50.0);
        }
        Some(16.0 * eps * (d * k) as f64 * worst + 4.0 * eps)
    };
    for lay in LAYOUTS {
        cnt.add("layout_query_batches", 1);
        let r = if lay == "f_order_owned" {
            let a = f_order(&qarr);
            guarded(|| (model.predict_proba(&a), model.predict(&a)))
        } else {
            with_layout(&qarr, lay, &mut |v| guarded(|| (model.predict_proba(&v), model.predict(&v))))
        };
        let (p1, l1) = match r {
            Ok(x) => x,
            Err(p) => {
                viols.push(Violation::new("gmm.predict.panic", format!("{}: predict / predict_proba on queries in layout {} panicked: {}", cfg_txt, lay, p), cj(json!({"phase": "layout_query", "layout": lay}))));
                continue;
            }
        };
        if p1.dim() != p0.dim() || l1.len() != l0.len() {
            viols.push(Violation::new("gmm.predict_proba.layout_dependence", format!("{}: layout {}: shapes {:?} / {} instead of {:?} / {}", cfg_txt, lay, p1.dim(), l1.len(), p0.dim(), l0.len()), cj(json!({"phase": "layout_query", "layout": lay}))));
            continue;
        }
        if p1 == p0 && l1 == l0 {
            cnt.add("layout_query_batches_bit_identical", 1);
        }
        let mut bad_p: Option<(usize, String)> = None;
        let mut bad_l: Option<(usize, String)> = None;
        for i in 0..nq {
            cnt.add("layout_queries", 1);
            let a: Vec<f64> = p0.row(i).iter().map(|&v| f64_of(v)).collect();
            let b: Vec<f64> = p1.row(i).iter().map(|&v| f64_of(v)).collect();
            let same_bits = a.iter().zip(&b).all(|(x, y)| x == y || (x.is_nan() && y.is_nan()));
            if !same_bits {
                match tol_of(&q64[i]) {
                    None => cnt.add("layout_queries_indeterminate_singular_covariance", 1),
                    Some(tol) => {
                        let dev = a.iter().zip(&b).fold(0.0f64, |s, (x, y)| s.max((x - y).abs()));
                        if !(dev <= tol) && bad_p.is_none() {
                            bad_p = Some((i, format!("query {:?}: predict_proba {:?} in layout {} but {:?} in standard layout (|diff| {:e} > {:e})", q64[i], b, lay, a, dev, tol)));
                        }
                    }
                }
            }
            if l0[i] != l1[i] {
                // a different label is admissible only between components tied within the rounding bound
                let tol = tol_of(&q64[i]).unwrap_or(f64::INFINITY);
                let gap = (a[l0[i].min(k - 1)] - a[l1[i].min(k - 1)]).abs();
                if gap <= tol {
                    cnt.add("layout_labels_indeterminate_tie", 1);
                } else if bad_l.is_none() {
                    bad_l = Some((i, format!("query {:?}: predict = {} in layout {} but {} in standard layout (predict_proba row {:?})", q64[i], l1[i], lay, l0[i], a)));
                }
            }
        }
        if let Some((i, what)) = bad_p {
            viols.push(Violation::new("gmm.predict_proba.layout_dependence", format!("{}: {}", cfg_txt, what), cj(json!({"phase": "layout_query", "layout": lay, "query_index": i}))));
        }
        if let Some((i, what)) = bad_l {
            viols.push(Violation::new("gmm.predict.layout_dependence", format!("{}: {}", cfg_txt, what), cj(json!({"phase": "layout_query", "layout": lay, "query_index": i}))));
        }
    }
    true
}

/// Outcome-kind oracle for "failure to converge is reported as an error" without a reference EM.
/// (1) With max_n_iterations = 1 no run can converge (the first lower-bound change is measured
/// against -inf), so fit must return Err. (2) EM is deterministic for a fixed seed and the rng is only
/// consumed by the initialisation; with n_runs = 1 an Ok at budget m means the tolerance was met at an
/// iteration < m, so the fit with budget m + 10 walks the same iterations, stops at the same one and must
/// return the bit-identical model.
fn run_ladder(case: &Case, cfg: &Cfg, cnt: &mut Cnt, viols: &mut Vec<Violation>) -> bool {
    let cj = |at: Value| single_case_json(case, cfg, at);
    let cfg_txt = cfg_text(case, cfg);
    cnt.add("fits", 1);
    let m1 = match do_fit::<f64>(case, cfg, cfg.max_iter) {
        Err(p) => {
            viols.push(Violation::new("gmm.fit.panic", format!("fit panicked ({}): {}", cfg_txt, p), cj(json!({"phase": "fit"}))));
            return false;
        }
        Ok(Err(e)) => {
            cnt.add(&format!("err_at_budget_{}.{}", cfg.max_iter, error_kind(&e)), 1);
            return cfg.max_iter == 1;
        }
        Ok(Ok(m)) => m,
    };
    cnt.add(&format!("ok_at_budget_{}", cfg.max_iter), 1);
    if cfg.max_iter == 1 {
        viols.push(Violation::new(
            "gmm.fit.ok_with_single_iteration",
            format!("{}: fit returned Ok although a single EM iteration can never meet the tolerance (its lower-bound change is measured against -inf): means {:?}", cfg_txt, m1.means()),
            cj(json!({"phase": "ladder", "check": "single_iteration"})),
        ));
        return true;
    }
    if cfg.n_runs != 1 {
        return false;
    }
    cnt.add("budget_pairs_checked", 1);
    let bigger = cfg.max_iter + 10;
    match do_fit::<f64>(case, cfg, bigger) {
        Err(p) => viols.push(Violation::new("gmm.fit.panic", format!("fit with max_iter {} panicked ({}): {}", bigger, cfg_txt, p), cj(json!({"phase": "ladder"})))),
        Ok(Err(e)) => viols.push(Violation::new(
            "gmm.fit.ok_with_exhausted_budget.error_with_larger_budget",
            format!("{}: Ok with max_n_iterations = {} (so the tolerance was met within the budget) but with {} the same fit is Err({})", cfg_txt, cfg.max_iter, bigger, e),
            cj(json!({"phase": "ladder", "check": "larger_budget", "larger_budget": bigger})),
        )),
        Ok(Ok(m2)) => {
            if m1 != m2 {
                let dm = m1.means().iter().zip(m2.means().iter()).fold(0.0f64, |s, (a, b)| s.max((a - b).abs()));
                viols.push(Violation::new(
                    "gmm.fit.ok_with_exhausted_budget.model_changes_with_larger_budget",
                    format!(
                        "{}: Ok with max_n_iterations = {} means the tolerance was met within the budget, so {} iterations must give the bit-identical model; the means differ by up to {:e} (weights {:?} vs {:?}): the first fit ran out of iterations and was returned as converged",
                        cfg_txt, cfg.max_iter, bigger, dm, m1.weights().to_vec(), m2.weights().to_vec()
                    ),
                    cj(json!({"phase": "ladder", "check": "larger_budget", "larger_budget": bigger})),
                ));
            }
        }
    }
    true
}

fn run_case(case: &Case, viols: &mut Vec<Violation>) -> (Cnt, u64, u64) {
    let mut cnt = Cnt::default();
    let mut evals = 0u64;
    let mut nontrivial = 0u64;
    for cfg in case.configs() {
        let nt = match (case.kind.as_str(), case.float.as_str()) {
            ("ladder", _) => run_ladder(case, &cfg, &mut cnt, viols),
            ("builder", _) => run_builder(case, &cfg, &mut cnt, viols),
            ("forms", _) => run_forms(case, &cfg, &mut cnt, viols),
            ("lockstep", _) => run_lockstep(case, &cfg, &mut cnt, viols),
            ("layout", "f32") => run_layout::<f32>(case, &cfg, &TOLS_F32, &mut cnt, viols),
            ("layout", _) => run_layout::<f64>(case, &cfg, &TOLS_F64, &mut cnt, viols),
            (_, "f32") => run_fit::<f32>(case, &cfg, &TOLS_F32, &mut cnt, viols) && case.n_clusters >= 2,
            _ => run_fit::<f64>(case, &cfg, &TOLS_F64, &mut cnt, viols) && case.n_clusters >= 2,
        };
        evals += 1;
        if nt {
            nontrivial += 1;
        }
    }
    // statistics of the f32 sweep and of the budget ladder are kept apart
    let pfx = if case.kind == "ladder" {
        "ladder."
    } else if case.kind == "layout" {
        "layout."
    } else if case.kind == "builder" {
        "builder."
    } else if case.kind == "forms" {
        "forms."
    } else if case.kind == "lockstep" {
        "lockstep."
    } else if case.float == "f32" {
        "f32."
    } else {
        ""
    };
    let mut out = Cnt::default();
    for (k, v) in &cnt.0 {
        out.0.insert(format!("{}{}", pfx, k), *v);
    }
    (out, evals, nontrivial)
}

fn replay_value(v: &Value) -> Vec<Violation> {
    let c: Case = match serde_json::from_value(v.clone()) {
        Ok(c) => c,
        Err(e) => {
            println!("MACHINERY-ERROR replay case does not parse: {}", e);
            std::process::exit(2);
        }
    };
    let mut out = Vec::new();
    run_case(&c, &mut out);
    // the artefact names the check (model phase) or nothing else: all violations of this one fit
    // are shown; `finish` only requires the recorded signature to be among them
    out
}

fn main() {
    let ctx = Ctx::new("C10", Level::Exploration);
    ctx.maybe_replay(&replay_value);
    ctx.set_rule(
        "case group = (catalogue dataset, component count 1..3 (1..4 for the duplicates family), initialiser KMeans|Random, rng seed 0..3 (quick) / 0..15 (thorough)); inside a group the full grid reg_covar {1e-6,1e-3,0.1} (+ 0 for the degenerate family; thorough: everywhere) x tolerance {1e-3,1e-5} x n_runs {1,3} x max_n_iterations {100, 5} is walked; \
         the catalogue = families {separated, overlapping, anisotropic (axis scales 0.2..3, rotated), far (blobs 1000 apart), degenerate (one constant coordinate / duplicated rows)} x features 1..3 (quick) / 1..6 (thorough) x {2,3} blobs x {10 rows each, 25/15/20 rows}, \
         plus the family duplicates = {20, 60} rows that are copies of only 1..3 distinct points inside the box [5,9]x[3,7]x[4,8] (origin outside), features 1..2 (quick) / 1..3 (thorough), fitted with 1..4 components (more components than distinct points empties a component) and reg_covar {0,1e-9,1e-6,1e-3,0.1}; every member is run; \
         per successful fit the query menu = every training row, every component mean, and mean_k + t u for every component k, every u in {+-e_j} and {(+-1,..,+-1)/sqrt(d)}, t such that the Mahalanobis distance to component k is exactly s, s in {10,30,35,38,39,100,1e3,1e6} (f32: {10,12,14,16,20,25,30,38,39,100,1e3,1e6}, covering the f32 exp underflow band). \
         f32 sweep: GaussianMixtureModel<f32> on the separated / overlapping members with <= 2 features, components 1..3, both initialisers, seeds 0..3 / 0..7, reg_covar {1e-6,1e-3,0.1}, same remaining grid, same oracles with f32 tolerances (reference in f64 from the published f32 parameters and the f32-rounded data / queries). \
         memory layouts: separated / overlapping / anisotropic members with 2..3 (quick) / 2..4 (thorough) features, k 1..3, both initialisers, seeds 0..1 / 0..3, reg_covar {1e-6,1e-3}, f64 and f32: the records given to fit and the observations given to predict / predict_proba (training rows, means, points 10 / 39 / 100 sd out) as column-major owned array, transposed view of a feature-major array, reversed-row view of a reversed copy, every-second-row view of an array whose filler rows are NaN, reversed-feature-axis view of a reversed copy, each compared with the standard-layout run. \
         size thresholds: members replicated to 1025 / 4097 rows (2 quick, 9 thorough incl. 2 in f32), k 2..3, both initialisers, seeds 0..1 / 0..3, reg_covar {1e-6,1e-3}, complete oracle set with every training row as a query. \
         tiny variance: 5 members scaled by 0.05 (within-cluster variance ~2.5e-3, unequal blob sizes 25/15/20), k 2..3, both initialisers, seeds 0..2 / 0..7, reg_covar {1e-2,1e-1}, tolerance {1e-6,1e-9}, n_runs {1,3}, max_n_iterations {100,5}, complete oracle set. \
         lock-step reference EM: the same 5 members scaled by 0.05 (reg_covar {1e-2,1e-1}, tolerance {1e-6,1e-9}) and unscaled (reg_covar {1e-3,0.1}, tolerance {1e-3,1e-5}), k 2..3, both initialisers, seeds 0..2 / 0..7, n_runs 1, max_n_iterations {100,10}: stop iteration and published parameters against a plain-f64 EM. \
         multi-run lock-step: 4 members, k 2..3, both initialisers, seeds 0..2 / 0..7, reg_covar {0.1,0.5}, tolerance {1e-3,1e-5}, n_runs {2,3}, max_n_iterations {3,10}: the reference EM walks all runs (each continues from the previous state), keeps the strictly best lower bound and ITS convergence flag. \
         calling forms: separated / overlapping members (row layout r1) with 1..2 (quick) / 1..6 (thorough) features, k 1..3, both initialisers, seeds 0..1 / 0..3: predict through &array, owned array, array view, &dataset, owned dataset (without / with old targets), dataset of a view, &dataset of a view, predict_inplace into a poisoned and into a reused buffer, MultiTargetModel with one member (FromIterator, new, inplace) and with two members, each on the full query batch, a one-row and a two-row batch, every label compared with the arg-max tie set of the predict_proba row. \
         builder histories: 3 members x k 2..3 x both initialisers x seeds 0..1 / 0..5 x reg_covar {1e-3,0.1} x tolerance {1e-5,1e-2} x n_runs 3 x max_n_iterations {50,7}: the parameter set is built in all 720 orders of {with_rng, tolerance, reg_covariance, n_runs, max_n_iterations, init_method} and in 12 histories that write a decoy value first; the checked parameters must publish the configured values, and for 24 histories (with_rng at every position with the other setters ascending / descending, and the decoy histories) the fit must equal the canonical-order fit bit for bit. \
         budget ladder (outcome kind): separated / overlapping / anisotropic members with <= 2 (quick) / 3 (thorough) features, same k / init / seeds, reg_covar {1e-6,0.1}, tolerance {1e-3,1e-5}, n_runs {1,3}, max_n_iterations m in {1,2,3,5,10}: m = 1 must be Err; with n_runs = 1 an Ok at m must be reproduced bit-identically by m + 10. \
         evaluation = one fit with all its parameter and query oracles; non-trivial = the fit returned a model with >= 2 components (an Err is an accepted outcome and counted per error kind); distinct by construction of the grid.",
    );
    ctx.assume("datasets are built from an LCG with fixed constants (bell-shaped deviates = centred sum of four uniforms), rounded to 6 decimals; VERIF_SEED does not enter; the dataset catalogue is a finite hand-made family, not a sample");
    ctx.assume("weights: each > 0, |sum - 1| <= 1e-9; means inside the data bounding box +- 1e-9 (1 + max|x|); covariances symmetric to 1e-10 relative, positive definite = refmath::cholesky of the symmetrised matrix succeeds, diagonal >= reg_covar (1 - 1e-12)");
    ctx.assume("precisions: max |P S - I| <= 1e-13 * cond(S) + 1e-12 with cond from the Jacobi eigenvalues; components with a bound above 1e-6 are counted indeterminate");
    ctx.assume("'diagonal includes the regularisation' is made exact through the M-step moment identity sum_k w_k (S_k + (mu_k - m)(mu_k - m)^T) - reg I = population covariance of the data and sum_k w_k mu_k = data mean, relative 1e-9 (covariance: + absolute floor (1e-10 (1 + max|x|))^2); holds for ANY responsibilities whose rows sum to one, hence for every accepted EM iterate");
    ctx.assume("predict_proba rows: all finite, all >= 0, |sum - 1| <= 1e-9; predict: index < k and probability >= row maximum - 1e-12 (any member of the tie set)");
    ctx.assume("reference posterior: own Cholesky of the published covariances, weighted log densities, max-shifted log-sum-exp; discrepancy bound per component 1e-13 * cond * (mahalanobis^2 + d) + 1e-13 |log density|; probabilities compared with k * bound + 1e-9 when the bound <= 1e-4 (else indeterminate), only where the largest weighted log density is above ln(f64::MIN_POSITIVE) + 1 + min(bound, 5 % of its value) (the same slack delimits the regimes of the three narrow signatures: all-inf row only below that line, finite row with a wrong sum only between it and -745.2 - slack); predict must lie within 2 * bound + 1e-9 (1 + |max|) of the maximal reference weighted log density (else violation; smaller non-zero gaps indeterminate)");
    ctx.assume("an Err from fit (NotConverged, EmptyCluster, LinalgError, KMeansError, MinMaxError, LowerBoundError) is an accepted outcome; InvalidValue for the valid grid, a panic, or an Ok model with non-finite parameters is a violation");
    ctx.assume("f32 sweep tolerances: rows / weights sum 1e-5 / 5e-5, bounding box and moments 5e-5 relative (moment floor (1e-4 (1 + max|x|))^2), symmetry 1e-5, diagonal >= reg (1 - 1e-5), |P S - I| <= 1e-5 cond + 1e-5 (indeterminate above 1e-2), posterior bound 1e-5 * cond * (mahalanobis^2 + d) + 1e-5 |log density| (compared with k * bound + 1e-5, indeterminate above 1e-2), tie set 1e-6, arg-max margin 2 * bound + 1e-6 (1 + |max|), exp subnormal below -87.34 and 0 below -104; a covariance whose f64 Cholesky fails but whose smallest eigenvalue is above -1e-5 * largest is indeterminate");
    ctx.assume("layouts: fitted parameters must agree with the standard-layout fit within 1e6 * eps of the largest parameter (same data and seed; only the rounding order may differ, amplified by the EM iterations; an Err must stay the same kind of Err); predict_proba rows must agree within 16 eps d k (max squared Mahalanobis distance + |ln w| + 50) + 4 eps (bit-identical rows are counted), predict labels exactly unless the two probabilities are tied within that bound (indeterminate)");
    ctx.assume("datasets of more than 60 rows: the tolerances of the quantities accumulated over the rows (weights sum, bounding box, moment identities) are multiplied by n / 60");
    ctx.assume("builder histories: every setter only writes its own field and with_rng only replaces the generator (last write wins); rng compared through the first u64 of a clone; fits compared with == on every parameter (same data, seed and logical parameters => same arithmetic)");
    ctx.assume("lock-step reference EM (plain f64: max-shifted E-step, M-step with reg_covar on the diagonal), n_runs = 1: started from the subject's own state after two iterations (obtained with tolerance 1e300, for which the loop provably stops at its second iteration); the subject must stop at the first iteration j >= 3 whose reference change |L_j - L_(j-1)| is below the tolerance and publish the reference parameters of that iteration within 1e-6 relative, or return Err(NotConverged) when no iteration of the budget qualifies; runs that stop at j <= 2 (fit with max_n_iterations = 3 is Ok) and changes within 1e-11 (1 + |L|) + 1 % of the tolerance are indeterminate. The one-step statistic 'next EM step moves the log-likelihood by more than 10 tolerances' of the sweeps is reported, not judged");
    ctx.assume("multi-run lock-step: as the single-run lock-step, with the documented rule 'the run with the best lower bound is kept' and Ok exactly when THAT run met the tolerance; the first run must be known not to stop at an iteration <= 2 (single-run fit with budget 3 is NotConverged); changes within rounding of the tolerance and lower bounds tied within 1e-11 (1 + |L|) + 1 % of the tolerance are indeterminate");
    ctx.assume("budget ladder: fit is deterministic for a fixed seed (the rng is consumed only by the initialisation, cloned from the parameters at every call) and with n_runs = 1 an Ok result means the EM loop broke at an iteration < max_n_iterations, so a larger budget is never used: models compared with == on every f64 of weights, means, covariances, precisions; with max_n_iterations = 1 the only lower-bound change is measured against -inf (or is NaN), which is never below a tolerance");

    let members = catalogue(ctx.thorough());
    let seeds: Vec<u64> = (0..ctx.pick(4u64, 16u64)).collect();
    let max_iters: Vec<u64> = vec![100, 5];
    let mut cases: Vec<Case> = Vec::new();
    for m in &members {
        let kmax = if m.family == "duplicates" { 4usize } else { 3 };
        for k in 1..=kmax {
            for init in ["kmeans", "random"] {
                for &seed in &seeds {
                cases.push(Case {
                    dataset: m.id.clone(),
                    family: m.family.to_string(),
                    data: m.data.clone(),
                    n_clusters: k,
                    init: init.to_string(),
                    seeds: vec![seed],
                    // reg_covar = 0 ("non-negative" per the rustdoc) only where it is interesting: rank-deficient
                    // data (quick) / everywhere (thorough)
                    reg_covars: if m.family == "duplicates" {
                        vec![0.0, 1e-9, 1e-6, 1e-3, 0.1]
                    } else if ctx.thorough() || m.family == "degenerate" {
                        vec![0.0, 1e-6, 1e-3, 0.1]
                    } else {
                        vec![1e-6, 1e-3, 0.1]
                    },
                    tolerances: vec![1e-3, 1e-5],
                    n_runs: vec![1, 3],
                    max_iters: max_iters.clone(),
                    kind: "sweep".to_string(),
                    float: "f64".to_string(),
                });
                }
            }
        }
    }
    // f32 sweep and budget ladder on sub-catalogues (every listed member is run)
    let low_dim = |m: &Member, dmax: usize| m.data[0].len() <= dmax;
    let sub_seeds: Vec<u64> = (0..ctx.pick(4u64, 8u64)).collect();
    let mut f32_members = 0usize;
    let mut ladder_members = 0usize;
    for m in &members {
        let is_f32 = (m.family == "separated" || m.family == "overlapping") && low_dim(m, 2);
        let is_ladder = (m.family == "separated" || m.family == "overlapping" || m.family == "anisotropic") && low_dim(m, ctx.pick(2, 3));
        f32_members += is_f32 as usize;
        ladder_members += is_ladder as usize;
        for k in 1..=3usize {
            for init in ["kmeans", "random"] {
                for &seed in &sub_seeds {
                    let base = Case {
                        dataset: m.id.clone(),
                        family: m.family.to_string(),
                        data: m.data.clone(),
                        n_clusters: k,
                        init: init.to_string(),
                        seeds: vec![seed],
                        reg_covars: vec![1e-6, 1e-3, 0.1],
                        tolerances: vec![1e-3, 1e-5],
                        n_runs: vec![1, 3],
                        max_iters: max_iters.clone(),
                        kind: "sweep".to_string(),
                        float: "f32".to_string(),
                    };
                    if is_f32 {
                        cases.push(base.clone());
                    }
                    if is_ladder {
                        cases.push(Case { reg_covars: vec![1e-6, 0.1], max_iters: LADDER.to_vec(), kind: "ladder".to_string(), float: "f64".to_string(), ..base });
                    }
                }
            }
        }
    }
    // memory layouts of the records (fit) and of the observations (predict / predict_proba)
    let mut layout_members = 0usize;
    for m in &members {
        let dm = m.data[0].len();
        if !((m.family == "separated" || m.family == "overlapping" || m.family == "anisotropic") && (2..=ctx.pick(3, 4)).contains(&dm)) {
            continue;
        }
        layout_members += 1;
        for k in 1..=3usize {
            for init in ["kmeans", "random"] {
                for seed in 0..ctx.pick(2u64, 4u64) {
                    for float in ["f64", "f32"] {
                        cases.push(Case {
                            dataset: m.id.clone(),
                            family: m.family.to_string(),
                            data: m.data.clone(),
                            n_clusters: k,
                            init: init.to_string(),
                            seeds: vec![seed],
                            reg_covars: vec![1e-6, 1e-3],
                            tolerances: vec![1e-3],
                            n_runs: vec![1],
                            max_iters: vec![100],
                            kind: "layout".to_string(),
                            float: float.to_string(),
                        });
                    }
                }
            }
        }
    }
    ctx.extra("layout_catalogue_members", json!(layout_members));
    // tiny within-cluster variance against a regularisation of the same size or larger: the M-step is then far
    // from exact and the lower bound may DROP between iterations (stopping rule on |change|)
    let mut tiny_ids = Vec::new();
    for id in ["separated-d2-b3-r1", "overlapping-d2-b3-r1", "separated-d1-b3-r1", "anisotropic-d3-b3-r1", "separated-d3-b2-r1"] {
        let m = members.iter().find(|m| m.id == id).expect("catalogue member");
        let data: Vec<Vec<f64>> = m.data.iter().map(|r| r.iter().map(|&v| (v * 0.05 * 1e6).round() / 1e6).collect()).collect();
        tiny_ids.push(format!("{}-x0.05", id));
        for k in 2..=3usize {
            for init in ["kmeans", "random"] {
                for seed in 0..ctx.pick(3u64, 8u64) {
                    cases.push(Case {
                        dataset: format!("{}-x0.05", id),
                        family: "tiny_variance".to_string(),
                        data: data.clone(),
                        n_clusters: k,
                        init: init.to_string(),
                        seeds: vec![seed],
                        reg_covars: vec![1e-2, 1e-1],
                        tolerances: vec![1e-6, 1e-9],
                        n_runs: vec![1, 3],
                        max_iters: vec![100, 5],
                        kind: "sweep".to_string(),
                        float: "f64".to_string(),
                    });
                }
            }
        }
    }
    ctx.extra("tiny_variance_members", json!(tiny_ids));
    // multi-run lock-step: sizeable reg_covar and small budgets, so that a later run can converge without
    // beating the lower bound of an earlier, exhausted run
    for id in ["separated-d2-b3-r1", "overlapping-d2-b3-r1", "separated-d1-b3-r1", "separated-d3-b2-r1"] {
        let m = members.iter().find(|m| m.id == id).expect("catalogue member");
        for k in 2..=3usize {
            for init in ["kmeans", "random"] {
                for seed in 0..ctx.pick(3u64, 8u64) {
                    cases.push(Case {
                        dataset: m.id.clone(),
                        family: m.family.to_string(),
                        data: m.data.clone(),
                        n_clusters: k,
                        init: init.to_string(),
                        seeds: vec![seed],
                        reg_covars: vec![0.1, 0.5],
                        tolerances: vec![1e-3, 1e-5],
                        n_runs: vec![2, 3],
                        max_iters: vec![3, 10],
                        kind: "lockstep".to_string(),
                        float: "f64".to_string(),
                    });
                }
            }
        }
    }
    {
        let mut ls: Vec<(String, String, Vec<Vec<f64>>, Vec<f64>, Vec<f64>)> = Vec::new();
        for id in ["separated-d2-b3-r1", "overlapping-d2-b3-r1", "separated-d1-b3-r1", "anisotropic-d3-b3-r1", "separated-d3-b2-r1"] {
            let m = members.iter().find(|m| m.id == id).expect("catalogue member");
            let tiny: Vec<Vec<f64>> = m.data.iter().map(|r| r.iter().map(|&v| (v * 0.05 * 1e6).round() / 1e6).collect()).collect();
            ls.push((format!("{}-x0.05", id), "tiny_variance".into(), tiny, vec![1e-2, 1e-1], vec![1e-6, 1e-9]));
            ls.push((id.to_string(), m.family.to_string(), m.data.clone(), vec![1e-3, 0.1], vec![1e-3, 1e-5]));
        }
        for (id, fam, data, regs, tols) in ls {
            for k in 2..=3usize {
                for init in ["kmeans", "random"] {
                    for seed in 0..ctx.pick(3u64, 8u64) {
                        cases.push(Case {
                            dataset: id.clone(),
                            family: fam.clone(),
                            data: data.clone(),
                            n_clusters: k,
                            init: init.to_string(),
                            seeds: vec![seed],
                            reg_covars: regs.clone(),
                            tolerances: tols.clone(),
                            n_runs: vec![1],
                            max_iters: vec![100, 10],
                            kind: "lockstep".to_string(),
                            float: "f64".to_string(),
                        });
                    }
                }
            }
        }
    }
    // calling forms of predict (incl. the one-feature members)
    let mut forms_members = Vec::new();
    for m in &members {
        let dm = m.data[0].len();
        let pick = (m.family == "separated" || m.family == "overlapping") && m.id.ends_with("-r1") && (dm <= 2 || (ctx.thorough() && dm <= 6));
        if !pick {
            continue;
        }
        forms_members.push(m.id.clone());
        for k in 1..=3usize {
            for init in ["kmeans", "random"] {
                for seed in 0..ctx.pick(2u64, 4u64) {
                    cases.push(Case {
                        dataset: m.id.clone(),
                        family: m.family.to_string(),
                        data: m.data.clone(),
                        n_clusters: k,
                        init: init.to_string(),
                        seeds: vec![seed],
                        reg_covars: vec![1e-3],
                        tolerances: vec![1e-3],
                        n_runs: vec![1],
                        max_iters: vec![100],
                        kind: "forms".to_string(),
                        float: "f64".to_string(),
                    });
                }
            }
        }
    }
    ctx.extra("forms_catalogue_members", json!(forms_members));
    // builder histories (all values differ from the defaults 1e-3 / 1e-6 / 1 / 100 so that a reset is visible)
    for id in ["overlapping-d2-b2-r1", "separated-d1-b3-r0", "anisotropic-d3-b3-r1"] {
        let m = members.iter().find(|m| m.id == id).expect("catalogue member");
        for k in 2..=3usize {
            for init in ["kmeans", "random"] {
                for seed in 0..ctx.pick(2u64, 6u64) {
                    cases.push(Case {
                        dataset: m.id.clone(),
                        family: m.family.to_string(),
                        data: m.data.clone(),
                        n_clusters: k,
                        init: init.to_string(),
                        seeds: vec![seed],
                        reg_covars: vec![1e-3, 0.1],
                        tolerances: vec![1e-5, 1e-2],
                        n_runs: vec![3],
                        max_iters: vec![50, 7],
                        kind: "builder".to_string(),
                        float: "f64".to_string(),
                    });
                }
            }
        }
    }
    // size thresholds: catalogue members replicated (with a small deterministic offset per replica) to
    // 1025 / 4097 rows, through the complete oracle set of the sweep
    let mut big: Vec<(String, &Member, usize, &str)> = Vec::new();
    let find = |id: &str| members.iter().find(|m| m.id == id).expect("catalogue member");
    big.push(("separated-d2-b3-r1".into(), find("separated-d2-b3-r1"), 1025, "f64"));
    big.push(("overlapping-d3-b2-r0".into(), find("overlapping-d3-b2-r0"), 4097, "f64"));
    if ctx.thorough() {
        big.push(("separated-d2-b3-r1".into(), find("separated-d2-b3-r1"), 4097, "f64"));
        big.push(("overlapping-d3-b2-r0".into(), find("overlapping-d3-b2-r0"), 1025, "f64"));
        big.push(("anisotropic-d4-b3-r1".into(), find("anisotropic-d4-b3-r1"), 1025, "f64"));
        big.push(("anisotropic-d4-b3-r1".into(), find("anisotropic-d4-b3-r1"), 4097, "f64"));
        big.push(("separated-d6-b2-r0".into(), find("separated-d6-b2-r0"), 4097, "f64"));
        big.push(("separated-d2-b3-r1".into(), find("separated-d2-b3-r1"), 1025, "f32"));
        big.push(("overlapping-d3-b2-r0".into(), find("overlapping-d3-b2-r0"), 4097, "f32"));
    }
    let mut big_ids = Vec::new();
    for (id, m, nbig, float) in &big {
        let n0 = m.data.len();
        let data: Vec<Vec<f64>> = (0..*nbig)
            .map(|i| {
                let r = i / n0;
                m.data[i % n0].iter().enumerate().map(|(j, &v)| ((v + 0.001 * (((r * (j + 1)) % 7) as f64 - 3.0)) * 1e6).round() / 1e6).collect()
            })
            .collect();
        big_ids.push(format!("{}-x{} ({})", id, nbig, float));
        for k in 2..=3usize {
            for init in ["kmeans", "random"] {
                for seed in 0..ctx.pick(2u64, 4u64) {
                    cases.push(Case {
                        dataset: format!("{}-x{}", id, nbig),
                        family: m.family.to_string(),
                        data: data.clone(),
                        n_clusters: k,
                        init: init.to_string(),
                        seeds: vec![seed],
                        reg_covars: vec![1e-6, 1e-3],
                        tolerances: vec![1e-3],
                        n_runs: vec![1],
                        max_iters: vec![100],
                        kind: "sweep".to_string(),
                        float: float.to_string(),
                    });
                }
            }
        }
    }
    ctx.extra("replicated_big_members", json!(big_ids));
    ctx.extra("f32_catalogue_members", json!(f32_members));
    ctx.extra("ladder_catalogue_members", json!(ladder_members));
    let expected_fits: u64 = cases.iter().map(|c| c.configs().len() as u64).sum();
    ctx.extra("catalogue_members", json!(members.len()));
    ctx.extra("catalogue", json!(members.iter().map(|m| format!("{} ({}x{})", m.id, m.data.len(), m.data[0].len())).collect::<Vec<_>>()));
    ctx.extra("case_groups", json!(cases.len()));
    ctx.extra("fits_enumerated", json!(expected_fits));

    let totals = Mutex::new(Cnt::default());
    let families_ok: Mutex<BTreeSet<String>> = Mutex::new(BTreeSet::new());
    par_sweep(&ctx, "gmm sweep", &cases, |c| {
        let mut v = Vec::new();
        let (cnt, evals, nontrivial) = run_case(c, &mut v);
        ctx.evals(evals, nontrivial);
        ctx.violations(v);
        if c.kind == "sweep" && c.float == "f64" && cnt.0.get("fits_ok").cloned().unwrap_or(0) > 0 {
            families_ok.lock().unwrap().insert(format!("{}/k{}/{}", c.family, c.n_clusters, c.init));
        }
        ctx.sample(|| json!({"dataset": c.dataset, "rows": c.data.len(), "features": c.data[0].len(), "first_row": c.data[0], "n_clusters": c.n_clusters, "init": c.init, "kind": c.kind, "float": c.float, "fits_in_group": c.configs().len(), "counters": cnt.0}));
        totals.lock().unwrap().merge(&cnt);
    });
    let t = totals.lock().unwrap().clone();
    for (k, v) in &t.0 {
        if k.contains("indeterminate") {
            for _ in 0..*v {
                ctx.indeterminate();
            }
        }
    }
    for (k, v) in &t.0 {
        if k.ends_with("max_log10_condition_number_x100") {
            ctx.extra(&k.replace("_x100", ""), json!(*v as f64 / 100.0));
        } else {
            ctx.extra(k, json!(v));
        }
    }
    ctx.extra("family_x_k_x_init_combinations_with_a_successful_fit", json!(families_ok.lock().unwrap().len()));
    let fits_run = ["fits", "f32.fits", "ladder.fits", "layout.fits", "builder.fits", "forms.fits", "lockstep.fits"].iter().map(|k| t.0.get(*k).cloned().unwrap_or(0)).sum::<u64>();
    if fits_run != expected_fits {
        ctx.capped(&format!("{} of {} enumerated fits were run", fits_run, expected_fits));
    }
    ctx.finish(&replay_value);
}
