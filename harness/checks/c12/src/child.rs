//! Running one call of the subject in a child process of this binary with a CPU-time limit: a library
//! call that never returns cannot be interrupted in-process.

use std::process::{Command, Stdio};

/// Spawns `current_exe args..`, waits until it exits or has used more than `limit_ms` of CPU time
/// (utime + stime from /proc/<pid>/stat, USER_HZ = 100; wall backstop 10 min). The limit is on CPU time, not
/// wall time: an endless loop burns CPU without bound while a healthy call needs the same few ms of CPU however
/// loaded the machine is, so the verdict does not depend on the load.
/// Returns (stdout, last CPU reading in ms, exit code) or None when the child was killed at the limit.
pub fn run_child(args: &[String], limit_ms: u64) -> Option<(String, u64, Option<i32>)> {
    let exe = std::env::current_exe().expect("current exe");
    let mut child = Command::new(exe).args(args).stdin(Stdio::null()).stdout(Stdio::piped()).stderr(Stdio::null()).spawn().expect("spawn child");
    let t0 = std::time::Instant::now();
    let pid = child.id();
    let cpu_ms = |pid: u32| -> Option<u64> {
        let st = std::fs::read_to_string(format!("/proc/{}/stat", pid)).ok()?;
        let rest = &st[st.rfind(')')? + 1..];
        let tok: Vec<&str> = rest.split_whitespace().collect();
        let ut: u64 = tok.get(11)?.parse().ok()?;
        let stt: u64 = tok.get(12)?.parse().ok()?;
        Some((ut + stt) * 10)
    };
    // the child's stdout is read by a helper thread so that a large answer cannot block the child on a full pipe
    let mut so = child.stdout.take().expect("piped stdout");
    let reader = std::thread::spawn(move || {
        use std::io::Read;
        let mut s = String::new();
        let _ = so.read_to_string(&mut s);
        s
    });
    let mut last_cpu = 0u64;
    let status;
    loop {
        match child.try_wait() {
            Ok(Some(st)) => {
                status = st;
                break;
            }
            Ok(None) => {
                if let Some(c) = cpu_ms(pid) {
                    last_cpu = c;
                }
                if last_cpu > limit_ms || t0.elapsed().as_secs() > 600 {
                    let _ = child.kill();
                    let _ = child.wait();
                    let _ = reader.join();
                    return None;
                }
                std::thread::sleep(std::time::Duration::from_millis(1));
            }
            Err(e) => panic!("waiting for child: {}", e),
        }
    }
    let out = reader.join().unwrap_or_default();
    Some((out, last_cpu, status.code()))
}
