//! Multinomial logistic regression: stationarity for the documented objective, class list,
//! probabilities (rows sum to one) and arg-max decision.

use crate::refopt::{self, norm2};
use crate::Out;
use linfa::traits::{Fit, Predict, PredictInplace};
use crate::layout::{expand, lay, lay_targets};
use linfa::DatasetBase;
use linfa_logistic::MultiLogisticRegression;
use lvmc_core::{guarded, Violation};
use ndarray::{Array1, Array2};
use serde::{Deserialize, Serialize};

#[derive(Clone, Debug, Serialize, Deserialize)]
pub struct MultiCase {
    pub family: String,
    pub x: Vec<Vec<f64>>,
    /// class index 0..k of every sample
    pub groups: Vec<u8>,
    pub k: usize,
    pub label_type: String, // usize | str | string
    pub naming: u8,
    pub alpha: f64,
    pub intercept: bool,
    /// initial parameters, (d + intercept) rows x k columns, columns in the order of the SORTED class values
    pub init: Option<Vec<Vec<f64>>>,
    pub gtol: f64,
    pub max_iter: u64,
    /// max_iterations of the refit that decides a failed stationarity test (0 = no refit)
    #[serde(default)]
    pub retry_max_iter: u64,
    pub order: String,
    pub scale: f64,
    /// rows (and groups) are cycled to this many samples (replicated lattice)
    #[serde(default)]
    pub n_rows: Option<usize>,
    /// memory layout of the records handed to fit / of the query matrix handed to predict*
    #[serde(default = "crate::std_layout")]
    pub fit_layout: String,
    #[serde(default = "crate::std_layout")]
    pub query_layout: String,
    /// element type of the subject: f64 | f32
    #[serde(default = "crate::f64_name")]
    pub float: String,
    /// builder history, see BinCase
    #[serde(default)]
    pub setter_order: Option<Vec<u8>>,
    #[serde(default)]
    pub decoys: bool,
    #[serde(default = "crate::default_ctor")]
    pub ctor: String,
    /// setters that are NOT called at all: the case then carries the documented default of that parameter
    /// (alpha 1, intercept on, max_iterations 100, gradient_tolerance 1e-4, no initial parameters)
    #[serde(default)]
    pub skip_setters: Vec<u8>,
    /// layout of the 1-D target array handed to fit (standard | reversed_view | stepped_view | owned_inverted)
    #[serde(default = "crate::std_layout")]
    pub target_layout: String,
    /// label naming: the dataset is built with the group indices as targets and renamed through
    /// `DatasetBase::map_targets` (as in the crate's documentation) instead of being built with the names
    #[serde(default)]
    pub naming_via_map_targets: bool,
    /// MIS-SHAPED start: rows / columns more (+1) or fewer (-1) than the configured model needs; oracle:
    /// Err(InitialParameter*Mismatch), or Ok and then every oracle holds for the configured model
    #[serde(default)]
    pub init_rows_delta: i8,
    #[serde(default)]
    pub init_cols_delta: i8,
}

const USIZE_NAMES: [[usize; 4]; 2] = [[0, 1, 2, 3], [9, 4, 6, 2]];
const STR_NAMES: [[&str; 4]; 2] = [["ape", "cat", "dog", "eel"], ["zebra", "ant", "yak", "bee"]];

pub fn run(case: &MultiCase, viols: &mut Vec<Violation>) -> Out {
    // parameters whose setter is never called carry the documented default
    let mut normalised = case.clone();
    for &s in &case.skip_setters {
        match s {
            0 => normalised.alpha = 1.0,
            1 => normalised.intercept = true,
            2 => {
                normalised.max_iter = 100;
                normalised.retry_max_iter = 0;
            }
            3 => normalised.gtol = 1e-4,
            _ => normalised.init = None,
        }
    }
    let case = &normalised;
    let builder_variant = case.setter_order.is_some() || case.decoys || case.ctor != "default";
    let target_variant = case.target_layout != "standard" || case.naming_via_map_targets;
    if case.fit_layout == "standard" && case.query_layout == "standard" && !builder_variant && !target_variant {
        return run_inner(case, viols);
    }
    // variant case: see binary::run
    let mut base = case.clone();
    base.fit_layout = "standard".into();
    base.query_layout = "standard".into();
    base.setter_order = None;
    base.decoys = false;
    base.ctor = "default".into();
    base.target_layout = "standard".into();
    base.naming_via_map_targets = false;
    let mut bv = Vec::new();
    let bo = run_inner(&base, &mut bv);
    if !bv.is_empty() || bo.ood {
        viols.extend(bv);
        return bo;
    }
    let mut lv = Vec::new();
    let o = run_inner(case, &mut lv);
    if builder_variant {
        let sig = if case.ctor != "default" { "multi_logistic.params.constructor_dependence" } else { "multi_logistic.params.builder_order_dependence" };
        let cj = serde_json::to_value(crate::Case::Multi(case.clone())).unwrap();
        if lv.is_empty() && o.fingerprint != bo.fingerprint {
            viols.push(Violation::new(sig, format!("same logical parameter set, setters called in order {:?} (decoys first: {}, constructor {}): fitted parameters / probabilities are not bit-identical to those of the canonical builder order", case.setter_order, case.decoys, case.ctor), cj.clone()));
        }
        for v in lv {
            viols.push(Violation::new(sig, format!("the canonical builder order passes every check; setters in order {:?} (decoys first: {}, constructor {}): [{}] {}", case.setter_order, case.decoys, case.ctor, v.sig, v.what), cj.clone()));
        }
    } else if target_variant {
        let sig = if case.naming_via_map_targets { "multi_logistic.fit.map_targets_dependence" } else { "multi_logistic.fit.target_layout_dependence" };
        let cj = serde_json::to_value(crate::Case::Multi(case.clone())).unwrap();
        if lv.is_empty() && o.fingerprint != bo.fingerprint {
            viols.push(Violation::new(sig, format!("same samples and labels, targets handed over as '{}' (named through map_targets: {}): fitted parameters / probabilities are not bit-identical to those of the dataset built directly with a standard-layout label array", case.target_layout, case.naming_via_map_targets), cj.clone()));
        }
        for v in lv {
            viols.push(Violation::new(sig, format!("the dataset built directly with a standard-layout label array passes every check; targets handed over as '{}' (named through map_targets: {}): [{}] {}", case.target_layout, case.naming_via_map_targets, v.sig, v.what), cj.clone()));
        }
    } else {
        for v in lv {
            viols.push(crate::as_layout_dependence(v, &case.fit_layout, &case.query_layout));
        }
    }
    o
}

fn run_inner(case: &MultiCase, viols: &mut Vec<Violation>) -> Out {
    let nm = (case.naming as usize).min(1);
    macro_rules! go {
        ($f:ident) => {
            match case.label_type.as_str() {
                "usize" => $f::<usize>(case, USIZE_NAMES[nm].to_vec(), viols),
                "str" => $f::<&'static str>(case, STR_NAMES[nm].to_vec(), viols),
                "string" => $f::<String>(case, STR_NAMES[nm].iter().map(|s| s.to_string()).collect(), viols),
                _ => panic!("bad label type"),
            }
        };
    }
    match case.float.as_str() {
        "f64" => go!(typed_f64),
        "f32" => go!(typed_f32),
        _ => panic!("bad float type"),
    }
}

/// linfa's `log_sum_exp` shifts by the GLOBAL maximum of the score matrix and clamps each row sum
/// with `max(1e-15)`: rows whose best score lies more than ~ln(1e15) = 34.5 below the global maximum
/// get a wrong log-sum-exp. This predicate says whether that happens at `theta`.
fn clamp_active(x: &[Vec<f64>], theta: &[f64], k: usize, intercept: bool) -> bool {
    let rows: Vec<Vec<f64>> = x.iter().map(|xi| refopt::multi_scores(xi, theta, k, intercept)).collect();
    let gmax = rows.iter().flatten().cloned().fold(f64::NEG_INFINITY, f64::max);
    gmax.is_finite() && rows.iter().any(|r| r.iter().map(|v| (v - gmax).exp()).sum::<f64>() < 1e-15)
}

macro_rules! typed_impl {
    ($name:ident, $F:ty, $is32:expr) => {
fn $name<C: Ord + Clone + Default + std::fmt::Debug + 'static>(case: &MultiCase, names: Vec<C>, viols: &mut Vec<Violation>) -> Out {
    let mut out = Out::default();
    let is32: bool = $is32;
    let alpha_s = (case.alpha as $F) as f64;
    // the data as the subject sees them (replicated to n_rows, rounded to its float type)
    let xs: Vec<Vec<f64>> = expand(&case.x, case.n_rows).iter().map(|r| r.iter().map(|&v| (v as $F) as f64).collect()).collect();
    let groups: Vec<u8> = expand(&case.groups, case.n_rows);
    let n = xs.len();
    let d = xs[0].len();
    // tolerances: see binary.rs
    let gscale: f64 = xs.iter().map(|r| r.iter().map(|v| v.abs()).sum::<f64>() + 1.0).sum();
    let (ptol, margin, gap_rel, g_extra, ulp) = if is32 { (2e-6, 1e-6, 1e-5, 1e-5 * gscale, 1.2e-7) } else { (1e-9, 1e-9, 1e-8, 0.0, 0.0) };
    let gthr = 10.0 * case.gtol + g_extra;
    let k = case.k;
    let pz = d + case.intercept as usize;
    let cj = || serde_json::to_value(crate::Case::Multi(case.clone())).unwrap();
    let xmax = xs.iter().flatten().fold(0.0f64, |m, v| m.max(v.abs())).max(1.0);

    // class values actually used, sorted = the documented column order
    let mut trained: Vec<C> = groups.iter().map(|&g| names[g as usize].clone()).collect();
    trained.sort();
    trained.dedup();
    if trained.len() != k {
        panic!("case does not use all k classes");
    }
    // own coding: column index = rank of the class value
    let col_of_group: Vec<usize> = (0..k).map(|g| trained.iter().position(|c| *c == names[g]).unwrap()).collect();
    let yv: Vec<usize> = groups.iter().map(|&g| col_of_group[g as usize]).collect();

    // ---- own Newton solve from zero: existence certificate (alpha = 0) and reference minimum ----
    let fgh = |t: &[f64]| refopt::multi_eval(&xs, &yv, k, alpha_s, case.intercept, t);
    let own = refopt::lm_newton(&fgh, &vec![0.0; pz * k], 1e-10 * xmax, 300);
    let own_spread = case
        .x
        .iter()
        .map(|xi| {
            let s = refopt::multi_scores(xi, &own.x, k, case.intercept);
            s.iter().cloned().fold(f64::NEG_INFINITY, f64::max) - s.iter().cloned().fold(f64::INFINITY, f64::min)
        })
        .fold(0.0f64, f64::max);
    if case.alpha == 0.0 {
        if !(own.converged && own_spread <= crate::binary::OWN_SCORE_BOUND) {
            out.ood = true;
            out.tag("multi_alpha0_no_certified_finite_maximiser_out_of_domain");
            return out;
        }
        out.max_own_score = own_spread;
    } else if !own.converged {
        out.indeterminate += 1;
        out.tag("multi_own_newton_not_converged");
        return out;
    }

    // ---- fit with the real code ----
    let rows: Vec<Vec<$F>> = xs.iter().map(|r| r.iter().map(|&v| v as $F).collect()).collect();
    let laid = lay(&rows, &case.fit_layout, <$F>::NAN);
    let named: Vec<C> = groups.iter().map(|&g| names[g as usize].clone()).collect();
    let gidx: Vec<usize> = groups.iter().map(|&g| g as usize).collect();
    let ncls = names.len();
    // targets in the requested layout; filler entries of the stepped view hold a DIFFERENT class
    let t_named = lay_targets(&named, &case.target_layout, &|i| names[(groups[i] as usize + 1) % ncls].clone());
    let t_idx = lay_targets(&gidx, &case.target_layout, &|i| (groups[i] as usize + 1) % ncls);
    let lookup = names.clone();
    let _ = n;
    let build = |order: &[u8], decoys: bool, ctor: &str| {
        let mut p = if ctor == "new" { MultiLogisticRegression::<$F>::new() } else { MultiLogisticRegression::<$F>::default() };
        for pass in 0..2 {
            if pass == 0 && !decoys {
                continue;
            }
            let decoy = pass == 0;
            for &s in order {
                if case.skip_setters.contains(&s) {
                    continue;
                }
                p = match s {
                    0 => p.alpha(if decoy { 7.5 } else { case.alpha as $F }),
                    1 => p.with_intercept(if decoy { !case.intercept } else { case.intercept }),
                    2 => p.max_iterations(if decoy { 3 } else { case.max_iter }),
                    3 => p.gradient_tolerance(if decoy { 0.5 } else { case.gtol as $F }),
                    _ => match &case.init {
                        Some(init) => p.initial_params(if decoy { Array2::from_elem((pz, k), 1.0) } else { {
                            let (r, c) = ((pz as i64 + case.init_rows_delta as i64) as usize, (k as i64 + case.init_cols_delta as i64) as usize);
                            Array2::from_shape_fn((r, c), |(i, j)| if i < pz && j < k { init[i][j] as $F } else { 0.05 })
                        } }),
                        None => p,
                    },
                };
            }
        }
        p
    };
    let canonical: Vec<u8> = vec![0, 1, 2, 3, 4];
    let params = build(case.setter_order.as_deref().unwrap_or(&canonical), case.decoys, &case.ctor);
    if case.setter_order.is_some() || case.decoys || case.ctor != "default" {
        let reference = build(&canonical, false, "default");
        if params != reference || format!("{:?}", params) != format!("{:?}", reference) {
            viols.push(Violation::new(
                "multi_logistic.params.differ_from_canonical_history",
                format!("setters in order {:?} (decoys first: {}, constructor {}) give {:?}, the canonical history gives {:?}", case.setter_order, case.decoys, case.ctor, params, reference),
                cj(),
            ));
        }
    }
    // does the global-shift clamp of log_sum_exp bite at the first trial point of the line search
    // (theta0 - gradient(theta0), the unit steepest-descent step L-BFGS starts with)?
    let theta0: Vec<f64> = match &case.init {
        Some(init) => init.iter().flatten().cloned().collect(),
        None => vec![0.0; pz * k],
    };
    let first_trial_clamped = match fgh(&theta0) {
        Some(e0) => {
            let t1: Vec<f64> = theta0.iter().zip(&e0.g).map(|(a, b)| a - b).collect();
            clamp_active(&xs, &t1, k, case.intercept)
        }
        None => false,
    };
    if first_trial_clamped {
        out.tag("multi_first_trial_step_inside_log_sum_exp_clamp_region");
    }
    // ... or at the true minimiser itself (nearly separable classes, small alpha: score spreads > 34.5 between rows)
    // ... or on the ray from the start through the true minimiser, up to 16 times its length (the line
    //     search extrapolates; nearly separable classes with a small alpha have score spreads near 34.5 at the minimiser)
    let optimum_clamped = [1.0, 2.0, 4.0, 8.0, 16.0].iter().any(|&t| {
        let p: Vec<f64> = theta0.iter().zip(&own.x).map(|(a, b)| a + t * (b - a)).collect();
        clamp_active(&xs, &p, k, case.intercept)
    });
    if optimum_clamped {
        out.tag("multi_ray_to_minimiser_enters_log_sum_exp_clamp_region");
    }
    let clamp_note = if first_trial_clamped {
        " [the first line-search trial point theta0 - grad has rows whose best score is > ln(1e15) below the global maximum score: log_sum_exp clamps them]"
    } else if optimum_clamped {
        " [on the ray from the start through the true minimiser (within 16 x its length) some rows' best score is > ln(1e15) below the global maximum score: log_sum_exp clamps them there]"
    } else {
        ""
    };
    // the log_sum_exp clamp (fixed in /repo, 5649046) no longer exists: the probes above are only tallied
    let _ = (first_trial_clamped, optimum_clamped, clamp_note);
    let clamp_note = "";
    let do_fit = |p: &MultiLogisticRegression<$F>| {
        guarded(|| {
            let rec = laid.view();
            match (t_named.is_owned_kind(), case.naming_via_map_targets) {
                (false, false) => p.fit(&DatasetBase::new(rec, t_named.view())),
                (true, false) => p.fit(&DatasetBase::new(rec, t_named.owned())),
                (false, true) => p.fit(&DatasetBase::new(rec, t_idx.view()).map_targets(|g| lookup[*g].clone())),
                (true, true) => p.fit(&DatasetBase::new(rec, t_idx.owned()).map_targets(|g| lookup[*g].clone())),
            }
        })
    };
    let mut model = match do_fit(&params) {
        Ok(Ok(m)) => m,
        Ok(Err(linfa_logistic::error::Error::InitialParameterFeaturesMismatch { .. })) | Ok(Err(linfa_logistic::error::Error::InitialParameterClassesMismatch { .. }))
            if case.init_rows_delta != 0 || case.init_cols_delta != 0 =>
        {
            out.tag("mis_shaped_initial_params_rejected");
            return out;
        }
        Ok(Err(e)) => {
            let sig = "multi_logistic.fit.unexpected_error";
            viols.push(Violation::new(sig, format!("fit on an in-domain {}-class dataset returned Err({}){}", k, e, clamp_note), cj()));
            return out;
        }
        Err(p) => {
            viols.push(Violation::new("multi_logistic.fit.panic", format!("fit on an in-domain {}-class dataset panicked: {}", k, p), cj()));
            return out;
        }
    };

    // ---- slow but healthy convergence must not be mistaken for a wrong fixed point: when the first fit
    //      (max_iter) fails the stationarity test, the verdict is taken from a refit with retry_max_iter ----
    let gap_tol = gap_rel * own.f.abs().max(1.0);
    let measure = |m: &linfa_logistic::MultiFittedLogisticRegression<$F, C>| -> Option<(f64, f64)> {
        let (wm, bm) = (m.params().mapv(|v| v as f64), m.intercept().mapv(|v| v as f64));
        let cl = m.classes();
        if wm.dim() != (d, k) || bm.len() != k || cl.len() != k {
            return None;
        }
        let mut theta = vec![0.0; pz * k];
        for c in 0..k {
            let oc = trained.iter().position(|t| *t == cl[c])?;
            for j in 0..d {
                theta[j * k + oc] = wm[(j, c)];
            }
            if case.intercept {
                theta[d * k + oc] = bm[c];
            }
        }
        let e = fgh(&theta)?;
        Some((norm2(&e.g), e.f - own.f))
    };
    if case.retry_max_iter > case.max_iter {
        if let Some((gn, gap)) = measure(&model) {
            if gn > gthr && gap > gap_tol {
                out.tag("multi_refits_with_retry_max_iter");
                match do_fit(&params.clone().max_iterations(case.retry_max_iter)) {
                    Ok(Ok(m2)) => model = m2,
                    Ok(Err(e)) => {
                        let sig = "multi_logistic.fit.unexpected_error";
                        viols.push(Violation::new(sig, format!("refit with max_iterations {} on an in-domain {}-class dataset returned Err({})", case.retry_max_iter, k, e), cj()));
                        return out;
                    }
                    Err(p) => {
                        viols.push(Violation::new("multi_logistic.fit.panic", format!("refit panicked: {}", p), cj()));
                        return out;
                    }
                }
            }
        }
    }

    // ---- class list ----
    let classes: Vec<C> = model.classes().to_vec();
    let mut sorted_classes = classes.clone();
    sorted_classes.sort();
    if sorted_classes != trained {
        viols.push(Violation::new("multi_logistic.classes.wrong_class_set", format!("trained on {:?}, classes() = {:?}", trained, classes), cj()));
        return out;
    }
    // column c of the model belongs to classes()[c]; own column index of that class:
    let own_col_of_model_col: Vec<usize> = classes.iter().map(|c| trained.iter().position(|t| t == c).unwrap()).collect();

    // ---- returned parameters (re-ordered into the own column order) ----
    let wm = model.params().mapv(|v| v as f64);
    let bm = model.intercept().mapv(|v| v as f64);
    if wm.dim() != (d, k) || bm.len() != k {
        viols.push(Violation::new("multi_logistic.params.wrong_shape", format!("params {:?} intercept {} for d={} k={}", wm.dim(), bm.len(), d, k), cj()));
        return out;
    }
    if wm.iter().any(|v| !v.is_finite()) || bm.iter().any(|v| !v.is_finite()) {
        viols.push(Violation::new("multi_logistic.fit.nonfinite_params", format!("returned params {:?} intercept {:?}", wm, bm), cj()));
        return out;
    }
    if !case.intercept && bm.iter().any(|&v| v != 0.0) {
        viols.push(Violation::new("multi_logistic.intercept.nonzero_without_intercept", format!("with_intercept(false) but intercept() = {:?}", bm), cj()));
    }
    let mut theta = vec![0.0; pz * k];
    for j in 0..d {
        for c in 0..k {
            theta[j * k + own_col_of_model_col[c]] = wm[(j, c)];
        }
    }
    if case.intercept {
        for c in 0..k {
            theta[d * k + own_col_of_model_col[c]] = bm[c];
        }
    }
    out.nontrivial = wm.iter().any(|&v| v != 0.0);

    // ---- stationarity ----
    let at = fgh(&theta).expect("finite objective at finite parameters");
    let gn = norm2(&at.g);
    let gap = at.f - own.f;
    if gn > gthr {
        out.tag("multi_gradient_above_10tol");
    }
    if gn > gthr && gap > gap_tol {
        let sig = "multi_logistic.fit.not_stationary";
        viols.push(Violation::new(
            sig,
            format!(
                "returned W={:?} b={:?} (max_iterations {}): own gradient norm of the documented objective {:.3e} > 10 x gradient_tolerance {:.1e} AND objective {:.12} exceeds the own Newton minimum {:.12} by {:.3e} > {:.1e}{}",
                wm.rows().into_iter().map(|r| r.to_vec()).collect::<Vec<_>>(),
                bm.to_vec(),
                case.retry_max_iter.max(case.max_iter),
                gn,
                case.gtol,
                at.f,
                own.f,
                gap,
                gap_tol,
                clamp_note
            ),
            cj(),
        ));
    }
    if gap < -1e-7 * own.f.abs().max(1.0) {
        viols.push(Violation::new("harness.multi.reference_minimum_beaten", format!("linfa objective {} < own minimum {}", at.f, own.f), cj()));
    }

    // ---- probabilities and decisions ----
    let mut queries: Vec<Vec<f64>> = xs.clone();
    queries.push(vec![0.0; d]);
    // direction separating model column 0 from model column 1
    let u: Vec<f64> = (0..d).map(|j| wm[(j, 0)] - wm[(j, 1)]).collect();
    let uu: f64 = u.iter().map(|v| v * v).sum();
    if uu > 0.0 && uu.is_finite() {
        for t in [1.0, 40.0, 710.0, 1000.0] {
            for s in [1.0, -1.0] {
                queries.push(u.iter().map(|v| v * s * t / uu).collect());
            }
        }
    }
    queries.push(vec![1e3; d]);
    queries.push(vec![-1e3; d]);
    // keep only queries whose individual products |q_j W_jc| stay <= 1e6, so that the two sides' rounding of
    // the scores (cancellation between features) stays far below the 1e-9 comparison tolerance
    queries.retain(|qi| (0..d).all(|j| (0..k).all(|c| (qi[j] * wm[(j, c)]).abs() <= 1e6)));
    // as the subject sees them
    let queries: Vec<Vec<f64>> = queries.into_iter().map(|r| r.into_iter().map(|v| (v as $F) as f64).collect::<Vec<f64>>()).filter(|r| r.iter().all(|v| v.abs() < 1e30)).collect();
    let qrows: Vec<Vec<$F>> = queries.iter().map(|r| r.iter().map(|&v| v as $F).collect()).collect();
    let qlaid = lay(&qrows, &case.query_layout, <$F>::NAN);
    let q = qlaid.view();
    let (probs, pred) = match guarded(|| (model.predict_probabilities(&q).mapv(|v| v as f64), model.predict(&q))) {
        Ok(r) => r,
        Err(p) => {
            viols.push(Violation::new("multi_logistic.predict.panic", format!("prediction on finite queries panicked: {}", p), cj()));
            return out;
        }
    };
    if probs.dim() != (queries.len(), k) {
        viols.push(Violation::new("multi_logistic.predict_probabilities.wrong_shape", format!("{:?}", probs.dim()), cj()));
        return out;
    }
    out.fingerprint = wm.iter().chain(bm.iter()).chain(probs.iter()).map(|v| v.to_bits()).collect();
    // ---- predict_inplace into caller-owned buffers must overwrite EVERY entry ----
    {
        let nq = queries.len();
        let wrong: Array1<C> = pred.mapv(|c| {
            let i = classes.iter().position(|x| *x == c).unwrap_or(0);
            classes[(i + 1) % k].clone()
        });
        let rev_rows: Vec<Vec<$F>> = qrows.iter().rev().cloned().collect();
        let rev_laid = lay(&rev_rows, "standard", <$F>::NAN);
        let q2 = rev_laid.view();
        let q_owned = q.to_owned();
        let m_a = model.clone();
        let m_b = model.clone();
        let r = guarded(|| {
            let mut a = wrong.clone();
            model.predict_inplace(&q, &mut a);
            let mut d0: Array1<C> = Array1::default(nq);
            model.predict_inplace(&q, &mut d0);
            let plain2 = model.predict(&q2);
            let mut reused = a.clone();
            model.predict_inplace(&q2, &mut reused);
            let mtm: linfa::composing::MultiTargetModel<Array2<$F>, C> = vec![m_a, m_b].into_iter().collect();
            (a, d0, plain2, reused, mtm.predict(&q_owned))
        });
        match r {
            Err(p) => viols.push(Violation::new("multi_logistic.predict_inplace.panic", format!("predict_inplace into a caller-owned buffer / MultiTargetModel panicked: {}", p), cj())),
            Ok((a, d0, plain2, reused, both)) => {
                out.tag("predict_inplace_buffer_checks");
                for (what, got, want) in [("pre-filled with a wrong class", &a, &pred), ("pre-filled with C::default()", &d0, &pred), ("reused from the previous batch (rows reversed)", &reused, &plain2)] {
                    if got != want {
                        let i = (0..nq).find(|&i| got[i] != want[i]).unwrap();
                        viols.push(Violation::new(
                            "multi_logistic.predict_inplace.stale_buffer",
                            format!("predict_inplace into a buffer {}: entry {} is {:?}, predict() gives {:?} (classes {:?})", what, i, got[i], want[i], classes),
                            cj(),
                        ));
                        break;
                    }
                }
                if both.dim() != (nq, 2) || (0..nq).any(|i| both[(i, 0)] != pred[i] || both[(i, 1)] != pred[i]) {
                    viols.push(Violation::new("multi_logistic.multi_target_model.wrong_labels", format!("MultiTargetModel[model, model].predict = {:?}, the single model predicts {:?}", both, pred), cj()));
                }
            }
        }
    }
    // ---- every calling form of predict and a one-row batch must agree with predict(&array) ----
    {
        let nq = queries.len();
        let q_owned = q.to_owned();
        let r = guarded(|| {
            let a: DatasetBase<Array2<$F>, Array1<C>> = model.predict(q_owned.clone());
            let b: DatasetBase<Array2<$F>, Array1<C>> = model.predict(DatasetBase::new(q_owned.clone(), Array1::<u8>::zeros(nq)));
            let dsq = DatasetBase::new(q_owned.clone(), Array1::<u8>::zeros(nq));
            let c: Array1<C> = model.predict(&dsq);
            let dsv = DatasetBase::new(q.clone(), Array1::<u8>::zeros(nq));
            let d2: Array1<C> = model.predict(&dsv);
            let one = q.slice(ndarray::s![0..1, ..]);
            let e: Array1<C> = model.predict(&one);
            let e2: DatasetBase<Array2<$F>, Array1<C>> = model.predict(one.to_owned());
            let pp = model.predict_probabilities(&one).mapv(|v| v as f64);
            (vec![("owned array", a.targets), ("owned dataset", b.targets), ("&dataset", c), ("&dataset of a view", d2)], e, e2.targets, pp)
        });
        match r {
            Err(p) => viols.push(Violation::new("multi_logistic.predict.calling_form_panic", format!("a calling form of predict panicked: {}", p), cj())),
            Ok((forms, e, e2, pp)) => {
                out.tag("predict_calling_form_checks");
                for (name, got) in &forms {
                    if got != &pred {
                        viols.push(Violation::new("multi_logistic.predict.calling_form_dependence", format!("predict({}) = {:?}, predict(&array) = {:?}", name, got, pred), cj()));
                        break;
                    }
                }
                let pp_ok = pp.dim() == (1, k) && (0..k).all(|c| (pp[(0, c)] - probs[(0, c)]).abs() <= ptol + 1e-6 * (is32 as u8 as f64));
                if e.len() != 1 || e2.len() != 1 || e[0] != pred[0] || e2[0] != pred[0] || !pp_ok {
                    viols.push(Violation::new(
                        "multi_logistic.predict.one_row_batch_differs",
                        format!("one-row batch: predict(&row) = {:?}, predict(owned row) = {:?}, probabilities {:?}; the same row inside the full batch: {:?}, {:?}", e, e2, pp, pred[0], probs.row(0)),
                        cj(),
                    ));
                }
            }
        }
    }
    for (i, qi) in queries.iter().enumerate() {
        out.queries += 1;
        let row: Vec<f64> = (0..k).map(|c| probs[(i, c)]).collect();
        // f32: rounding of the subject's own score (d products + bias) moves a probability by at most that much
        let scores: Vec<f64> = (0..k).map(|c| (0..d).map(|j| qi[j] * wm[(j, c)]).sum::<f64>() + bm[c]).collect();
        // rounding of the subject's own scores: 8 eps * (sum_j |x_j W_jc| + |b_c|), in both float types
        let _ = ulp;
        let eps_f = if is32 { 1.2e-7 } else { 2.3e-16 };
        let slog: f64 = 8.0 * eps_f * (0..k).map(|c| (0..d).map(|j| (qi[j] * wm[(j, c)]).abs()).sum::<f64>() + bm[c].abs()).fold(0.0f64, f64::max);
        // it reaches a softmax probability through a slope of at most 2 p (1 - p)
        let pref0 = refopt::softmax(&scores);
        let serr: f64 = 2.0 * slog * (0..k).map(|c| (row[c] * (1.0 - row[c])).abs().max(pref0[c] * (1.0 - pref0[c]))).fold(0.0f64, f64::max);
        let spread = scores.iter().cloned().fold(f64::NEG_INFINITY, f64::max) - scores.iter().cloned().fold(f64::INFINITY, f64::min);
        if spread > 100.0 {
            out.extreme_queries += 1;
        }
        if row.iter().any(|p| !p.is_finite() || !(0.0..=1.0).contains(p)) {
            viols.push(Violation::new("multi_logistic.predict_probabilities.out_of_range", format!("query {:?} (scores {:?}): probabilities {:?}", qi, scores, row), cj()));
            continue;
        }
        let sum: f64 = row.iter().sum();
        if (sum - 1.0).abs() > margin {
            viols.push(Violation::new("multi_logistic.predict_probabilities.row_sum", format!("query {:?}: probabilities {:?} sum to {}", qi, row, sum), cj()));
            continue;
        }
        let pref = refopt::softmax(&scores);
        if row.iter().zip(&pref).any(|(a, b)| (a - b).abs() > ptol + serr) {
            viols.push(Violation::new("multi_logistic.predict_probabilities.wrong_value", format!("query {:?}: probabilities {:?} but softmax(xW + b) = {:?}", qi, row, pref), cj()));
            continue;
        }
        let pmax = row.iter().cloned().fold(f64::NEG_INFINITY, f64::max);
        let tie: Vec<usize> = (0..k).filter(|&c| row[c] >= pmax - margin - serr).collect();
        if tie.len() > 1 {
            out.indeterminate += 1;
        }
        if !tie.iter().any(|&c| classes[c] == pred[i]) {
            viols.push(Violation::new(
                "multi_logistic.predict.class_contradicts_probability",
                format!("query {:?}: probabilities {:?} over classes {:?} but predict returned {:?}", qi, row, classes, pred[i]),
                cj(),
            ));
        }
    }
    out
}
    };
}

typed_impl!(typed_f64, f64, false);
typed_impl!(typed_f32, f32, true);
