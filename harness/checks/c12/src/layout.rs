//! Memory layouts of one logical (n x d) matrix, as handed to fit / predict / predict_probabilities.
//! Every variant is passed as a view, so the library sees exactly the strides listed here.

use ndarray::{s, Array2, ArrayView2, ShapeBuilder};

pub const LAYOUTS: [&str; 5] = ["standard", "fortran", "transposed_view", "reversed_rows_view", "every_second_row_view"];

pub struct Laid<F> {
    store: Array2<F>,
    kind: u8,
}

/// `poison` fills the rows the library must never read (every-second-row layout).
pub fn lay<F: Copy>(rows: &[Vec<F>], kind: &str, poison: F) -> Laid<F> {
    let n = rows.len();
    let d = rows[0].len();
    match kind {
        "standard" => Laid { store: Array2::from_shape_fn((n, d), |(i, j)| rows[i][j]), kind: 0 },
        // column-major owned array
        "fortran" => Laid { store: Array2::from_shape_fn((n, d).f(), |(i, j)| rows[i][j]), kind: 1 },
        // feature-major (d x n) standard array, viewed transposed
        "transposed_view" => Laid { store: Array2::from_shape_fn((d, n), |(j, i)| rows[i][j]), kind: 2 },
        // reversed copy, viewed with a negative row stride
        "reversed_rows_view" => Laid { store: Array2::from_shape_fn((n, d), |(i, j)| rows[n - 1 - i][j]), kind: 3 },
        // (2n x d) array whose odd rows hold poison, viewed with row stride 2
        "every_second_row_view" => Laid { store: Array2::from_shape_fn((2 * n, d), |(i, j)| if i % 2 == 0 { rows[i / 2][j] } else { poison }), kind: 4 },
        _ => panic!("unknown layout {}", kind),
    }
}

impl<F> Laid<F> {
    pub fn view(&self) -> ArrayView2<'_, F> {
        match self.kind {
            0 | 1 => self.store.view(),
            2 => self.store.t(),
            3 => self.store.slice(s![..;-1, ..]),
            _ => self.store.slice(s![..;2, ..]),
        }
    }
}

/// rows cycled to `n_rows` (replicated lattice), or unchanged
pub fn expand<T: Clone>(rows: &[T], n_rows: Option<usize>) -> Vec<T> {
    match n_rows {
        Some(n) => (0..n).map(|i| rows[i % rows.len()].clone()).collect(),
        None => rows.to_vec(),
    }
}
