//! Memory layouts of one logical (n x d) matrix, as handed to fit / predict / predict_probabilities.
//! Every variant is passed as a view, so the library sees exactly the strides listed here.

use ndarray::{s, Array2, ArrayView2, ShapeBuilder};

pub const LAYOUTS: [&str; 6] = ["standard", "fortran", "transposed_view", "reversed_rows_view", "every_second_row_view", "reversed_features_view"];

pub struct Laid<F> {
    store: Array2<F>,
    kind: u8,
}

/// `poison` fills the rows the library must never read (every-second-row layout).
pub fn lay<F: Copy>(rows: &[Vec<F>], kind: &str, poison: F) -> Laid<F> {
    let n = rows.len();
    let d = rows[0].len();
    match kind {
        "standard" => Laid { store: Array2::from_shape_fn((n, d), |(i, j)| rows[i][j]), kind: 0 },
        // column-major owned array
        "fortran" => Laid { store: Array2::from_shape_fn((n, d).f(), |(i, j)| rows[i][j]), kind: 1 },
        // feature-major (d x n) standard array, viewed transposed
        "transposed_view" => Laid { store: Array2::from_shape_fn((d, n), |(j, i)| rows[i][j]), kind: 2 },
        // reversed copy, viewed with a negative row stride
        "reversed_rows_view" => Laid { store: Array2::from_shape_fn((n, d), |(i, j)| rows[n - 1 - i][j]), kind: 3 },
        // (2n x d) array whose odd rows hold poison, viewed with row stride 2
        "every_second_row_view" => Laid { store: Array2::from_shape_fn((2 * n, d), |(i, j)| if i % 2 == 0 { rows[i / 2][j] } else { poison }), kind: 4 },
        // copy with the feature axis reversed, viewed with a negative column stride ("contiguous" in memory order)
        "reversed_features_view" => Laid { store: Array2::from_shape_fn((n, d), |(i, j)| rows[i][d - 1 - j]), kind: 5 },
        _ => panic!("unknown layout {}", kind),
    }
}

impl<F> Laid<F> {
    pub fn view(&self) -> ArrayView2<'_, F> {
        match self.kind {
            0 | 1 => self.store.view(),
            2 => self.store.t(),
            3 => self.store.slice(s![..;-1, ..]),
            4 => self.store.slice(s![..;2, ..]),
            _ => self.store.slice(s![.., ..;-1]),
        }
    }
}

/// rows cycled to `n_rows` (replicated lattice), or unchanged
pub fn expand<T: Clone>(rows: &[T], n_rows: Option<usize>) -> Vec<T> {
    match n_rows {
        Some(n) => (0..n).map(|i| rows[i % rows.len()].clone()).collect(),
        None => rows.to_vec(),
    }
}

pub const TARGET_LAYOUTS: [&str; 4] = ["standard", "reversed_view", "stepped_view", "owned_inverted"];

/// Storage behind one logical 1-D target vector in the layouts above. `filler(i)` gives the value of the entry
/// the library must never read (stepped view), placed after logical entry i.
pub struct LaidT<C> {
    store: ndarray::Array1<C>,
    kind: u8,
}

pub fn lay_targets<C: Clone>(vals: &[C], kind: &str, filler: &dyn Fn(usize) -> C) -> LaidT<C> {
    let n = vals.len();
    match kind {
        "standard" => LaidT { store: ndarray::Array1::from(vals.to_vec()), kind: 0 },
        "reversed_view" => LaidT { store: ndarray::Array1::from(vals.iter().rev().cloned().collect::<Vec<C>>()), kind: 1 },
        "stepped_view" => LaidT { store: ndarray::Array1::from((0..2 * n).map(|i| if i % 2 == 0 { vals[i / 2].clone() } else { filler(i / 2) }).collect::<Vec<C>>()), kind: 2 },
        // OWNED array whose only axis has stride -1
        "owned_inverted" => {
            let mut a = ndarray::Array1::from(vals.iter().rev().cloned().collect::<Vec<C>>());
            a.invert_axis(ndarray::Axis(0));
            LaidT { store: a, kind: 3 }
        }
        _ => panic!("unknown target layout {}", kind),
    }
}

impl<C: Clone> LaidT<C> {
    pub fn view(&self) -> ndarray::ArrayView1<'_, C> {
        match self.kind {
            1 => self.store.slice(s![..;-1]),
            2 => self.store.slice(s![..;2]),
            _ => self.store.view(),
        }
    }
    /// the owned array itself (owned_inverted: negative stride kept)
    pub fn owned(&self) -> ndarray::Array1<C> {
        self.store.clone()
    }
    pub fn is_owned_kind(&self) -> bool {
        self.kind == 0 || self.kind == 3
    }
}
