//! C12 — logistic and Tweedie regression return stationary points; probabilities valid.
//! Exhaustive sweep (DESIGN.md §4 C12): every two-class labeling of small 1-D / 2-D lattices x
//! label type x naming x sample order x feature scale x alpha x intercept x initial parameters;
//! every partition of the lattice points into 2..4 classes for the multinomial model; a full
//! factorial catalogue of Tweedie problems (power x link x alpha x intercept x every target vector
//! over a small alphabet) plus every single-position excursion of a target out of the support.
//! Oracle: own f64 gradient of the DOCUMENTED objective at the returned parameters, cross-checked
//! by an own damped Newton solve (a case is a violation only if both disagree).

mod binary;
mod child;
mod layout;
mod multi;
mod refopt;
mod tweedie;

use binary::BinCase;
use lvmc_core::{json, par_sweep, Ctx, Level, Value, Violation};
use multi::MultiCase;
use serde::{Deserialize, Serialize};
use std::collections::BTreeMap;
use std::sync::Mutex;
use tweedie::TwCase;

#[derive(Clone, Debug, Serialize, Deserialize)]
#[serde(tag = "kind")]
pub enum Case {
    Binary(BinCase),
    Multi(MultiCase),
    Tweedie(TwCase),
}

/// Per-case bookkeeping returned by the three runners.
#[derive(Default)]
pub struct Out {
    pub ood: bool,
    pub nontrivial: bool,
    pub indeterminate: u64,
    pub queries: u64,
    pub extreme_queries: u64,
    pub max_own_score: f64,
    pub tags: BTreeMap<String, u64>,
    /// bit patterns of the fitted parameters and default-threshold probabilities / predictions (builder-history comparison)
    pub fingerprint: Vec<u64>,
}

impl Out {
    pub fn tag(&mut self, t: &str) {
        *self.tags.entry(t.to_string()).or_insert(0) += 1;
    }
}

pub fn std_layout() -> String {
    "standard".to_string()
}
pub fn default_ctor() -> String {
    "default".to_string()
}
pub fn f64_name() -> String {
    "f64".to_string()
}

/// A violation that the standard-layout run of the same case does not show: `<model>.<call>.layout_dependence`.
pub fn as_layout_dependence(v: Violation, fit_layout: &str, query_layout: &str) -> Violation {
    let mut parts = v.sig.split('.');
    let head: Vec<&str> = vec![parts.next().unwrap_or("c12"), parts.next().unwrap_or("call")];
    Violation::new(
        format!("{}.{}.layout_dependence", head[0], head[1]),
        format!("the standard-layout run of this case passes every check; with records layout '{}' / query layout '{}': [{}] {}", fit_layout, query_layout, v.sig, v.what),
        v.case,
    )
}

static IN_CHILD: std::sync::atomic::AtomicBool = std::sync::atomic::AtomicBool::new(false);
/// CPU-time limit of a whole logistic case evaluated in a child process (f32 cases)
const CASE_CHILD_LIMIT_MS: u64 = 1500;
static MAX_CASE_CHILD_MS: std::sync::atomic::AtomicU64 = std::sync::atomic::AtomicU64::new(0);

fn run_case(case: &Case, viols: &mut Vec<Violation>) -> Out {
    let in_child = IN_CHILD.load(std::sync::atomic::Ordering::Relaxed);
    match case {
        // f32 logistic fits were observed not to return (endless line search): the whole case runs in a child
        Case::Binary(c) if c.float == "f32" && !in_child => run_case_isolated(case, "logistic", viols),
        Case::Multi(c) if c.float == "f32" && !in_child => run_case_isolated(case, "multi_logistic", viols),
        Case::Binary(c) => binary::run(c, viols),
        Case::Multi(c) => multi::run(c, viols),
        Case::Tweedie(c) => tweedie::run(c, viols),
    }
}

/// child side of `run_case_isolated`
fn case_child_main(case_json: &str) -> ! {
    std::panic::set_hook(Box::new(|_| {}));
    IN_CHILD.store(true, std::sync::atomic::Ordering::Relaxed);
    let case: Case = serde_json::from_str(case_json).expect("case json");
    let mut v = Vec::new();
    let o = run_case(&case, &mut v);
    let viols: Vec<Value> = v.iter().map(|x| json!({"sig": x.sig, "what": x.what})).collect();
    println!(
        "{}",
        json!({"ood": o.ood, "nontrivial": o.nontrivial, "indeterminate": o.indeterminate, "queries": o.queries, "extreme": o.extreme_queries,
               "max_own_score": o.max_own_score, "tags": o.tags, "viols": viols})
    );
    std::process::exit(0);
}

fn run_case_isolated(case: &Case, model: &str, viols: &mut Vec<Violation>) -> Out {
    let cj = serde_json::to_value(case).unwrap();
    let mut out = Out::default();
    match child::run_child(&["--run-case".to_string(), cj.to_string()], CASE_CHILD_LIMIT_MS) {
        None => {
            viols.push(Violation::new(
                format!("{}.fit.does_not_terminate.f32", model),
                format!("evaluating this f32 case (fit, then predictions) in a child process was still running after {} ms of CPU time (healthy cases of this size need < 50 ms; the f64 run of the same data returns)", CASE_CHILD_LIMIT_MS),
                cj,
            ));
            out.tag("f32_case_children_killed_at_cpu_limit");
        }
        Some((stdout, cpu, code)) => {
            MAX_CASE_CHILD_MS.fetch_max(cpu, std::sync::atomic::Ordering::Relaxed);
            let v: Value = match serde_json::from_str(stdout.trim()) {
                Ok(v) => v,
                Err(_) => {
                    viols.push(Violation::new(format!("{}.fit.panic", model), format!("the child evaluating this case died without an answer (exit {:?})", code), cj));
                    return out;
                }
            };
            out.ood = v["ood"].as_bool().unwrap_or(false);
            out.nontrivial = v["nontrivial"].as_bool().unwrap_or(false);
            out.indeterminate = v["indeterminate"].as_u64().unwrap_or(0);
            out.queries = v["queries"].as_u64().unwrap_or(0);
            out.extreme_queries = v["extreme"].as_u64().unwrap_or(0);
            out.max_own_score = v["max_own_score"].as_f64().unwrap_or(0.0);
            if let Some(t) = v["tags"].as_object() {
                for (k, c) in t {
                    *out.tags.entry(k.clone()).or_insert(0) += c.as_u64().unwrap_or(0);
                }
            }
            if let Some(a) = v["viols"].as_array() {
                for x in a {
                    viols.push(Violation::new(x["sig"].as_str().unwrap_or("?"), x["what"].as_str().unwrap_or(""), cj.clone()));
                }
            }
        }
    }
    out
}

fn replay_value(v: &Value) -> Vec<Violation> {
    let c: Case = match serde_json::from_value(v.clone()) {
        Ok(c) => c,
        Err(e) => {
            println!("MACHINERY-ERROR replay case does not parse: {}", e);
            std::process::exit(2);
        }
    };
    let mut out = Vec::new();
    run_case(&c, &mut out);
    out
}

#[derive(Default)]
struct Tally {
    cases: u64,
    queries: u64,
    extreme: u64,
    max_own_score: f64,
    tags: BTreeMap<String, u64>,
}

fn record(ctx: &Ctx, local: &mut Tally, o: Out, viols: Vec<Violation>) {
    if o.ood {
        ctx.out_of_domain();
    } else {
        ctx.eval(o.nontrivial);
    }
    for _ in 0..o.indeterminate {
        ctx.indeterminate();
    }
    local.cases += 1;
    local.queries += o.queries;
    local.extreme += o.extreme_queries;
    if o.max_own_score > local.max_own_score {
        local.max_own_score = o.max_own_score;
    }
    for (t, c) in o.tags {
        *local.tags.entry(t).or_insert(0) += c;
    }
    ctx.violations(viols);
}

fn merge(tally: &Mutex<Tally>, local: Tally) {
    let mut t = tally.lock().unwrap();
    t.cases += local.cases;
    t.queries += local.queries;
    t.extreme += local.extreme;
    if local.max_own_score > t.max_own_score {
        t.max_own_score = local.max_own_score;
    }
    for (k, v) in local.tags {
        *t.tags.entry(k).or_insert(0) += v;
    }
}

fn gcd(a: usize, b: usize) -> usize {
    if b == 0 {
        a
    } else {
        gcd(b, a % b)
    }
}

fn orders(n: usize, which: &[&'static str]) -> Vec<(&'static str, Vec<usize>)> {
    which
        .iter()
        .map(|&w| {
            let p: Vec<usize> = match w {
                "identity" => (0..n).collect(),
                "reversed" => (0..n).rev().collect(),
                "interleaved" => (0..n).step_by(2).chain((1..n).step_by(2)).collect(),
                _ => panic!(),
            };
            (w, p)
        })
        .collect()
}

/// restricted growth strings: every partition of n items into exactly k blocks
fn partitions(n: usize, k: usize) -> Vec<Vec<u8>> {
    fn rec(n: usize, k: usize, cur: &mut Vec<u8>, mx: u8, out: &mut Vec<Vec<u8>>) {
        if cur.len() == n {
            if mx as usize == k {
                out.push(cur.clone());
            }
            return;
        }
        for v in 0..=(mx.min(k as u8 - 1)) {
            cur.push(v);
            rec(n, k, cur, mx.max(v + 1), out);
            cur.pop();
        }
    }
    let mut out = Vec::new();
    rec(n, k, &mut Vec::new(), 0, &mut out);
    out
}

struct BinGroup {
    idx: usize,
    family: &'static str,
    pts: Vec<Vec<f64>>,
    mask: u32,
    scale: f64,
}
struct MultiGroup {
    idx: usize,
    family: &'static str,
    pts: Vec<Vec<f64>>,
    k: usize,
    part: Vec<u8>,
    scale: f64,
    alpha: f64,
}

const SCALES: [f64; 3] = [1.0, 10.0, 100.0];
const ALPHAS: [f64; 4] = [0.0, 0.01, 1.0, 100.0];
const GTOL: f64 = 1e-4;
/// "large": ten times the library default of 100 (healthy fits of these 1..12-parameter problems need < 300)
const MAX_ITER: u64 = 1000;
/// a logistic fit that fails the stationarity test at MAX_ITER is refitted with this cap and judged on the refit
/// (ill-conditioned scale-100 problems legitimately need a few thousand L-BFGS iterations)
const RETRY_MAX_ITER: u64 = 5_000;
/// Tweedie problems have 1..3 parameters (healthy fits need < 100 iterations): three times the default
const TW_MAX_ITER: usize = 300;

fn main() {
    // child mode of the isolated Tweedie fit (see tweedie::fit_isolated)
    {
        let args: Vec<String> = std::env::args().collect();
        if args.len() == 3 && args[1] == "--fit-one" {
            tweedie::child_main(&args[2]);
        }
        if args.len() == 3 && args[1] == "--run-case" {
            case_child_main(&args[2]);
        }
    }
    let ctx = Ctx::new("C12", Level::Exploration);
    ctx.maybe_replay(&replay_value);
    // development aid only: C12_ONLY=binary|multi|tweedie runs one family (and marks the run as capped)
    let only = std::env::var("C12_ONLY").ok();
    let want = |fam: &str| only.as_deref().map_or(true, |o| o == fam);
    if only.is_some() {
        ctx.capped("C12_ONLY set: partial development run");
    }
    ctx.set_rule(
        "binary: 1-D lattice {0..n-1}, 1-D lattice with every point doubled, 2-D lattice 3x2 (quick, n=6) / 4x2 (thorough, n=8); EVERY labeling with both classes present (2^n - 2) \
         x sample order {identity, reversed, interleaved} x feature scale {1,10,100} x alpha {0,.01,1,100} x intercept {on,off} x initial parameters {none, given} \
         x {label type {bool, usize, &str, String} x 2 namings (which literal values the two groups get): thorough = all eight, quick = two per fit (one of each naming) cycling along the enumeration}; labelings that are weakly linearly separable (own exact integer test, with / without intercept as fitted) \
         are out of domain for alpha = 0 and in domain for alpha > 0. multinomial: EVERY partition of the n = 6 (quick) / 7 (thorough) points of the 1-D and 2-D lattice into exactly k = 2,3,4 classes \
         (restricted growth strings) x scale x alpha x intercept x init x {label type {usize, &str, String} x 2 namings (class values in / not in block order): thorough = 3 sample orders and two of the six label variants per fit, \
         quick = identity order and one label variant per fit, cycling along the enumeration}; alpha = 0 cases without a certified finite maximiser (own Newton) are out of domain. \
         Tweedie: power {0,1,1.5,2,3} x link {identity, log, logit} x alpha {0,.1,1} x intercept {on,off} x EVERY target vector over a 3-letter alphabet inside the support on a 1-D design (4 points quick / 5 thorough) \
         and over a 2-letter (quick) / 3-letter (thorough) alphabet on the 6-point 2-D design, plus every single-position replacement of a target by a value outside the support. \
         evaluations = in-domain fits (one per case); non-trivial = the fit returned parameters different from its start (non-zero weights) or an out-of-support rejection was demanded; \
         every fitted model is additionally queried on the training points, the origin and extreme points with |x.w| in {1,20,40,710,1000} (counted as prediction_queries). \
         Hardening families (same runners and oracles): (a) LAYOUTS - records of fit and of predict / predict_probabilities as column-major owned array, transposed view of a feature-major array, reversed-row view of a reversed copy, \
         every-second-row view of a larger array with NaN filler rows, each compared with the standard-layout run of the same case (subset: every 5th / every labeling of the 6-point lattices x scale {1,100} x alpha x intercept for the binary model, \
         every 13th / 3rd partition for the multinomial model, every 27th / 5th target vector for 5 (power, link) pairs of the Tweedie model); (b) SIZES - the 6-point lattices / 5- and 6-point designs cycled to n in {1025, 4097} rows for 2 / 4 labelings, 3 partitions, 1..2 targets per (power, link), \
         x scale x alpha x intercept, in standard and one non-standard layout (all n training rows are also prediction queries); (d) BUILDER HISTORY - every order of the setters (logistic: alpha, with_intercept, max_iterations, gradient_tolerance, initial_params = 120 orders; Tweedie: alpha, fit_intercept, power, link, max_iter, tol = 720 orders) \
         x {plain, every field first written with a decoy value} x constructors {default, new (, params)} on 2 binary, 2 multinomial and 6 Tweedie problems: the parameter object must equal (PartialEq and Debug) that of the canonical history / the checked Tweedie getters must publish the final logical set, \
         and the fit must be bit-identical to the canonical history's (Tweedie: for every 24th / 3rd order); additionally EVERY fitted binary / multinomial model is called through predict_inplace on a buffer pre-filled with wrong classes, with C::default(), and reused from a previous batch, and through MultiTargetModel; Tweedie predict_inplace on a NaN-filled buffer. \
         (e) ROUTING - every non-empty subset of the setters NOT called at all (63 Tweedie x power, 31 logistic subsets), judged against the documented defaults (Tweedie link: identity for power <= 0, log otherwise); \
         target arrays as reversed view / stepped view with wrong-class filler / owned array with stride -1, label naming through DatasetBase::map_targets next to building the dataset with the names, feature scale 0.125, \
         12-sample problems with 4, 5, 7, 9 features incl. a reversed feature axis; every fitted model is also called through predict(owned array), predict(owned dataset), predict(&dataset), predict(&dataset of a view) and on a one-row batch. \
         (c) F32 - every labeling of two 6-point lattices (binary), every 5th / every partition (multinomial), every 27th / 5th target (Tweedie) at scale 1 with f32 records, parameters and predictions.",
    );
    ctx.assume("documented objectives (rustdoc of logistic_loss / multi_logistic_loss / TweedieProblem::cost): binary -sum_i log sigm(y_i z_i) + alpha/2 w.w; multinomial -sum(Y*log softmax(XW+b)) + alpha/2 ||W||_F^2; Tweedie 1/2 (sum_i unit_deviance(y_i, mu_i) + alpha w.w) with the textbook unit deviance the comments in distribution.rs quote; sums not means; the intercept is never penalised");
    ctx.assume("stationarity oracle: own f64 gradient norm at the returned parameters <= 10 x gradient_tolerance (1e-4; logistic models: max_iterations 1000 = 10 x default, and a fit that fails the test is refitted with max_iterations 5000 and judged on that refit; Tweedie: max_iter 300 = 3 x default for 1..3 parameters) OR objective within 1e-8 * max(1,|J*|) of the own damped-Newton minimum (logistic: from zero, convex; Tweedie: Newton descent started at the returned point); a violation needs BOTH to fail");
    ctx.assume("domain, alpha = 0: binary by an exact integer cone test (no non-zero (w,b) with y_i (x_i.w+b) >= 0 for all i; quasi-complete separation counts as separable because no finite maximiser exists); multinomial by an own Newton solve from zero that reaches gradient norm <= 1e-10*max|x| with all score spreads <= 15");
    ctx.assume("Tweedie domain: targets inside the support; the documented start (coef 0, intercept link(mean y)) has a finite objective; an own Newton solve from that start certifies an interior stationary point with |linear predictor| <= 30; everything else is counted out_of_domain");
    ctx.assume("every Tweedie fit (and the predictions of the fitted model) runs in a child process of this binary and must return before it has used 1500 ms of CPU time (largest CPU time of a returning child is in the evidence): a library call that never returns cannot be interrupted in-process. Identity link with power >= 1: the deviance is undefined for linear predictors <= 0, so an Err from the solver is accepted there (counted); returned parameters must still be stationary");
    ctx.assume("probabilities: finite, in [0,1], equal to the own sigmoid / softmax of x.w+b within 1e-9, multinomial rows sum to 1 within 1e-9; decision: binary class must follow p > threshold outside a 1e-9 margin (inside: indeterminate), except that p bit-equal to the threshold must give the positive class ('minimum probability needed', rustdoc); multinomial: any class within 1e-9 of the row maximum is accepted");
    ctx.assume("which of the two classes is coded +1 is NOT demanded (rustdoc of label_classes says 'larger by PartialOrd', the existing test simple_example_1 pins 'more frequent, first seen on ties'): the oracle reads the coding from labels() and only demands the class SET; both rules are tallied in the evidence");
    ctx.assume("layout families: a violation that the standard-layout run of the same case does not show is reported as <model>.<call>.layout_dependence; the comparison is through the same oracles (stationarity of each fit, probabilities against the own sigmoid / softmax within 1e-9), not bit-wise, because ndarray's dot may sum in a different order for other strides");
    ctx.assume("f32 tolerances: probabilities 2e-6 (+ the rounding of the subject's own score, 1.2e-7 * (d+1) * sum |q_j w_j|, multinomial), tie margin 1e-6, objective gap 1e-5 relative (40 ulp of an f32 cost), gradient threshold 10 x tol + 1e-5 * sum_i |z_i|; own reference computed in f64 from the data, alpha and parameters as rounded to f32; f32 logistic cases run in a child process with a 1500 ms CPU limit (a hang was observed)");
    ctx.assume("Tweedie predictions: range of the link is taken closed (exp may saturate to 0 / +inf at |x.w| ~ 1e3), values equal the own inverse link within 1e-9 (f32: 2e-6) relative to |prediction| + |slope of the inverse link| * (d+1) * (sum |q_j coef_j| + |intercept|)");

    let tally = Mutex::new(Tally::default());

    // ------------------------------------------------------------------ binary
    let nb = ctx.pick(6usize, 8usize);
    let mut lattices: Vec<(&'static str, Vec<Vec<f64>>)> = Vec::new();
    lattices.push(("1d", (0..nb).map(|i| vec![i as f64]).collect()));
    lattices.push(("1d_doubled", (0..nb).map(|i| vec![(i / 2) as f64]).collect()));
    lattices.push(("2d", (0..nb).map(|i| vec![(i / 2) as f64, (i % 2) as f64]).collect()));
    let mut bgroups: Vec<BinGroup> = Vec::new();
    if want("binary") {
        for (fam, pts) in &lattices {
            for mask in 1..(1u32 << nb) - 1 {
                for &scale in &SCALES {
                    let idx = bgroups.len();
                    bgroups.push(BinGroup { idx, family: fam, pts: pts.clone(), mask, scale });
                }
            }
        }
    }
    let label_variants: Vec<(&'static str, u8)> = vec![("bool", 0), ("bool", 1), ("usize", 0), ("usize", 1), ("str", 0), ("str", 1), ("string", 0), ("string", 1)];
    let bin_orders = orders(nb, &["identity", "reversed", "interleaved"]);
    let per_bgroup = ctx.pick(2, label_variants.len()) * bin_orders.len() * ALPHAS.len() * 2 * 2;
    let bin_expected = (bgroups.len() * per_bgroup) as u64;
    par_sweep(&ctx, "binary logistic", &bgroups, |g| {
        let mut local = Tally::default();
        let scale = g.scale;
        let mut cfg = 0usize;
        for (oname, perm) in &bin_orders {
            let x: Vec<Vec<f64>> = perm.iter().map(|&i| g.pts[i].iter().map(|v| v * scale).collect()).collect();
            let groups: Vec<u8> = perm.iter().map(|&i| ((g.mask >> i) & 1) as u8).collect();
            let d = x[0].len();
            for &alpha in &ALPHAS {
                for intercept in [true, false] {
                    for given in [false, true] {
                        let init = if given {
                            let mut v: Vec<f64> = (0..d).map(|j| if j % 2 == 0 { 0.1 / scale } else { -0.05 / scale }).collect();
                            if intercept {
                                v.push(-0.2);
                            }
                            Some(v)
                        } else {
                            None
                        };
                        cfg += 1;
                        // quick: two of the eight label variants per fit (one of each naming), cycling along the enumeration
                        let chosen: Vec<(&'static str, u8)> = if ctx.quick() {
                            let t = (g.idx + cfg) % 4;
                            vec![label_variants[2 * t], label_variants[2 * ((t + 1 + cfg / 4) % 4) + 1]]
                        } else {
                            label_variants.clone()
                        };
                        for (lt, naming) in &chosen {
                            let case = Case::Binary(BinCase {
                                family: g.family.to_string(),
                                x: x.clone(),
                                groups: groups.clone(),
                                label_type: lt.to_string(),
                                naming: *naming,
                                alpha,
                                intercept,
                                init: init.clone(),
                                gtol: GTOL,
                                max_iter: MAX_ITER,
                                retry_max_iter: RETRY_MAX_ITER,
                                order: oname.to_string(),
                                scale,
                                n_rows: None, fit_layout: std_layout(), query_layout: std_layout(), float: f64_name(), setter_order: None, decoys: false, ctor: default_ctor(), skip_setters: vec![], target_layout: std_layout(), naming_via_map_targets: false, init_rows_delta: 0,
                            });
                            let mut v = Vec::new();
                            let o = run_case(&case, &mut v);
                            record(&ctx, &mut local, o, v);
                            ctx.sample(|| serde_json::to_value(&case).unwrap());
                        }
                    }
                }
            }
        }
        merge(&tally, local);
    });
    let bin_done = tally.lock().unwrap().cases;
    ctx.extra("binary_sweep_wall_s", json!((ctx.elapsed() * 10.0).round() / 10.0));
    ctx.extra("binary_cases_enumerated", json!(bin_expected));
    ctx.extra("binary_cases_run", json!(bin_done));

    // ------------------------------------------------------------------ multinomial
    let nm = ctx.pick(6usize, 7usize);
    let mlattices: Vec<(&'static str, Vec<Vec<f64>>)> = vec![
        ("1d", (0..nm).map(|i| vec![i as f64]).collect()),
        ("2d", (0..nm).map(|i| vec![(i / 2) as f64, (i % 2) as f64]).collect()),
    ];
    let mut mgroups: Vec<MultiGroup> = Vec::new();
    let mut n_partitions = 0u64;
    for k in 2..=4usize {
        let parts = partitions(nm, k);
        n_partitions += parts.len() as u64;
        if !want("multi") {
            continue;
        }
        for (fam, pts) in &mlattices {
            for p in &parts {
                for &scale in &SCALES {
                    for &alpha in &ALPHAS {
                        let idx = mgroups.len();
                        mgroups.push(MultiGroup { idx, family: fam, pts: pts.clone(), k, part: p.clone(), scale, alpha });
                    }
                }
            }
        }
    }
    let m_orders = if ctx.quick() { orders(nm, &["identity"]) } else { orders(nm, &["identity", "reversed", "interleaved"]) };
    let m_labels: Vec<(&'static str, u8)> = vec![("usize", 0), ("usize", 1), ("str", 0), ("str", 1), ("string", 0), ("string", 1)];
    let variants_per_fit = ctx.pick(1usize, 2usize);
    let per_mgroup = variants_per_fit * m_orders.len() * 2 * 2;
    let multi_expected = (mgroups.len() * per_mgroup) as u64;
    par_sweep(&ctx, "multinomial logistic", &mgroups, |g| {
        let mut local = Tally::default();
        let (scale, alpha) = (g.scale, g.alpha);
        let mut cfg = 0usize;
        for (oname, perm) in &m_orders {
            let x: Vec<Vec<f64>> = perm.iter().map(|&i| g.pts[i].iter().map(|v| v * scale).collect()).collect();
            let groups: Vec<u8> = perm.iter().map(|&i| g.part[i]).collect();
            let d = x[0].len();
            for intercept in [true, false] {
                for given in [false, true] {
                    let pz = d + intercept as usize;
                    let init = if given {
                        Some(
                            (0..pz)
                                .map(|i| (0..g.k).map(|c| (((i + 2 * c) % 3) as f64 - 1.0) * 0.1 / if i < d { scale } else { 1.0 }).collect::<Vec<f64>>())
                                .collect::<Vec<_>>(),
                        )
                    } else {
                        None
                    };
                    cfg += 1;
                    // one (quick) / two (thorough, one of each naming) of the six label variants per fit, cycling
                    let t = (g.idx * 5 + cfg) % m_labels.len();
                    let chosen: Vec<(&'static str, u8)> = if ctx.quick() { vec![m_labels[t]] } else { vec![m_labels[t], m_labels[(t + 3 + 2 * (cfg % 2)) % m_labels.len()]] };
                    for (lt, naming) in &chosen {
                        let case = Case::Multi(MultiCase {
                            family: g.family.to_string(),
                            x: x.clone(),
                            groups: groups.clone(),
                            k: g.k,
                            label_type: lt.to_string(),
                            naming: *naming,
                            alpha,
                            intercept,
                            init: init.clone(),
                            gtol: GTOL,
                            max_iter: MAX_ITER,
                            retry_max_iter: RETRY_MAX_ITER,
                            order: oname.to_string(),
                            scale,
                            n_rows: None, fit_layout: std_layout(), query_layout: std_layout(), float: f64_name(), setter_order: None, decoys: false, ctor: default_ctor(), skip_setters: vec![], target_layout: std_layout(), naming_via_map_targets: false, init_rows_delta: 0, init_cols_delta: 0,
                        });
                        let mut v = Vec::new();
                        let o = run_case(&case, &mut v);
                        record(&ctx, &mut local, o, v);
                        ctx.sample(|| serde_json::to_value(&case).unwrap());
                    }
                }
            }
        }
        merge(&tally, local);
    });
    let multi_done = tally.lock().unwrap().cases - bin_done;
    ctx.extra("binary_plus_multinomial_sweep_wall_s", json!((ctx.elapsed() * 10.0).round() / 10.0));
    ctx.extra("multinomial_partitions", json!(n_partitions));
    ctx.extra("multinomial_cases_enumerated", json!(multi_expected));
    ctx.extra("multinomial_cases_run", json!(multi_done));

    // ------------------------------------------------------------------ Tweedie
    let n1 = ctx.pick(4usize, 5usize);
    let design1: Vec<Vec<f64>> = (0..n1).map(|i| vec![i as f64 * 0.5]).collect();
    let design2: Vec<Vec<f64>> = (0..6).map(|i| vec![(i / 2) as f64 * 0.5, (i % 2) as f64]).collect();
    let alphabet = |p: f64, link: &str| -> [f64; 3] {
        if link == "logit" {
            [0.2, 0.5, 0.9]
        } else if p == 0.0 {
            [-1.0, 0.5, 2.0]
        } else if p < 2.0 {
            [0.0, 1.0, 3.0]
        } else {
            [0.5, 1.0, 3.0]
        }
    };
    let powers = [0.0, 1.0, 1.5, 2.0, 3.0];
    let links = ["identity", "log", "logit"];
    let tw_alphas = [0.0, 0.1, 1.0];
    let mut tcases: Vec<Case> = Vec::new();
    let mut n_targets = 0u64;
    if want("tweedie") {
        for &p in &powers {
            for link in links {
                let letters = alphabet(p, link);
                let mut targets: Vec<(&'static str, &Vec<Vec<f64>>, Vec<f64>)> = Vec::new();
                for seq in lvmc_core::enumerate::sequences(n1, 3) {
                    targets.push(("1d", &design1, seq.iter().map(|&i| letters[i]).collect()));
                }
                let a2 = ctx.pick(2usize, 3usize);
                for seq in lvmc_core::enumerate::sequences(6, a2) {
                    // the 2-letter quick alphabet uses the first and the last letter
                    targets.push(("2d", &design2, seq.iter().map(|&i| if a2 == 2 { letters[i * 2] } else { letters[i] }).collect()));
                }
                n_targets += targets.len() as u64;
                for (fam, pts, y) in targets {
                    for &alpha in &tw_alphas {
                        for intercept in [true, false] {
                            tcases.push(Case::Tweedie(TwCase { family: fam.to_string(), x: pts.clone(), y: y.clone(), power: p, link: link.to_string(), alpha, intercept, tol: GTOL, max_iter: TW_MAX_ITER, n_rows: None, fit_layout: std_layout(), query_layout: std_layout(), float: f64_name(), setter_order: None, decoys: false, ctor: default_ctor(), builder_fit: false, skip_setters: vec![], target_layout: std_layout() }));
                        }
                    }
                }
            }
        }
    }
    // targets outside the support: every position x every bad value, on a fixed in-support base vector
    let mut n_range = 0u64;
    if want("tweedie") {
        for &p in &powers[1..] {
            let bads: Vec<f64> = if p < 2.0 { vec![-1.0, -1e-9] } else { vec![-1.0, -1e-9, 0.0] };
            for link in links {
                for intercept in [true, false] {
                    for (fam, pts) in [("1d", &design1), ("2d", &design2)] {
                        for pos in 0..pts.len() {
                            for &bad in &bads {
                                let mut y: Vec<f64> = (0..pts.len()).map(|i| if link == "logit" { 0.25 + 0.125 * i as f64 } else { 0.5 + i as f64 }).collect();
                                y[pos] = bad;
                                n_range += 1;
                                tcases.push(Case::Tweedie(TwCase { family: fam.to_string(), x: pts.clone(), y, power: p, link: link.to_string(), alpha: 0.1, intercept, tol: GTOL, max_iter: TW_MAX_ITER, n_rows: None, fit_layout: std_layout(), query_layout: std_layout(), float: f64_name(), setter_order: None, decoys: false, ctor: default_ctor(), builder_fit: false, skip_setters: vec![], target_layout: std_layout() }));
                            }
                        }
                    }
                }
            }
        }
    }
    // deterministic interleaving (stride permutation): the few fits that hit the child-process timeout are
    // spread over all worker threads instead of queueing up behind each other
    {
        let n = tcases.len();
        let mut stride = 7919 % n.max(1);
        while n > 1 && gcd(stride.max(1), n) != 1 {
            stride += 1;
        }
        let perm: Vec<Case> = (0..n).map(|i| tcases[(i * stride.max(1)) % n].clone()).collect();
        tcases = perm;
    }
    par_sweep(&ctx, "tweedie", &tcases, |case| {
        let mut local = Tally::default();
        let mut v = Vec::new();
        let o = run_case(case, &mut v);
        record(&ctx, &mut local, o, v);
        ctx.sample(|| serde_json::to_value(case).unwrap());
        merge(&tally, local);
    });
    let tw_done_pre = tally.lock().unwrap().cases - bin_done - multi_done;

    // ------------------------------------------------------------------ hardening families:
    // (a) memory layouts of the records for fit / predict / predict_probabilities, (b) replicated lattices with
    // n in {1025, 4097} rows, (c) f32. Same runners, same oracles; only the enumerated space is wider.
    let mut hcases: Vec<Case> = Vec::new();
    let (mut n_layout, mut n_large, mut n_f32) = (0u64, 0u64, 0u64);
    let lat6: Vec<(&'static str, Vec<Vec<f64>>)> = vec![
        ("1d", (0..6).map(|i| vec![i as f64]).collect()),
        ("1d_doubled", (0..6).map(|i| vec![(i / 2) as f64]).collect()),
        ("2d", (0..6).map(|i| vec![(i / 2) as f64, (i % 2) as f64]).collect()),
    ];
    let mk_bin = |fam: &str, pts: &Vec<Vec<f64>>, mask: u32, scale: f64, alpha: f64, intercept: bool| BinCase {
        family: fam.to_string(),
        x: pts.iter().map(|r| r.iter().map(|v| v * scale).collect()).collect(),
        groups: (0..pts.len()).map(|i| ((mask >> i) & 1) as u8).collect(),
        label_type: "usize".into(),
        naming: 1,
        alpha,
        intercept,
        init: None,
        gtol: GTOL,
        max_iter: MAX_ITER,
        retry_max_iter: RETRY_MAX_ITER,
        order: "identity".into(),
        scale,
        n_rows: None,
        fit_layout: std_layout(),
        query_layout: std_layout(),
        float: f64_name(),
        setter_order: None,
        decoys: false,
        ctor: default_ctor(),
        skip_setters: vec![],
        target_layout: std_layout(),
        naming_via_map_targets: false,
        init_rows_delta: 0,
    };
    let mk_multi = |fam: &str, pts: &Vec<Vec<f64>>, part: &Vec<u8>, k: usize, scale: f64, alpha: f64, intercept: bool| MultiCase {
        family: fam.to_string(),
        x: pts.iter().map(|r| r.iter().map(|v| v * scale).collect()).collect(),
        groups: part.clone(),
        k,
        label_type: "str".into(),
        naming: 1,
        alpha,
        intercept,
        init: None,
        gtol: GTOL,
        max_iter: MAX_ITER,
        retry_max_iter: RETRY_MAX_ITER,
        order: "identity".into(),
        scale,
        n_rows: None,
        fit_layout: std_layout(),
        query_layout: std_layout(),
        float: f64_name(),
        setter_order: None,
        decoys: false,
        ctor: default_ctor(),
        skip_setters: vec![],
        target_layout: std_layout(),
        naming_via_map_targets: false,
        init_rows_delta: 0,
        init_cols_delta: 0,
    };
    let tw_pairs: [(f64, &str); 5] = [(0.0, "identity"), (1.0, "log"), (1.5, "log"), (2.0, "log"), (3.0, "logit")];
    let design_h1: Vec<Vec<f64>> = (0..5).map(|i| vec![i as f64 * 0.5]).collect();
    let mk_tw = |fam: &str, pts: &Vec<Vec<f64>>, y: Vec<f64>, p: f64, link: &str, alpha: f64, intercept: bool| TwCase {
        family: fam.to_string(),
        x: pts.clone(),
        y,
        power: p,
        link: link.to_string(),
        alpha,
        intercept,
        tol: GTOL,
        max_iter: TW_MAX_ITER,
        n_rows: None,
        fit_layout: std_layout(),
        query_layout: std_layout(),
        float: f64_name(),
        setter_order: None,
        decoys: false,
        ctor: default_ctor(),
        builder_fit: false,
        skip_setters: vec![],
        target_layout: std_layout(),
    };
    let all_parts6: Vec<(usize, Vec<u8>)> = (2..=4usize).flat_map(|k| partitions(6, k).into_iter().map(move |p| (k, p))).collect();
    let tw_targets = |p: f64, link: &str, stride: usize| -> Vec<(&'static str, Vec<Vec<f64>>, Vec<f64>)> {
        let letters = alphabet(p, link);
        let mut v: Vec<(&'static str, Vec<Vec<f64>>, Vec<f64>)> = Vec::new();
        for (i, seq) in lvmc_core::enumerate::sequences(5, 3).into_iter().enumerate() {
            if i % stride == 1 {
                v.push(("1d", design_h1.clone(), seq.iter().map(|&i| letters[i]).collect()));
            }
        }
        for (i, seq) in lvmc_core::enumerate::sequences(6, 2).into_iter().enumerate() {
            if i % stride == 2 {
                v.push(("2d", design2.clone(), seq.iter().map(|&i| letters[i * 2]).collect()));
            }
        }
        v
    };
    if want("harden") {
        let nonstd = &layout::LAYOUTS[1..];
        // ---- (a) layouts ----
        let mask_stride = ctx.pick(5u32, 1u32);
        for (fam, pts) in lat6.iter().filter(|(f, _)| *f != "1d_doubled") {
            for mask in (1..63u32).filter(|m| m % mask_stride == 1 % mask_stride) {
                for &scale in &[1.0, 100.0] {
                    for &alpha in &[0.0, 1.0] {
                        for intercept in [true, false] {
                            for l in nonstd {
                                for both in [true, false] {
                                    let mut c = mk_bin(fam, pts, mask, scale, alpha, intercept);
                                    c.query_layout = l.to_string();
                                    if both {
                                        c.fit_layout = l.to_string();
                                    }
                                    hcases.push(Case::Binary(c));
                                    n_layout += 1;
                                }
                            }
                        }
                    }
                }
            }
        }
        let part_stride = ctx.pick(13usize, 3usize);
        for (fam, pts) in lat6.iter().filter(|(f, _)| *f != "1d_doubled") {
            for (i, (k, part)) in all_parts6.iter().enumerate() {
                if i % part_stride != 1 {
                    continue;
                }
                for &scale in &[1.0, 100.0] {
                    for &alpha in &[0.01, 1.0] {
                        for intercept in [true, false] {
                            for l in nonstd {
                                for both in [true, false] {
                                    let mut c = mk_multi(fam, pts, part, *k, scale, alpha, intercept);
                                    c.query_layout = l.to_string();
                                    if both {
                                        c.fit_layout = l.to_string();
                                    }
                                    hcases.push(Case::Multi(c));
                                    n_layout += 1;
                                }
                            }
                        }
                    }
                }
            }
        }
        let tw_stride = ctx.pick(27usize, 5usize);
        for (p, link) in tw_pairs {
            for (fam, pts, y) in tw_targets(p, link, tw_stride) {
                for &alpha in &[0.0, 1.0] {
                    for intercept in [true, false] {
                        for l in nonstd {
                            let mut c = mk_tw(fam, &pts, y.clone(), p, link, alpha, intercept);
                            c.fit_layout = l.to_string();
                            c.query_layout = l.to_string();
                            hcases.push(Case::Tweedie(c));
                            n_layout += 1;
                        }
                    }
                }
            }
        }
        // ---- (b) replicated lattices, n in {1025, 4097} ----
        let big_masks: Vec<u32> = ctx.pick(vec![0b010110u32, 0b101001], vec![0b010110u32, 0b101001, 0b001011, 0b110100]);
        for &nr in &[1025usize, 4097] {
            for (fam, pts) in &lat6 {
                for &mask in &big_masks {
                    for &scale in &[1.0, 100.0] {
                        for &alpha in &[0.0, 1.0] {
                            for intercept in [true, false] {
                                for l in ["standard", "every_second_row_view"] {
                                    let mut c = mk_bin(fam, pts, mask, scale, alpha, intercept);
                                    c.n_rows = Some(nr);
                                    c.fit_layout = l.to_string();
                                    c.query_layout = l.to_string();
                                    hcases.push(Case::Binary(c));
                                    n_large += 1;
                                }
                            }
                        }
                    }
                }
            }
            let big_parts: Vec<(usize, Vec<u8>)> = vec![(3, vec![0, 1, 2, 0, 1, 2]), (4, vec![0, 0, 1, 1, 2, 3]), (2, vec![0, 1, 0, 1, 0, 1])];
            for (fam, pts) in lat6.iter().filter(|(f, _)| *f != "1d_doubled") {
                for (k, part) in &big_parts {
                    for &scale in &[1.0, 100.0] {
                        for &alpha in &[0.01, 1.0] {
                            for intercept in [true, false] {
                                for l in ["standard", "fortran"] {
                                    if ctx.quick() && l == "fortran" && nr == 4097 {
                                        continue;
                                    }
                                    let mut c = mk_multi(fam, pts, part, *k, scale, alpha, intercept);
                                    c.n_rows = Some(nr);
                                    c.fit_layout = l.to_string();
                                    c.query_layout = l.to_string();
                                    hcases.push(Case::Multi(c));
                                    n_large += 1;
                                }
                            }
                        }
                    }
                }
            }
            for (p, link) in tw_pairs {
                for (fam, pts, y) in tw_targets(p, link, 81) {
                    for &alpha in &[0.0, 1.0] {
                        for intercept in [true, false] {
                            for l in ["standard", "transposed_view"] {
                                let mut c = mk_tw(fam, &pts, y.clone(), p, link, alpha, intercept);
                                c.n_rows = Some(nr);
                                c.fit_layout = l.to_string();
                                c.query_layout = l.to_string();
                                hcases.push(Case::Tweedie(c));
                                n_large += 1;
                            }
                        }
                    }
                }
            }
        }
        // ---- (c) f32 (scale 1) ----
        for (fam, pts) in lat6.iter().filter(|(f, _)| *f != "1d_doubled") {
            for mask in 1..63u32 {
                for &alpha in &[0.0, 0.01, 1.0] {
                    for intercept in [true, false] {
                        let mut c = mk_bin(fam, pts, mask, 1.0, alpha, intercept);
                        c.float = "f32".into();
                        hcases.push(Case::Binary(c));
                        n_f32 += 1;
                    }
                }
            }
            for (i, (k, part)) in all_parts6.iter().enumerate() {
                if i % ctx.pick(5usize, 1usize) != 1 % ctx.pick(5usize, 1usize) {
                    continue;
                }
                for &alpha in &[0.01, 1.0] {
                    for intercept in [true, false] {
                        let mut c = mk_multi(fam, pts, part, *k, 1.0, alpha, intercept);
                        c.float = "f32".into();
                        hcases.push(Case::Multi(c));
                        n_f32 += 1;
                    }
                }
            }
        }
        for (p, link) in tw_pairs {
            for (fam, pts, y) in tw_targets(p, link, ctx.pick(27usize, 5usize)) {
                for &alpha in &[0.0, 1.0] {
                    for intercept in [true, false] {
                        let mut c = mk_tw(fam, &pts, y.clone(), p, link, alpha, intercept);
                        c.float = "f32".into();
                        hcases.push(Case::Tweedie(c));
                        n_f32 += 1;
                    }
                }
            }
        }
    }
    // ---- (d) builder history: every order of the setters, decoy-then-real writes, every constructor ----
    let mut n_builder = 0u64;
    if want("harden") {
        let perms5 = lvmc_core::enumerate::permutations(5);
        let perms6 = lvmc_core::enumerate::permutations(6);
        let bin_data: Vec<(&str, u32, f64, bool)> = vec![("1d", 0b010110, 0.01, true), ("2d", 0b101001, 1.0, false)];
        for (fam, mask, alpha, intercept) in &bin_data {
            let pts = &lat6.iter().find(|(f, _)| f == fam).unwrap().1;
            for (pi, perm) in perms5.iter().enumerate() {
                for decoys in [false, true] {
                    for ctor in ["default", "new"] {
                        if ctx.quick() && decoys && pi % 4 != 0 {
                            continue;
                        }
                        let mut c = mk_bin(fam, pts, *mask, 1.0, *alpha, *intercept);
                        let d = pts[0].len();
                        let mut init: Vec<f64> = (0..d).map(|j| if j % 2 == 0 { 0.1 } else { -0.05 }).collect();
                        if *intercept {
                            init.push(-0.2);
                        }
                        c.init = Some(init);
                        c.setter_order = Some(perm.iter().map(|&v| v as u8).collect());
                        c.decoys = decoys;
                        c.ctor = ctor.to_string();
                        hcases.push(Case::Binary(c));
                        n_builder += 1;
                    }
                }
            }
        }
        let multi_data: Vec<(&str, usize, Vec<u8>, f64, bool)> = vec![("1d", 3, vec![0, 1, 2, 0, 1, 2], 0.01, true), ("2d", 4, vec![0, 0, 1, 1, 2, 3], 1.0, false)];
        for (fam, k, part, alpha, intercept) in &multi_data {
            let pts = &lat6.iter().find(|(f, _)| f == fam).unwrap().1;
            for (pi, perm) in perms5.iter().enumerate() {
                for decoys in [false, true] {
                    for ctor in ["default", "new"] {
                        if ctx.quick() && (decoys || ctor == "new") && pi % 4 != 0 {
                            continue;
                        }
                        let mut c = mk_multi(fam, pts, part, *k, 1.0, *alpha, *intercept);
                        let pz = pts[0].len() + *intercept as usize;
                        c.init = Some((0..pz).map(|i| (0..*k).map(|cc| (((i + 2 * cc) % 3) as f64 - 1.0) * 0.1).collect()).collect());
                        c.setter_order = Some(perm.iter().map(|&v| v as u8).collect());
                        c.decoys = decoys;
                        c.ctor = ctor.to_string();
                        hcases.push(Case::Multi(c));
                        n_builder += 1;
                    }
                }
            }
        }
        // (power, link) pairs where the configured link differs from the automatic one, plus two where it does not
        let tw_b: Vec<(f64, &str, Vec<f64>, f64)> = vec![
            (0.0, "log", vec![2.0, 0.5, 2.0, 2.0, 0.5], 0.1),
            (0.0, "logit", vec![0.2, 0.5, 0.9, 0.5, 0.2], 0.0),
            (1.0, "identity", vec![1.0, 1.0, 3.0, 3.0, 3.0], 1.0),
            (1.5, "logit", vec![0.2, 0.9, 0.5, 0.9, 0.2], 0.1),
            (2.0, "log", vec![0.5, 1.0, 3.0, 1.0, 0.5], 1.0),
            (0.0, "identity", vec![-1.0, 0.5, 2.0, 0.5, -1.0], 0.1),
        ];
        for (p, link, y, alpha) in &tw_b {
            for (pi, perm) in perms6.iter().enumerate() {
                for decoys in [false, true] {
                    for ctor in ["default", "new", "params"] {
                        let mut c = mk_tw("1d", &design_h1, y.clone(), *p, link, *alpha, pi % 2 == 0);
                        c.setter_order = Some(perm.iter().map(|&v| v as u8).collect());
                        c.decoys = decoys;
                        c.ctor = ctor.to_string();
                        // the fit is compared for a subset of the histories (two child processes each), the published
                        // parameters for every history
                        c.builder_fit = pi % ctx.pick(24usize, 3usize) == 1 && (ctor == "default" || pi % 5 == 1);
                        hcases.push(Case::Tweedie(c));
                        n_builder += 1;
                    }
                }
            }
        }
    }
    // ---- (e) routing through the shared / core code: parameters left at their DEFAULT (every subset of the setters not
    //      called at all, judged against the documented defaults), target arrays in non-standard layouts, label naming
    //      through DatasetBase::map_targets, sub-unit feature scales, 4..9 features with a reversed feature axis ----
    let mut n_routing = 0u64;
    if want("harden") {
        // (e1) unset parameters
        let y_pos = vec![0.5, 1.0, 3.0, 1.0, 0.5];
        for sub in 1..64u32 {
            let skip: Vec<u8> = (0..6u8).filter(|s| sub >> s & 1 == 1).collect();
            let pws: Vec<f64> = if skip.contains(&2) { vec![1.0] } else { powers.to_vec() };
            for p in pws {
                let mut c = mk_tw("1d", &design_h1, y_pos.clone(), p, "log", 0.1, false);
                c.skip_setters = skip.clone();
                hcases.push(Case::Tweedie(c));
                n_routing += 1;
            }
        }
        for sub in 1..32u32 {
            let skip: Vec<u8> = (0..5u8).filter(|s| sub >> s & 1 == 1).collect();
            for (fam, mask) in [("1d", 0b010110u32), ("2d", 0b101001)] {
                let pts = &lat6.iter().find(|(f, _)| *f == fam).unwrap().1;
                let mut c = mk_bin(fam, pts, mask, 1.0, 0.5, false);
                c.gtol = 1e-5;
                c.init = Some((0..pts[0].len()).map(|j| if j % 2 == 0 { 0.1 } else { -0.05 }).collect());
                if skip.contains(&1) {
                    // the intercept is then fitted: the given start vector needs its entry
                    c.init.as_mut().unwrap().push(-0.2);
                }
                c.skip_setters = skip.clone();
                hcases.push(Case::Binary(c));
                n_routing += 1;
            }
            for (fam, k, part) in [("1d", 3usize, vec![0u8, 1, 2, 0, 1, 2]), ("2d", 4, vec![0, 0, 1, 1, 2, 3])] {
                let pts = &lat6.iter().find(|(f, _)| *f == fam).unwrap().1;
                let mut c = mk_multi(fam, pts, &part, k, 1.0, 0.5, false);
                c.gtol = 1e-5;
                let pz = pts[0].len() + skip.contains(&1) as usize;
                c.init = Some((0..pz).map(|i| (0..k).map(|cc| (((i + 2 * cc) % 3) as f64 - 1.0) * 0.1).collect()).collect());
                c.skip_setters = skip.clone();
                hcases.push(Case::Multi(c));
                n_routing += 1;
            }
        }
        // (e2) target layouts x label naming through map_targets (x sub-unit feature scale)
        let tvariants: Vec<(&str, bool)> = layout::TARGET_LAYOUTS.iter().flat_map(|l| [(*l, false), (*l, true)]).filter(|v| *v != ("standard", false)).collect();
        let e_masks: Vec<u32> = ctx.pick(vec![0b010110u32, 0b101001, 0b000111], vec![0b010110u32, 0b101001, 0b000111, 0b001011, 0b110100, 0b011110]);
        for (fam, pts) in lat6.iter().filter(|(f, _)| *f != "1d_doubled") {
            for &mask in &e_masks {
                for &scale in &[0.125, 1.0] {
                    for &alpha in &[0.0, 1.0] {
                        for intercept in [true, false] {
                            for (tl, via) in &tvariants {
                                for (lt, naming) in [("usize", 1u8), ("string", 0)] {
                                    let mut c = mk_bin(fam, pts, mask, scale, alpha, intercept);
                                    c.label_type = lt.to_string();
                                    c.naming = naming;
                                    c.target_layout = tl.to_string();
                                    c.naming_via_map_targets = *via;
                                    hcases.push(Case::Binary(c));
                                    n_routing += 1;
                                }
                            }
                        }
                    }
                }
            }
            for (i, (k, part)) in all_parts6.iter().enumerate() {
                if i % ctx.pick(47usize, 11usize) != 1 {
                    continue;
                }
                for &scale in &[0.125, 1.0] {
                    for &alpha in &[0.01, 1.0] {
                        for intercept in [true, false] {
                            for (tl, via) in &tvariants {
                                let mut c = mk_multi(fam, pts, part, *k, scale, alpha, intercept);
                                c.target_layout = tl.to_string();
                                c.naming_via_map_targets = *via;
                                hcases.push(Case::Multi(c));
                                n_routing += 1;
                            }
                        }
                    }
                }
            }
        }
        for (p, link) in tw_pairs {
            for (fam, pts, y) in tw_targets(p, link, ctx.pick(81usize, 27usize)) {
                for &alpha in &[0.0, 1.0] {
                    for intercept in [true, false] {
                        for tl in &layout::TARGET_LAYOUTS[1..] {
                            let mut c = mk_tw(fam, &pts, y.clone(), p, link, alpha, intercept);
                            c.target_layout = tl.to_string();
                            hcases.push(Case::Tweedie(c));
                            n_routing += 1;
                        }
                    }
                }
            }
        }
        // (e2b) MIS-SHAPED initial parameters: one row short / too many (multinomial also one column short / too many):
        //       Err(InitialParameter*Mismatch), or Ok and then a stationary point of the CONFIGURED model
        for (fam, pts) in lat6.iter().filter(|(f, _)| *f != "1d_doubled") {
            for &mask in &[0b010110u32, 0b101001, 0b000111] {
                for &alpha in &[0.0, 1.0] {
                    for intercept in [true, false] {
                        for delta in [-1i8, 1] {
                            let mut c = mk_bin(fam, pts, mask, 1.0, alpha, intercept);
                            let mut init: Vec<f64> = (0..pts[0].len()).map(|j| if j % 2 == 0 { 0.1 } else { -0.05 }).collect();
                            if intercept {
                                init.push(-0.2);
                            }
                            c.init = Some(init);
                            c.init_rows_delta = delta;
                            hcases.push(Case::Binary(c));
                            n_routing += 1;
                        }
                    }
                }
            }
            for (k, part) in [(3usize, vec![0u8, 1, 2, 0, 1, 2]), (4, vec![0, 0, 1, 1, 2, 3])] {
                for &alpha in &[0.01, 1.0] {
                    for intercept in [true, false] {
                        for (dr, dc) in [(-1i8, 0i8), (1, 0), (0, -1), (0, 1)] {
                            let mut c = mk_multi(fam, pts, &part, k, 1.0, alpha, intercept);
                            let pz = pts[0].len() + intercept as usize;
                            c.init = Some((0..pz).map(|i| (0..k).map(|cc| (((i + 2 * cc) % 3) as f64 - 1.0) * 0.1).collect()).collect());
                            c.init_rows_delta = dr;
                            c.init_cols_delta = dc;
                            hcases.push(Case::Multi(c));
                            n_routing += 1;
                        }
                    }
                }
            }
        }
        // (e3) 4, 5, 7, 9 features (12 samples, constant table), sub-unit scale, reversed feature axis
        for &dd in &[4usize, 5, 7, 9] {
            let wide: Vec<Vec<f64>> = (0..12usize).map(|i| (0..dd).map(|j| ((i * (j + 2) + j * j + i * i * (j % 3)) % 5) as f64).collect()).collect();
            for &scale in &[0.125, 1.0] {
                for &alpha in &[0.01, 1.0] {
                    for intercept in [true, false] {
                        for l in ["standard", "reversed_features_view", "fortran"] {
                            for pat in 0..2usize {
                                let mut c = mk_bin("wide", &wide, 0, scale, alpha, intercept);
                                c.groups = (0..12usize).map(|i| if pat == 0 { (i % 2) as u8 } else { ((i / 3) % 2) as u8 }).collect();
                                c.fit_layout = l.to_string();
                                c.query_layout = l.to_string();
                                hcases.push(Case::Binary(c));
                                let (k, part): (usize, Vec<u8>) = if pat == 0 { (3, (0..12usize).map(|i| (i % 3) as u8).collect()) } else { (4, (0..12usize).map(|i| ((i * 5) % 4) as u8).collect()) };
                                let mut c = mk_multi("wide", &wide, &part, k, scale, alpha, intercept);
                                c.fit_layout = l.to_string();
                                c.query_layout = l.to_string();
                                hcases.push(Case::Multi(c));
                                n_routing += 2;
                            }
                            for (p, link) in [(0.0, "identity"), (1.0, "log"), (2.0, "log")] {
                                let xw: Vec<Vec<f64>> = wide.iter().map(|r| r.iter().map(|v| v * scale * 0.25).collect()).collect();
                                let y: Vec<f64> = (0..12usize).map(|i| 0.5 + (i % 4) as f64 * 0.5).collect();
                                let mut c = mk_tw("wide", &xw, y, p, link, alpha, intercept);
                                c.fit_layout = l.to_string();
                                c.query_layout = l.to_string();
                                hcases.push(Case::Tweedie(c));
                                n_routing += 1;
                            }
                        }
                    }
                }
            }
        }
    }
    // deterministic interleaving, as for the Tweedie sweep (large and small cases mixed over the threads)
    {
        let n = hcases.len();
        if n > 1 {
            let mut stride = 7919 % n;
            while gcd(stride.max(1), n) != 1 {
                stride += 1;
            }
            hcases = (0..n).map(|i| hcases[(i * stride.max(1)) % n].clone()).collect();
        }
    }
    let trace = std::env::var("C12_TRACE").is_ok();
    par_sweep(&ctx, "hardening families", &hcases, |case| {
        let mut local = Tally::default();
        let mut v = Vec::new();
        if trace {
            eprintln!("BEGIN {}", serde_json::to_string(case).unwrap());
        }
        let o = run_case(case, &mut v);
        if trace {
            eprintln!("END {}", serde_json::to_string(case).unwrap());
        }
        record(&ctx, &mut local, o, v);
        ctx.sample(|| serde_json::to_value(case).unwrap());
        merge(&tally, local);
    });
    let hard_done = tally.lock().unwrap().cases - bin_done - multi_done - tw_done_pre;
    ctx.extra("hardening_layout_cases_enumerated", json!(n_layout));
    ctx.extra("hardening_large_n_cases_enumerated", json!(n_large));
    ctx.extra("hardening_f32_cases_enumerated", json!(n_f32));
    ctx.extra("hardening_builder_history_cases_enumerated", json!(n_builder));
    ctx.extra("hardening_routing_cases_enumerated", json!(n_routing));
    ctx.extra("hardening_cases_run", json!(hard_done));
    ctx.extra("f32_case_child_largest_cpu_ms_of_a_returning_child", json!(MAX_CASE_CHILD_MS.load(std::sync::atomic::Ordering::Relaxed)));
    let t = tally.lock().unwrap();
    let tw_done = tw_done_pre;
    ctx.extra("tweedie_target_vectors", json!(n_targets));
    ctx.extra("tweedie_isolated_fit_largest_cpu_ms_of_a_returning_child", json!(tweedie::MAX_CHILD_MS.load(std::sync::atomic::Ordering::Relaxed)));
    ctx.extra("all_sweeps_wall_s", json!((ctx.elapsed() * 10.0).round() / 10.0));
    ctx.extra("tweedie_cases_enumerated", json!(tcases.len()));
    ctx.extra("tweedie_cases_run", json!(tw_done));
    ctx.extra("tweedie_out_of_support_cases_enumerated", json!(n_range));
    ctx.extra("prediction_queries", json!(t.queries));
    ctx.extra("extreme_queries_with_score_above_100", json!(t.extreme));
    ctx.extra("max_score_at_certified_alpha0_optimum", json!(t.max_own_score));
    for (k, v) in &t.tags {
        ctx.extra(k, json!(v));
    }
    if bin_done != bin_expected || multi_done != multi_expected || tw_done != tcases.len() as u64 || hard_done != hcases.len() as u64 {
        ctx.capped(&format!("cases run {} + {} + {} != enumerated {} + {} + {}", bin_done, multi_done, tw_done, bin_expected, multi_expected, tcases.len()));
    }
    drop(t);
    ctx.finish(&replay_value);
}
