//! C12 — logistic and Tweedie regression return stationary points; probabilities valid.
//! Exhaustive sweep (DESIGN.md §4 C12): every two-class labeling of small 1-D / 2-D lattices x
//! label type x naming x sample order x feature scale x alpha x intercept x initial parameters;
//! every partition of the lattice points into 2..4 classes for the multinomial model; a full
//! factorial catalogue of Tweedie problems (power x link x alpha x intercept x every target vector
//! over a small alphabet) plus every single-position excursion of a target out of the support.
//! Oracle: own f64 gradient of the DOCUMENTED objective at the returned parameters, cross-checked
//! by an own damped Newton solve (a case is a violation only if both disagree).

mod binary;
mod multi;
mod refopt;
mod tweedie;

use binary::BinCase;
use lvmc_core::{json, par_sweep, Ctx, Level, Value, Violation};
use multi::MultiCase;
use serde::{Deserialize, Serialize};
use std::collections::BTreeMap;
use std::sync::Mutex;
use tweedie::TwCase;

#[derive(Clone, Debug, Serialize, Deserialize)]
#[serde(tag = "kind")]
pub enum Case {
    Binary(BinCase),
    Multi(MultiCase),
    Tweedie(TwCase),
}

/// Per-case bookkeeping returned by the three runners.
#[derive(Default)]
pub struct Out {
    pub ood: bool,
    pub nontrivial: bool,
    pub indeterminate: u64,
    pub queries: u64,
    pub extreme_queries: u64,
    pub max_own_score: f64,
    pub tags: Vec<&'static str>,
}

impl Out {
    pub fn tag(&mut self, t: &'static str) {
        self.tags.push(t);
    }
}

pub static T_OWN: std::sync::atomic::AtomicU64 = std::sync::atomic::AtomicU64::new(0);
pub static T_OWN_IT: std::sync::atomic::AtomicU64 = std::sync::atomic::AtomicU64::new(0);
pub static T_FIT: std::sync::atomic::AtomicU64 = std::sync::atomic::AtomicU64::new(0);
fn run_case(case: &Case, viols: &mut Vec<Violation>) -> Out {
    match case {
        Case::Binary(c) => binary::run(c, viols),
        Case::Multi(c) => multi::run(c, viols),
        Case::Tweedie(c) => tweedie::run(c, viols),
    }
}

fn replay_value(v: &Value) -> Vec<Violation> {
    let c: Case = match serde_json::from_value(v.clone()) {
        Ok(c) => c,
        Err(e) => {
            println!("MACHINERY-ERROR replay case does not parse: {}", e);
            std::process::exit(2);
        }
    };
    let mut out = Vec::new();
    run_case(&c, &mut out);
    out
}

#[derive(Default)]
struct Tally {
    cases: u64,
    queries: u64,
    extreme: u64,
    max_own_score: f64,
    tags: BTreeMap<&'static str, u64>,
}

fn record(ctx: &Ctx, tally: &Mutex<Tally>, local: &mut Tally, o: Out, viols: Vec<Violation>) {
    let _ = tally;
    if o.ood {
        ctx.out_of_domain();
    } else {
        ctx.eval(o.nontrivial);
    }
    for _ in 0..o.indeterminate {
        ctx.indeterminate();
    }
    local.cases += 1;
    local.queries += o.queries;
    local.extreme += o.extreme_queries;
    if o.max_own_score > local.max_own_score {
        local.max_own_score = o.max_own_score;
    }
    for t in o.tags {
        *local.tags.entry(t).or_insert(0) += 1;
    }
    ctx.violations(viols);
}

fn merge(tally: &Mutex<Tally>, local: Tally) {
    let mut t = tally.lock().unwrap();
    t.cases += local.cases;
    t.queries += local.queries;
    t.extreme += local.extreme;
    if local.max_own_score > t.max_own_score {
        t.max_own_score = local.max_own_score;
    }
    for (k, v) in local.tags {
        *t.tags.entry(k).or_insert(0) += v;
    }
}

fn orders(n: usize, which: &[&'static str]) -> Vec<(&'static str, Vec<usize>)> {
    which
        .iter()
        .map(|&w| {
            let p: Vec<usize> = match w {
                "identity" => (0..n).collect(),
                "reversed" => (0..n).rev().collect(),
                "interleaved" => (0..n).step_by(2).chain((1..n).step_by(2)).collect(),
                _ => panic!(),
            };
            (w, p)
        })
        .collect()
}

/// restricted growth strings: every partition of n items into exactly k blocks
fn partitions(n: usize, k: usize) -> Vec<Vec<u8>> {
    fn rec(n: usize, k: usize, cur: &mut Vec<u8>, mx: u8, out: &mut Vec<Vec<u8>>) {
        if cur.len() == n {
            if mx as usize == k {
                out.push(cur.clone());
            }
            return;
        }
        for v in 0..=(mx.min(k as u8 - 1)) {
            cur.push(v);
            rec(n, k, cur, mx.max(v + 1), out);
            cur.pop();
        }
    }
    let mut out = Vec::new();
    rec(n, k, &mut Vec::new(), 0, &mut out);
    out
}

struct BinGroup {
    family: &'static str,
    pts: Vec<Vec<f64>>,
    mask: u32,
}
struct MultiGroup {
    family: &'static str,
    pts: Vec<Vec<f64>>,
    k: usize,
    part: Vec<u8>,
}
struct TwGroup {
    family: &'static str,
    pts: Vec<Vec<f64>>,
    y: Vec<f64>,
    alphabet: &'static str,
}

const SCALES: [f64; 3] = [1.0, 10.0, 100.0];
const ALPHAS: [f64; 4] = [0.0, 0.01, 1.0, 100.0];
const GTOL: f64 = 1e-4;
const MAX_ITER: u64 = 5000;

fn main() {
    let ctx = Ctx::new("C12", Level::Exploration);
    ctx.maybe_replay(&replay_value);
    ctx.set_rule(
        "binary: 1-D lattice {0..n-1}, 1-D lattice with every point doubled, 2-D lattice 3x2 (quick, n=6) / 4x2 (thorough, n=8); EVERY labeling with both classes present (2^n - 2) \
         x label type {bool, usize, &str, String} x 2 namings (which literal values the two groups get) x sample order {identity, reversed, interleaved} x feature scale {1,10,100} \
         x alpha {0,.01,1,100} x intercept {on,off} x initial parameters {none, given}; labelings that are weakly linearly separable (own exact integer test, with / without intercept as fitted) \
         are out of domain for alpha = 0 and in domain for alpha > 0. multinomial: EVERY partition of the n = 6 (quick) / 7 (thorough) points of the 1-D and 2-D lattice into exactly k = 2,3,4 classes \
         (restricted growth strings) x 2 namings (class values in / not in block order) x label type {usize, &str, String} x order (identity; thorough: 3 orders) x scale x alpha x intercept x init; \
         alpha = 0 cases without a certified finite maximiser (own Newton) are out of domain. Tweedie: power {0,1,1.5,2,3} x link {identity, log, logit} x alpha {0,.1,1} x intercept {on,off} x EVERY target vector over a \
         3-letter alphabet inside the support on the 5-point 1-D design and (2-letter alphabet quick / 3-letter thorough) the 6-point 2-D design, plus every single-position replacement of a target by a value outside \
         the support. evaluations = fits (one per case) that are in domain; non-trivial = the fit returned parameters different from its start (non-zero weights) or an out-of-support rejection was demanded; \
         every fitted model is additionally queried on the training points, the origin and extreme points with |x.w| in {1,20,40,710,1000} (counted as prediction_queries).",
    );
    ctx.assume("documented objectives (rustdoc of logistic_loss / multi_logistic_loss / TweedieProblem::cost): binary -sum_i log sigm(y_i z_i) + alpha/2 w.w; multinomial -sum(Y*log softmax(XW+b)) + alpha/2 ||W||_F^2; Tweedie 1/2 (sum_i unit_deviance(y_i, mu_i) + alpha w.w); sums not means; the intercept is never penalised");
    ctx.assume("stationarity oracle: own f64 gradient norm at the returned parameters <= 10 x gradient_tolerance (1e-4, max_iterations 5000) OR objective within 1e-8 * max(1,|J*|) of the own damped-Newton minimum (logistic: from zero, convex; Tweedie: Newton descent started at the returned point); a violation needs BOTH to fail");
    ctx.assume("domain, alpha = 0: binary by an exact integer cone test (no non-zero (w,b) with y_i (x_i.w+b) >= 0 for all i; quasi-complete separation counts as separable because no finite maximiser exists); multinomial by an own Newton solve from zero that reaches gradient norm <= 1e-10*max|x| with all score spreads <= 15");
    ctx.assume("Tweedie domain: targets inside the support; the documented start (coef 0, intercept link(mean y)) has a finite objective; an own Newton solve from that start certifies an interior stationary point with |linear predictor| <= 30; everything else is counted out_of_domain");
    ctx.assume("probabilities: finite, in [0,1], equal to the own sigmoid / softmax of x.w+b within 1e-9, multinomial rows sum to 1 within 1e-9; decision: binary class must follow p > threshold outside a 1e-9 margin (inside: indeterminate), except that p bit-equal to the threshold must give the positive class ('minimum probability needed', rustdoc); multinomial: any class within 1e-9 of the row maximum is accepted");
    ctx.assume("which of the two classes is coded +1 is NOT demanded (rustdoc of label_classes says 'larger by PartialOrd', the existing test simple_example_1 pins 'more frequent, first seen on ties'): the oracle reads the coding from labels() and only demands the class SET; both rules are tallied in the evidence");
    ctx.assume("Tweedie predictions: range of the link is taken closed (exp may saturate to 0 / +inf at |x.w| ~ 1e3), values equal the own inverse link within 1e-9 relative");

    let tally = Mutex::new(Tally::default());

    // ------------------------------------------------------------------ binary
    let nb = ctx.pick(6usize, 8usize);
    let mut lattices: Vec<(&'static str, Vec<Vec<f64>>)> = Vec::new();
    lattices.push(("1d", (0..nb).map(|i| vec![i as f64]).collect()));
    lattices.push(("1d_doubled", (0..nb).map(|i| vec![(i / 2) as f64]).collect()));
    lattices.push(("2d", (0..nb).map(|i| vec![(i / 2) as f64, (i % 2) as f64]).collect()));
    let mut bgroups: Vec<BinGroup> = Vec::new();
    for (fam, pts) in &lattices {
        for mask in 1..(1u32 << nb) - 1 {
            bgroups.push(BinGroup { family: fam, pts: pts.clone(), mask });
        }
    }
    let label_variants: Vec<(&'static str, u8)> = vec![("bool", 0), ("bool", 1), ("usize", 0), ("usize", 1), ("str", 0), ("str", 1), ("string", 0), ("string", 1)];
    let bin_orders = orders(nb, &["identity", "reversed", "interleaved"]);
    let per_bgroup = label_variants.len() * bin_orders.len() * SCALES.len() * ALPHAS.len() * 2 * 2;
    let bin_expected = (bgroups.len() * per_bgroup) as u64;
    if std::env::var("C12_ONLY_TW").is_ok() { bgroups.clear(); }
    par_sweep(&ctx, "binary logistic", &bgroups, |g| {
        let mut local = Tally::default();
        for (oname, perm) in &bin_orders {
            for &scale in &SCALES {
                let x: Vec<Vec<f64>> = perm.iter().map(|&i| g.pts[i].iter().map(|v| v * scale).collect()).collect();
                let groups: Vec<u8> = perm.iter().map(|&i| ((g.mask >> i) & 1) as u8).collect();
                let d = x[0].len();
                for &alpha in &ALPHAS {
                    for intercept in [true, false] {
                        for given in [false, true] {
                            let init = if given {
                                let mut v: Vec<f64> = (0..d).map(|j| if j % 2 == 0 { 0.1 / scale } else { -0.05 / scale }).collect();
                                if intercept {
                                    v.push(-0.2);
                                }
                                Some(v)
                            } else {
                                None
                            };
                            for (lt, naming) in &label_variants {
                                let case = Case::Binary(BinCase {
                                    family: g.family.to_string(),
                                    x: x.clone(),
                                    groups: groups.clone(),
                                    label_type: lt.to_string(),
                                    naming: *naming,
                                    alpha,
                                    intercept,
                                    init: init.clone(),
                                    gtol: GTOL,
                                    max_iter: MAX_ITER,
                                    order: oname.to_string(),
                                    scale,
                                });
                                let mut v = Vec::new();
                                let o = run_case(&case, &mut v);
                                record(&ctx, &tally, &mut local, o, v);
                                ctx.sample(|| serde_json::to_value(&case).unwrap());
                            }
                        }
                    }
                }
            }
        }
        merge(&tally, local);
    });
    let bin_done = tally.lock().unwrap().cases;
    ctx.extra("binary_sweep_wall_s", json!((ctx.elapsed() * 10.0).round() / 10.0));
    ctx.extra("binary_cases_enumerated", json!(bin_expected));
    ctx.extra("binary_cases_run", json!(bin_done));

    // ------------------------------------------------------------------ multinomial
    let nm = ctx.pick(6usize, 7usize);
    let mlattices: Vec<(&'static str, Vec<Vec<f64>>)> = vec![
        ("1d", (0..nm).map(|i| vec![i as f64]).collect()),
        ("2d", (0..nm).map(|i| vec![(i / 2) as f64, (i % 2) as f64]).collect()),
    ];
    let mut mgroups: Vec<MultiGroup> = Vec::new();
    let mut n_partitions = 0u64;
    for k in 2..=4usize {
        let parts = partitions(nm, k);
        n_partitions += parts.len() as u64;
        for (fam, pts) in &mlattices {
            for p in &parts {
                mgroups.push(MultiGroup { family: fam, pts: pts.clone(), k, part: p.clone() });
            }
        }
    }
    let m_orders = if ctx.quick() { orders(nm, &["identity"]) } else { orders(nm, &["identity", "reversed", "interleaved"]) };
    let m_labels: Vec<(&'static str, u8)> = vec![("usize", 0), ("usize", 1), ("str", 0), ("str", 1), ("string", 0), ("string", 1)];
    let per_mgroup = m_labels.len() * m_orders.len() * SCALES.len() * ALPHAS.len() * 2 * 2;
    let multi_expected = (mgroups.len() * per_mgroup) as u64;
    if std::env::var("C12_ONLY_TW").is_ok() { mgroups.clear(); }
    par_sweep(&ctx, "multinomial logistic", &mgroups, |g| {
        let mut local = Tally::default();
        for (oname, perm) in &m_orders {
            for &scale in &SCALES {
                let x: Vec<Vec<f64>> = perm.iter().map(|&i| g.pts[i].iter().map(|v| v * scale).collect()).collect();
                let groups: Vec<u8> = perm.iter().map(|&i| g.part[i]).collect();
                let d = x[0].len();
                for &alpha in &ALPHAS {
                    for intercept in [true, false] {
                        for given in [false, true] {
                            let pz = d + intercept as usize;
                            let init = if given {
                                Some(
                                    (0..pz)
                                        .map(|i| (0..g.k).map(|c| (((i + 2 * c) % 3) as f64 - 1.0) * 0.1 / if i < d { scale } else { 1.0 }).collect::<Vec<f64>>())
                                        .collect::<Vec<_>>(),
                                )
                            } else {
                                None
                            };
                            for (lt, naming) in &m_labels {
                                let case = Case::Multi(MultiCase {
                                    family: g.family.to_string(),
                                    x: x.clone(),
                                    groups: groups.clone(),
                                    k: g.k,
                                    label_type: lt.to_string(),
                                    naming: *naming,
                                    alpha,
                                    intercept,
                                    init: init.clone(),
                                    gtol: GTOL,
                                    max_iter: MAX_ITER,
                                    order: oname.to_string(),
                                    scale,
                                });
                                let mut v = Vec::new();
                                let o = run_case(&case, &mut v);
                                record(&ctx, &tally, &mut local, o, v);
                                ctx.sample(|| serde_json::to_value(&case).unwrap());
                            }
                        }
                    }
                }
            }
        }
        merge(&tally, local);
    });
    let multi_done = tally.lock().unwrap().cases - bin_done;
    ctx.extra("binary_plus_multinomial_sweep_wall_s", json!((ctx.elapsed() * 10.0).round() / 10.0));
    eprintln!("T_OWN {} us, iters {}, T_FIT {} us", T_OWN.load(std::sync::atomic::Ordering::Relaxed), T_OWN_IT.load(std::sync::atomic::Ordering::Relaxed), T_FIT.load(std::sync::atomic::Ordering::Relaxed));
    ctx.extra("multinomial_partitions", json!(n_partitions));
    ctx.extra("multinomial_cases_enumerated", json!(multi_expected));
    ctx.extra("multinomial_cases_run", json!(multi_done));

    // ------------------------------------------------------------------ Tweedie
    let design1: Vec<Vec<f64>> = (0..5).map(|i| vec![i as f64 * 0.5]).collect();
    let design2: Vec<Vec<f64>> = (0..6).map(|i| vec![(i / 2) as f64 * 0.5, (i % 2) as f64]).collect();
    // alphabets: name -> letters; which (power, link) pairs use which alphabet is decided below
    let alphabets: Vec<(&'static str, Vec<f64>)> = vec![("unit_interval", vec![0.2, 0.5, 0.9]), ("real", vec![-1.0, 0.5, 2.0]), ("nonneg", vec![0.0, 1.0, 3.0]), ("pos", vec![0.5, 1.0, 3.0])];
    let mut tgroups: Vec<TwGroup> = Vec::new();
    for (aname, letters) in &alphabets {
        for seq in lvmc_core::enumerate::sequences(5, 3) {
            tgroups.push(TwGroup { family: "1d5", pts: design1.clone(), y: seq.iter().map(|&i| letters[i]).collect(), alphabet: aname });
        }
        let a2 = ctx.pick(2usize, 3usize);
        for seq in lvmc_core::enumerate::sequences(6, a2) {
            // the 2-letter quick alphabet uses the first and the last letter
            let pick = |i: usize| if a2 == 2 { letters[i * 2] } else { letters[i] };
            tgroups.push(TwGroup { family: "2d6", pts: design2.clone(), y: seq.iter().map(|&i| pick(i)).collect(), alphabet: aname });
        }
    }
    let powers = [0.0, 1.0, 1.5, 2.0, 3.0];
    let links = ["identity", "log", "logit"];
    let tw_alphas = [0.0, 0.1, 1.0];
    // alphabet used by a (power, link) pair
    let alphabet_for = |p: f64, link: &str| -> &'static str {
        if link == "logit" {
            "unit_interval"
        } else if p == 0.0 {
            "real"
        } else if p < 2.0 {
            "nonneg"
        } else {
            "pos"
        }
    };
    let tw_expected = std::sync::atomic::AtomicU64::new(0);
    par_sweep(&ctx, "tweedie", &tgroups, |g| {
        let mut local = Tally::default();
        for &p in &powers {
            for link in links {
                if alphabet_for(p, link) != g.alphabet {
                    continue;
                }
                for &alpha in &tw_alphas {
                    for intercept in [true, false] {
                        let case = Case::Tweedie(TwCase { family: g.family.to_string(), x: g.pts.clone(), y: g.y.clone(), power: p, link: link.to_string(), alpha, intercept, tol: GTOL, max_iter: MAX_ITER as usize });
                        let mut v = Vec::new();
                        let o = run_case(&case, &mut v);
                        record(&ctx, &tally, &mut local, o, v);
                        tw_expected.fetch_add(1, std::sync::atomic::Ordering::Relaxed);
                        ctx.sample(|| serde_json::to_value(&case).unwrap());
                    }
                }
            }
        }
        merge(&tally, local);
    });
    // targets outside the support: every position x every bad value, on a fixed in-support base vector
    let mut range_cases: Vec<Case> = Vec::new();
    for &p in &powers[1..] {
        let bads: Vec<f64> = if p < 2.0 { vec![-1.0, -1e-9] } else { vec![-1.0, -1e-9, 0.0] };
        for link in links {
            for intercept in [true, false] {
                for (fam, pts) in [("1d5", &design1), ("2d6", &design2)] {
                    for pos in 0..pts.len() {
                        for &bad in &bads {
                            let mut y: Vec<f64> = (0..pts.len()).map(|i| if link == "logit" { 0.2 + 0.1 * i as f64 } else { 0.5 + i as f64 }).collect();
                            y[pos] = bad;
                            range_cases.push(Case::Tweedie(TwCase { family: fam.to_string(), x: pts.clone(), y, power: p, link: link.to_string(), alpha: 0.1, intercept, tol: GTOL, max_iter: MAX_ITER as usize }));
                        }
                    }
                }
            }
        }
    }
    par_sweep(&ctx, "tweedie support", &range_cases, |case| {
        let mut local = Tally::default();
        let mut v = Vec::new();
        let o = run_case(case, &mut v);
        record(&ctx, &tally, &mut local, o, v);
        merge(&tally, local);
    });
    eprintln!("TW T_OWN {} us, iters {}, T_FIT {} us", T_OWN.load(std::sync::atomic::Ordering::Relaxed), T_OWN_IT.load(std::sync::atomic::Ordering::Relaxed), T_FIT.load(std::sync::atomic::Ordering::Relaxed));
    let t = tally.lock().unwrap();
    let tw_done = t.cases - bin_done - multi_done;
    let tw_enumerated = tw_expected.load(std::sync::atomic::Ordering::Relaxed) + range_cases.len() as u64;
    ctx.extra("tweedie_cases_enumerated", json!(tw_enumerated));
    ctx.extra("tweedie_cases_run", json!(tw_done));
    ctx.extra("tweedie_out_of_support_cases", json!(range_cases.len()));
    ctx.extra("prediction_queries", json!(t.queries));
    ctx.extra("extreme_queries_with_score_above_100", json!(t.extreme));
    ctx.extra("max_score_at_certified_alpha0_optimum", json!(t.max_own_score));
    for (k, v) in &t.tags {
        ctx.extra(k, json!(v));
    }
    if bin_done != bin_expected || multi_done != multi_expected {
        ctx.capped(&format!("cases run {} + {} != enumerated {} + {}", bin_done, multi_done, bin_expected, multi_expected));
    }
    drop(t);
    ctx.finish(&replay_value);
}
