//! Binary logistic regression: stationarity of the returned parameters for the documented
//! objective, class set, probabilities and threshold decision.

use crate::refopt::{self, norm2};
use crate::Out;
use linfa::traits::{Fit, Predict, PredictInplace};
use crate::layout::{expand, lay, lay_targets};
use linfa::DatasetBase;
use linfa_logistic::LogisticRegression;
use lvmc_core::{guarded, Violation};
use ndarray::Array1;
use serde::{Deserialize, Serialize};

#[derive(Clone, Debug, Serialize, Deserialize)]
pub struct BinCase {
    pub family: String,
    /// records in the order they are handed to linfa (already scaled)
    pub x: Vec<Vec<f64>>,
    /// group (0 / 1) of every sample, same order
    pub groups: Vec<u8>,
    pub label_type: String, // bool | usize | str | string
    pub naming: u8,         // 0 | 1: which literal values the two groups get
    pub alpha: f64,
    pub intercept: bool,
    /// initial parameters [w.., b] (None = library default of zeros)
    pub init: Option<Vec<f64>>,
    pub gtol: f64,
    pub max_iter: u64,
    /// max_iterations of the refit that decides a failed stationarity test (0 = no refit)
    #[serde(default)]
    pub retry_max_iter: u64,
    pub order: String,
    pub scale: f64,
    /// rows (and groups) are cycled to this many samples (replicated lattice)
    #[serde(default)]
    pub n_rows: Option<usize>,
    /// memory layout of the records handed to fit / of the query matrix handed to predict*
    #[serde(default = "crate::std_layout")]
    pub fit_layout: String,
    #[serde(default = "crate::std_layout")]
    pub query_layout: String,
    /// element type of the subject: f64 | f32
    #[serde(default = "crate::f64_name")]
    pub float: String,
    /// builder history: order in which the five setters (0 alpha, 1 with_intercept, 2 max_iterations,
    /// 3 gradient_tolerance, 4 initial_params) are called (None = canonical 0..4), whether every field is first
    /// written with a decoy value, and the constructor (default | new)
    #[serde(default)]
    pub setter_order: Option<Vec<u8>>,
    #[serde(default)]
    pub decoys: bool,
    #[serde(default = "crate::default_ctor")]
    pub ctor: String,
    /// setters that are NOT called at all: the case then carries the documented default of that parameter
    /// (alpha 1, intercept on, max_iterations 100, gradient_tolerance 1e-4, no initial parameters)
    #[serde(default)]
    pub skip_setters: Vec<u8>,
    /// layout of the 1-D target array handed to fit (standard | reversed_view | stepped_view | owned_inverted)
    #[serde(default = "crate::std_layout")]
    pub target_layout: String,
    /// label naming: the dataset is built with the group indices as targets and renamed through
    /// `DatasetBase::map_targets` (as in the crate's documentation) instead of being built with the names
    #[serde(default)]
    pub naming_via_map_targets: bool,
    /// MIS-SHAPED start: the given initial parameters get this many rows more (+1) / fewer (-1) than the configured
    /// model needs; oracle: Err(InitialParameter*Mismatch), or Ok and then every oracle holds for the configured model
    #[serde(default)]
    pub init_rows_delta: i8,
}

pub const OWN_SCORE_BOUND: f64 = 15.0;

pub fn run(case: &BinCase, viols: &mut Vec<Violation>) -> Out {
    // parameters whose setter is never called carry the documented default
    let mut normalised = case.clone();
    for &s in &case.skip_setters {
        match s {
            0 => normalised.alpha = 1.0,
            1 => normalised.intercept = true,
            2 => {
                normalised.max_iter = 100;
                normalised.retry_max_iter = 0;
            }
            3 => normalised.gtol = 1e-4,
            _ => normalised.init = None,
        }
    }
    let case = &normalised;
    let builder_variant = case.setter_order.is_some() || case.decoys || case.ctor != "default";
    let target_variant = case.target_layout != "standard" || case.naming_via_map_targets;
    if case.fit_layout == "standard" && case.query_layout == "standard" && !builder_variant && !target_variant {
        return run_inner(case, viols);
    }
    // variant case (other layout / other builder history): the canonical run of the same case is the baseline; what
    // only the variant breaks is reported as `<thing>.layout_dependence` / `<thing>.params.builder_order_dependence`
    let mut base = case.clone();
    base.fit_layout = "standard".into();
    base.query_layout = "standard".into();
    base.setter_order = None;
    base.decoys = false;
    base.ctor = "default".into();
    base.target_layout = "standard".into();
    base.naming_via_map_targets = false;
    let mut bv = Vec::new();
    let bo = run_inner(&base, &mut bv);
    if !bv.is_empty() || bo.ood {
        viols.extend(bv);
        return bo;
    }
    let mut lv = Vec::new();
    let o = run_inner(case, &mut lv);
    if builder_variant {
        let sig = if case.ctor != "default" { "logistic.params.constructor_dependence" } else { "logistic.params.builder_order_dependence" };
        let cj = serde_json::to_value(crate::Case::Binary(case.clone())).unwrap();
        if lv.is_empty() && o.fingerprint != bo.fingerprint {
            viols.push(Violation::new(sig, format!("same logical parameter set, setters called in order {:?} (decoys first: {}, constructor {}): fitted parameters / probabilities are not bit-identical to those of the canonical builder order", case.setter_order, case.decoys, case.ctor), cj.clone()));
        }
        for v in lv {
            viols.push(Violation::new(sig, format!("the canonical builder order passes every check; setters in order {:?} (decoys first: {}, constructor {}): [{}] {}", case.setter_order, case.decoys, case.ctor, v.sig, v.what), cj.clone()));
        }
    } else if target_variant {
        let sig = if case.naming_via_map_targets { "logistic.fit.map_targets_dependence" } else { "logistic.fit.target_layout_dependence" };
        let cj = serde_json::to_value(crate::Case::Binary(case.clone())).unwrap();
        if lv.is_empty() && o.fingerprint != bo.fingerprint {
            viols.push(Violation::new(sig, format!("same samples and labels, targets handed over as '{}' (named through map_targets: {}): fitted parameters / probabilities are not bit-identical to those of the dataset built directly with a standard-layout label array", case.target_layout, case.naming_via_map_targets), cj.clone()));
        }
        for v in lv {
            viols.push(Violation::new(sig, format!("the dataset built directly with a standard-layout label array passes every check; targets handed over as '{}' (named through map_targets: {}): [{}] {}", case.target_layout, case.naming_via_map_targets, v.sig, v.what), cj.clone()));
        }
    } else {
        for v in lv {
            viols.push(crate::as_layout_dependence(v, &case.fit_layout, &case.query_layout));
        }
    }
    o
}

fn run_inner(case: &BinCase, viols: &mut Vec<Violation>) -> Out {
    macro_rules! go {
        ($f:ident) => {
            match (case.label_type.as_str(), case.naming) {
                ("bool", 0) => $f::<bool>(case, [false, true], viols),
                ("bool", _) => $f::<bool>(case, [true, false], viols),
                ("usize", 0) => $f::<usize>(case, [0, 1], viols),
                ("usize", _) => $f::<usize>(case, [7, 3], viols),
                ("str", 0) => $f::<&'static str>(case, ["cat", "dog"], viols),
                ("str", _) => $f::<&'static str>(case, ["zebra", "ant"], viols),
                ("string", 0) => $f::<String>(case, ["cat".to_string(), "dog".to_string()], viols),
                ("string", _) => $f::<String>(case, ["zebra".to_string(), "ant".to_string()], viols),
                _ => panic!("bad label type"),
            }
        };
    }
    match case.float.as_str() {
        "f64" => go!(typed_f64),
        "f32" => go!(typed_f32),
        _ => panic!("bad float type"),
    }
}

macro_rules! typed_impl {
    ($name:ident, $F:ty, $is32:expr) => {
fn $name<C: Ord + Clone + Default + std::fmt::Debug + 'static>(case: &BinCase, cls: [C; 2], viols: &mut Vec<Violation>) -> Out {
    let mut out = Out::default();
    let is32: bool = $is32;
    let alpha_s = (case.alpha as $F) as f64;
    // the data as the subject sees them (replicated to n_rows, rounded to its float type)
    let xs: Vec<Vec<f64>> = expand(&case.x, case.n_rows).iter().map(|r| r.iter().map(|&v| (v as $F) as f64).collect()).collect();
    let groups: Vec<u8> = expand(&case.groups, case.n_rows);
    let n = xs.len();
    let d = xs[0].len();
    let cj = || serde_json::to_value(crate::Case::Binary(case.clone())).unwrap();
    // tolerances: f64 as in DESIGN 3.6; f32: probabilities 2e-6, tie margin 1e-6, objective gap 1e-5 relative
    // (40 ulp of an f32 cost, the solver cannot resolve less) and a gradient allowance of 1e-5 * sum_i |z_i|
    // for the f32 rounding of the solver's own gradient
    let gscale: f64 = xs.iter().map(|r| r.iter().map(|v| v.abs()).sum::<f64>() + 1.0).sum();
    let (ptol, margin, gap_rel, g_extra) = if is32 { (2e-6, 1e-6, 1e-5, 1e-5 * gscale) } else { (1e-9, 1e-9, 1e-8, 0.0) };
    let gthr = 10.0 * case.gtol + g_extra;
    let xmax = xs.iter().flatten().fold(0.0f64, |m, v| m.max(v.abs())).max(1.0);

    // ---- domain (alpha = 0 needs a finite maximiser of the likelihood) ----
    // group 1 is coded +1 for the domain test (the test is symmetric in the sign of y)
    let y_dom: Vec<f64> = groups.iter().map(|&g| if g == 1 { 1.0 } else { -1.0 }).collect();
    let exact = refopt::weakly_separable(&xs, &y_dom, case.intercept);
    if case.alpha == 0.0 {
        match exact {
            Some(false) => {}
            Some(true) => {
                out.ood = true;
                out.tag("binary_alpha0_separable_out_of_domain");
                return out;
            }
            None => {
                out.ood = true;
                out.tag("binary_alpha0_rank_deficient_out_of_domain");
                return out;
            }
        }
    }

    // ---- fit with the real code ----
    let rows: Vec<Vec<$F>> = xs.iter().map(|r| r.iter().map(|&v| v as $F).collect()).collect();
    let laid = lay(&rows, &case.fit_layout, <$F>::NAN);
    let named: Vec<C> = groups.iter().map(|&g| cls[g as usize].clone()).collect();
    let gidx: Vec<usize> = groups.iter().map(|&g| g as usize).collect();
    let ncls = cls.len();
    // targets in the requested layout; filler entries of the stepped view hold a DIFFERENT class
    let t_named = lay_targets(&named, &case.target_layout, &|i| cls[(groups[i] as usize + 1) % ncls].clone());
    let t_idx = lay_targets(&gidx, &case.target_layout, &|i| (groups[i] as usize + 1) % ncls);
    let lookup = cls.clone();
    let build = |order: &[u8], decoys: bool, ctor: &str| {
        let mut p = if ctor == "new" { LogisticRegression::<$F>::new() } else { LogisticRegression::<$F>::default() };
        let np = d + case.intercept as usize;
        for pass in 0..2 {
            if pass == 0 && !decoys {
                continue;
            }
            let decoy = pass == 0;
            for &s in order {
                if case.skip_setters.contains(&s) {
                    continue;
                }
                p = match s {
                    0 => p.alpha(if decoy { 7.5 } else { case.alpha as $F }),
                    1 => p.with_intercept(if decoy { !case.intercept } else { case.intercept }),
                    2 => p.max_iterations(if decoy { 3 } else { case.max_iter }),
                    3 => p.gradient_tolerance(if decoy { 0.5 } else { case.gtol as $F }),
                    _ => match &case.init {
                        Some(init) => p.initial_params(if decoy { Array1::from_elem(np, 1.0) } else { {
                            let mut v: Vec<$F> = init.iter().map(|&v| v as $F).collect();
                            if case.init_rows_delta > 0 {
                                v.push(0.05);
                            } else if case.init_rows_delta < 0 {
                                v.pop();
                            }
                            Array1::from(v)
                        } }),
                        None => p,
                    },
                };
            }
        }
        p
    };
    let canonical: Vec<u8> = vec![0, 1, 2, 3, 4];
    let params = build(case.setter_order.as_deref().unwrap_or(&canonical), case.decoys, &case.ctor);
    if case.setter_order.is_some() || case.decoys || case.ctor != "default" {
        // (a) the parameter set itself must be the one the canonical history produces
        let reference = build(&canonical, false, "default");
        if params != reference || format!("{:?}", params) != format!("{:?}", reference) {
            viols.push(Violation::new(
                "logistic.params.differ_from_canonical_history",
                format!("setters in order {:?} (decoys first: {}, constructor {}) give {:?}, the canonical history gives {:?}", case.setter_order, case.decoys, case.ctor, params, reference),
                cj(),
            ));
        }
    }
    let do_fit = |p: &LogisticRegression<$F>| {
        guarded(|| {
            let rec = laid.view();
            match (t_named.is_owned_kind(), case.naming_via_map_targets) {
                (false, false) => p.fit(&DatasetBase::new(rec, t_named.view())),
                (true, false) => p.fit(&DatasetBase::new(rec, t_named.owned())),
                (false, true) => p.fit(&DatasetBase::new(rec, t_idx.view()).map_targets(|g| lookup[*g].clone())),
                (true, true) => p.fit(&DatasetBase::new(rec, t_idx.owned()).map_targets(|g| lookup[*g].clone())),
            }
        })
    };
    let mut model = match do_fit(&params) {
        Ok(Ok(m)) => m,
        Ok(Err(linfa_logistic::error::Error::InitialParameterFeaturesMismatch { .. })) if case.init_rows_delta != 0 => {
            out.tag("mis_shaped_initial_params_rejected");
            return out;
        }
        Ok(Err(e)) => {
            let msg = format!("{}", e);
            let sig = if is32 && msg.contains("not finite") { "logistic.fit.error_nonfinite_loss.f32" } else { "logistic.fit.unexpected_error" };
            viols.push(Violation::new(sig, format!("fit on an in-domain two-class dataset returned Err({})", msg), cj()));
            return out;
        }
        Err(p) => {
            viols.push(Violation::new("logistic.fit.panic", format!("fit on an in-domain two-class dataset panicked: {}", p), cj()));
            return out;
        }
    };

    // ---- slow but healthy convergence must not be mistaken for a wrong fixed point: when the first fit
    //      (max_iter) fails the stationarity test, the verdict is taken from a refit with retry_max_iter ----
    if case.retry_max_iter > case.max_iter {
        let m = &model;
        let pos_is_1 = m.labels().pos.class == cls[1];
        let yv: Vec<f64> = groups.iter().map(|&g| if (g == 1) == pos_is_1 { 1.0 } else { -1.0 }).collect();
        let mut theta: Vec<f64> = m.params().iter().map(|&v| v as f64).collect();
        if case.intercept {
            theta.push(m.intercept() as f64);
        }
        if theta.len() == d + case.intercept as usize {
            if let Some(e) = refopt::bin_eval(&xs, &yv, alpha_s, case.intercept, &theta) {
                let fgh0 = |t: &[f64]| refopt::bin_eval(&xs, &yv, alpha_s, case.intercept, t);
                if norm2(&e.g) > gthr {
                    let own0 = refopt::lm_newton(&fgh0, &vec![0.0; theta.len()], 1e-10 * xmax, 200);
                    if own0.converged && e.f - own0.f > gap_rel * own0.f.abs().max(1.0) {
                        out.tag("binary_refits_with_retry_max_iter");
                        match do_fit(&params.clone().max_iterations(case.retry_max_iter)) {
                            Ok(Ok(m2)) => model = m2,
                            Ok(Err(e)) => {
                                viols.push(Violation::new("logistic.fit.unexpected_error", format!("refit with max_iterations {} returned Err({})", case.retry_max_iter, e), cj()));
                                return out;
                            }
                            Err(p) => {
                                viols.push(Violation::new("logistic.fit.panic", format!("refit panicked: {}", p), cj()));
                                return out;
                            }
                        }
                    }
                }
            }
        }
    }

    // ---- class set ----
    let labels = model.labels();
    let (pos, neg) = (labels.pos.class.clone(), labels.neg.class.clone());
    let set_ok = (pos == cls[0] && neg == cls[1]) || (pos == cls[1] && neg == cls[0]);
    if !set_ok || labels.pos.label as f64 != 1.0 || labels.neg.label as f64 != -1.0 {
        viols.push(Violation::new(
            "logistic.labels.wrong_class_set",
            format!("trained on classes {:?}, labels() reports pos={:?} ({}) neg={:?} ({})", cls, pos, labels.pos.label, neg, labels.neg.label),
            cj(),
        ));
        return out;
    }
    let pos_group: u8 = if pos == cls[1] { 1 } else { 0 };
    // bookkeeping for the documentation / test contradiction about which class is coded +1
    {
        let larger_by_ord = if cls[1] > cls[0] { 1 } else { 0 };
        if pos_group == larger_by_ord {
            out.tag("binary_pos_is_larger_class_by_ord");
        } else {
            out.tag("binary_pos_is_smaller_class_by_ord");
        }
        let c1 = groups.iter().filter(|&&g| g == 1).count();
        let c0 = n - c1;
        let first = groups[0];
        let by_count = if c1 > c0 { 1 } else if c0 > c1 { 0 } else { first };
        if pos_group == by_count {
            out.tag("binary_pos_is_more_frequent_class_or_first_seen_on_tie");
        } else {
            out.tag("binary_pos_is_neither_rule");
        }
    }
    let yv: Vec<f64> = groups.iter().map(|&g| if g == pos_group { 1.0 } else { -1.0 }).collect();

    // ---- returned parameters ----
    let w: Vec<f64> = model.params().iter().map(|&v| v as f64).collect();
    let b = model.intercept() as f64;
    if w.len() != d {
        viols.push(Violation::new("logistic.params.wrong_length", format!("params() has {} entries for {} features", w.len(), d), cj()));
        return out;
    }
    if w.iter().any(|v| !v.is_finite()) || !b.is_finite() {
        viols.push(Violation::new("logistic.fit.nonfinite_params", format!("returned params {:?} intercept {}", w, b), cj()));
        return out;
    }
    if !case.intercept && b != 0.0 {
        viols.push(Violation::new("logistic.intercept.nonzero_without_intercept", format!("with_intercept(false) but intercept() = {}", b), cj()));
    }
    let mut theta = w.clone();
    if case.intercept {
        theta.push(b);
    }
    out.nontrivial = w.iter().any(|&v| v != 0.0);

    // ---- stationarity: own gradient of the documented objective + own Newton solve ----
    let fgh = |t: &[f64]| refopt::bin_eval(&xs, &yv, alpha_s, case.intercept, t);
    let at = fgh(&theta).expect("finite objective at finite parameters");
    let gn = norm2(&at.g);
    let own = refopt::lm_newton(&fgh, &vec![0.0; theta.len()], 1e-10 * xmax, 200);
    let own_scores = xs.iter().map(|xi| refopt::bin_score(xi, &own.x, case.intercept).abs()).fold(0.0f64, f64::max);
    let certified = own.converged && (case.alpha > 0.0 || own_scores <= OWN_SCORE_BOUND);
    if case.alpha == 0.0 {
        out.max_own_score = own_scores;
    }
    if !certified {
        // the exact test says a finite maximiser exists but the own solver could not certify it
        out.indeterminate += 1;
        out.tag("binary_own_newton_not_certified");
        out.nontrivial = false;
    } else {
        let gap = at.f - own.f;
        let gap_tol = gap_rel * own.f.abs().max(1.0);
        if gn > gthr {
            out.tag("binary_gradient_above_10tol");
        }
        if gn > gthr && gap > gap_tol {
            viols.push(Violation::new(
                "logistic.fit.not_stationary",
                format!(
                    "returned w={:?} b={} (max_iterations {}): own gradient norm of the documented objective {:.3e} > 10 x gradient_tolerance {:.1e} (+ f32 allowance) AND objective {:.12} exceeds the own Newton minimum {:.12} (at {:?}) by {:.3e} > {:.1e}",
                    w, b, case.retry_max_iter.max(case.max_iter), gn, case.gtol, at.f, own.f, own.x, gap, gap_tol
                ),
                cj(),
            ));
        }
        if gap < -1e-7 * own.f.abs().max(1.0) {
            // the reference minimiser must never be beaten: that would be a bug of the harness
            viols.push(Violation::new("harness.binary.reference_minimum_beaten", format!("linfa objective {} < own minimum {}", at.f, own.f), cj()));
        }
    }

    // ---- probabilities and decisions ----
    let mut queries: Vec<Vec<f64>> = xs.clone();
    queries.push(vec![0.0; d]);
    let ww: f64 = w.iter().map(|v| v * v).sum();
    if ww > 0.0 && ww.is_finite() {
        for t in [1.0, 20.0, 40.0, 710.0, 1000.0] {
            for s in [1.0, -1.0] {
                // x.w = s*t - b  (so that the score is exactly +-t up to rounding) and x.w = s*t
                queries.push(w.iter().map(|v| v * (s * t - b) / ww).collect());
                queries.push(w.iter().map(|v| v * (s * t) / ww).collect());
            }
        }
    }
    queries.push(vec![1e3; d]);
    queries.push(vec![-1e3; d]);
    // as the subject sees them
    let queries: Vec<Vec<f64>> = queries.into_iter().map(|r| r.into_iter().map(|v| (v as $F) as f64).collect::<Vec<f64>>()).filter(|r| r.iter().all(|v| v.abs() < 1e30)).collect();
    let qrows: Vec<Vec<$F>> = queries.iter().map(|r| r.iter().map(|&v| v as $F).collect()).collect();
    let qlaid = lay(&qrows, &case.query_layout, <$F>::NAN);
    let q = qlaid.view();
    let thresholds: [Option<f64>; 4] = [None, Some(0.0), Some(0.3), Some(1.0)];
    for thr in thresholds {
        let m = match thr {
            None => model.clone(),
            Some(t) => model.clone().set_threshold(t as $F),
        };
        let is_default_thr = thr.is_none();
        let tval = (thr.unwrap_or(0.5) as $F) as f64;
        let res = guarded(|| (m.predict_probabilities(&q), m.predict(&q)));
        let (probs, pred) = match res {
            Ok(r) => r,
            Err(p) => {
                viols.push(Violation::new("logistic.predict.panic", format!("prediction on finite queries panicked: {}", p), cj()));
                return out;
            }
        };
        if is_default_thr {
            out.fingerprint = w.iter().chain(std::iter::once(&b)).map(|v| v.to_bits()).chain(probs.iter().map(|&v| (v as f64).to_bits())).collect();
        }
        // ---- predict_inplace into caller-owned buffers must overwrite EVERY entry ----
        {
            let nq = queries.len();
            let opposite: Array1<C> = pred.mapv(|c| if c == pos { neg.clone() } else { pos.clone() });
            let rev_rows: Vec<Vec<$F>> = qrows.iter().rev().cloned().collect();
            let rev_laid = lay(&rev_rows, "standard", <$F>::NAN);
            let q2 = rev_laid.view();
            let r = guarded(|| {
                let mut a = opposite.clone();
                m.predict_inplace(&q, &mut a);
                let mut d0: Array1<C> = Array1::default(nq);
                m.predict_inplace(&q, &mut d0);
                let plain2 = m.predict(&q2);
                let mut reused = a.clone(); // holds the answers of the first batch
                m.predict_inplace(&q2, &mut reused);
                (a, d0, plain2, reused)
            });
            match r {
                Err(p) => viols.push(Violation::new("logistic.predict_inplace.panic", format!("predict_inplace into a caller-owned buffer panicked: {}", p), cj())),
                Ok((a, d0, plain2, reused)) => {
                    out.tag("predict_inplace_buffer_checks");
                    for (what, got, want) in [("pre-filled with the opposite class", &a, &pred), ("pre-filled with C::default()", &d0, &pred), ("reused from the previous batch (rows reversed)", &reused, &plain2)] {
                        if got != want {
                            let i = (0..nq).find(|&i| got[i] != want[i]).unwrap();
                            viols.push(Violation::new(
                                "logistic.predict_inplace.stale_buffer",
                                format!("predict_inplace into a buffer {} (threshold {}): entry {} is {:?}, predict() gives {:?} (classes pos={:?} neg={:?})", what, tval, i, got[i], want[i], pos, neg),
                                cj(),
                            ));
                            break;
                        }
                    }
                }
            }
            // through the composing wrapper (it allocates Array1::default itself)
            if is_default_thr {
                let q_owned = q.to_owned();
                let m2 = model.clone().set_threshold(0.3 as $F);
                let m_a = m.clone();
                let r = guarded(|| {
                    let mtm: linfa::composing::MultiTargetModel<ndarray::Array2<$F>, C> = vec![m_a, m2.clone()].into_iter().collect();
                    (mtm.predict(&q_owned), m2.predict(&q_owned))
                });
                match r {
                    Err(p) => viols.push(Violation::new("logistic.multi_target_model.panic", format!("MultiTargetModel of two fitted models panicked: {}", p), cj())),
                    Ok((both, p2)) => {
                        let ok = both.dim() == (nq, 2) && (0..nq).all(|i| both[(i, 0)] == pred[i] && both[(i, 1)] == p2[i]);
                        if !ok {
                            let i = (0..nq).find(|&i| both.dim() != (nq, 2) || both[(i, 0)] != pred[i] || both[(i, 1)] != p2[i]).unwrap_or(0);
                            viols.push(Violation::new(
                                "logistic.multi_target_model.wrong_labels",
                                format!("MultiTargetModel[model, model.set_threshold(0.3)].predict: row {} is {:?}, the single models predict {:?} / {:?} (classes pos={:?} neg={:?})", i, both.row(i.min(both.nrows().saturating_sub(1))).to_vec(), pred[i], p2[i], pos, neg),
                                cj(),
                            ));
                        }
                    }
                }
            }
        }
        // ---- every calling form of predict (array ref, owned array, owned dataset, dataset ref, dataset of a view)
        //      and a one-row batch must agree with predict(&array) ----
        if is_default_thr {
            let nq = queries.len();
            let q_owned = q.to_owned();
            let r = guarded(|| {
                let a: DatasetBase<ndarray::Array2<$F>, Array1<C>> = m.predict(q_owned.clone());
                let b: DatasetBase<ndarray::Array2<$F>, Array1<C>> = m.predict(DatasetBase::new(q_owned.clone(), Array1::<u8>::zeros(nq)));
                let dsq = DatasetBase::new(q_owned.clone(), Array1::<u8>::zeros(nq));
                let c: Array1<C> = m.predict(&dsq);
                let dsv = DatasetBase::new(q.clone(), Array1::<u8>::zeros(nq));
                let d2: Array1<C> = m.predict(&dsv);
                let one = q.slice(ndarray::s![0..1, ..]);
                let e: Array1<C> = m.predict(&one);
                let e2: DatasetBase<ndarray::Array2<$F>, Array1<C>> = m.predict(one.to_owned());
                let pp = m.predict_probabilities(&one);
                (vec![("owned array", a.targets), ("owned dataset", b.targets), ("&dataset", c), ("&dataset of a view", d2)], e, e2.targets, pp)
            });
            match r {
                Err(p) => viols.push(Violation::new("logistic.predict.calling_form_panic", format!("a calling form of predict panicked: {}", p), cj())),
                Ok((forms, e, e2, pp)) => {
                    out.tag("predict_calling_form_checks");
                    for (name, got) in &forms {
                        if got != &pred {
                            viols.push(Violation::new("logistic.predict.calling_form_dependence", format!("predict({}) = {:?}, predict(&array) = {:?}", name, got, pred), cj()));
                            break;
                        }
                    }
                    if e.len() != 1 || e2.len() != 1 || pp.len() != 1 || e[0] != pred[0] || e2[0] != pred[0] || ((pp[0] as f64) - (probs[0] as f64)).abs() > ptol {
                        viols.push(Violation::new(
                            "logistic.predict.one_row_batch_differs",
                            format!("one-row batch: predict(&row) = {:?}, predict(owned row) = {:?}, probability {:?}; the same row inside the full batch: {:?}, {}", e, e2, pp, pred[0], probs[0]),
                            cj(),
                        ));
                    }
                }
            }
        }
        for (i, qi) in queries.iter().enumerate() {
            out.queries += 1;
            let p = probs[i] as f64;
            let s = refopt::bin_score(qi, &w, false) + b;
            let pref = refopt::sigmoid(s);
            if !p.is_finite() || !(0.0..=1.0).contains(&p) {
                viols.push(Violation::new("logistic.predict_probabilities.out_of_range", format!("query {:?} (score {}): probability {}", qi, s, p), cj()));
                continue;
            }
            // rounding of the score itself (|s| up to 1e3) moves the probability by <= |s| * 2^-50 * p(1-p)
            // the subject's own logit x.w + b carries a rounding error of a few eps * (sum_j |x_j w_j| + |b|) (large terms
            // that cancel); it reaches the probability through the slope p (1 - p) of the sigmoid
            let eps_f = if is32 { 1.2e-7 } else { 2.3e-16 };
            let opmag: f64 = qi.iter().zip(&w).map(|(a, c)| (a * c).abs()).sum::<f64>() + b.abs();
            let slope = (p * (1.0 - p)).max(pref * (1.0 - pref));
            if (p - pref).abs() > ptol + slope * 8.0 * eps_f * opmag {
                viols.push(Violation::new(
                    "logistic.predict_probabilities.wrong_value",
                    format!("query {:?}: probability {} but sigm(x.w + b) = {}", qi, p, pref),
                    cj(),
                ));
                continue;
            }
            if s.abs() > 100.0 {
                out.extreme_queries += 1;
            }
            let want_pos = if p == tval {
                out.tag("binary_exact_threshold_ties");
                Some(true) // "minimum probability needed" (rustdoc of LogisticRegression / set_threshold)
            } else if (p - tval).abs() <= margin {
                None
            } else {
                Some(p > tval)
            };
            match want_pos {
                None => out.indeterminate += 1,
                Some(wp) => {
                    let want = if wp { &pos } else { &neg };
                    if &pred[i] != want {
                        let sig = if p == tval { "logistic.predict.exact_threshold_not_positive" } else { "logistic.predict.class_contradicts_probability" };
                        viols.push(Violation::new(
                            sig,
                            format!("query {:?}: probability {} threshold {} implies class {:?}, predict returned {:?}", qi, p, tval, want, pred[i]),
                            cj(),
                        ));
                    }
                }
            }
        }
    }
    out
}
    };
}

typed_impl!(typed_f64, f64, false);
typed_impl!(typed_f32, f32, true);
