//! Reference side of C12: the DOCUMENTED objectives in plain f64 (Vec based, no linfa / ndarray
//! code), their analytic gradients / Hessians, and a boring damped Newton (Levenberg-Marquardt)
//! minimiser used (a) as the existence certificate of a finite minimiser and (b) as the
//! objective-gap cross-check of the stationarity oracle.

pub type Mat = Vec<Vec<f64>>;

pub struct Eval {
    pub f: f64,
    pub g: Vec<f64>,
    pub h: Mat,
}

#[derive(Clone, Debug)]
pub struct MinResult {
    pub x: Vec<f64>,
    pub f: f64,
    pub gnorm: f64,
    pub iters: usize,
    pub converged: bool,
}

pub fn norm2(v: &[f64]) -> f64 {
    v.iter().map(|x| x * x).sum::<f64>().sqrt()
}

/// Gaussian elimination with partial pivoting (own copy; tiny systems).
fn solve(a: &Mat, b: &[f64]) -> Option<Vec<f64>> {
    let n = a.len();
    let mut m: Mat = a
        .iter()
        .zip(b)
        .map(|(r, &bi)| {
            let mut r = r.clone();
            r.push(bi);
            r
        })
        .collect();
    for c in 0..n {
        let mut piv = c;
        for r in c + 1..n {
            if m[r][c].abs() > m[piv][c].abs() {
                piv = r;
            }
        }
        if !(m[piv][c].abs() > 1e-300) || !m[piv][c].is_finite() {
            return None;
        }
        m.swap(c, piv);
        for r in c + 1..n {
            let f = m[r][c] / m[c][c];
            if f != 0.0 {
                for k in c..=n {
                    m[r][k] -= f * m[c][k];
                }
            }
        }
    }
    let mut x = vec![0.0; n];
    for i in (0..n).rev() {
        let mut s = m[i][n];
        for k in i + 1..n {
            s -= m[i][k] * x[k];
        }
        x[i] = s / m[i][i];
        if !x[i].is_finite() {
            return None;
        }
    }
    Some(x)
}

/// Damped Newton with Marquardt scaling: solves (H + mu diag(H)) d = -g, accepts a step only when
/// the objective does not increase (and the gradient shrinks when the objective is flat to
/// rounding). `fgh` returns None where the objective is undefined / not finite.
pub fn lm_newton(fgh: &dyn Fn(&[f64]) -> Option<Eval>, x0: &[f64], gtol: f64, max_iter: usize) -> MinResult {
    let mut x = x0.to_vec();
    let mut cur = match fgh(&x) {
        Some(e) => e,
        None => {
            return MinResult { x, f: f64::NAN, gnorm: f64::NAN, iters: 0, converged: false };
        }
    };
    let n = x.len();
    let mut mu = 1e-3;
    let mut iters = 0;
    while iters < max_iter {
        let gn = norm2(&cur.g);
        if gn <= gtol {
            return MinResult { x, f: cur.f, gnorm: gn, iters, converged: true };
        }
        iters += 1;
        let mut accepted = false;
        for _try in 0..80 {
            let mut a = cur.h.clone();
            for i in 0..n {
                let dii = cur.h[i][i].abs().max(1e-12);
                a[i][i] += mu * dii;
            }
            let rhs: Vec<f64> = cur.g.iter().map(|v| -v).collect();
            let d = match solve(&a, &rhs) {
                Some(d) => d,
                None => {
                    mu *= 10.0;
                    continue;
                }
            };
            let xn: Vec<f64> = x.iter().zip(&d).map(|(a, b)| a + b).collect();
            if let Some(en) = fgh(&xn) {
                let gnn = norm2(&en.g);
                let flat = 1e-14 * cur.f.abs().max(1.0);
                if en.f < cur.f - flat || (en.f <= cur.f + flat && gnn < gn) {
                    x = xn;
                    cur = en;
                    mu = (mu / 5.0).max(1e-14);
                    accepted = true;
                    break;
                }
            }
            mu *= 5.0;
            if mu > 1e30 {
                break;
            }
        }
        if !accepted {
            break;
        }
    }
    let gn = norm2(&cur.g);
    MinResult { x, f: cur.f, gnorm: gn, iters, converged: gn <= gtol }
}

// ---------------------------------------------------------------------------------------------
// binary logistic:  J(w, b) = - sum_i log sigm(y_i (x_i.w + b)) + alpha/2 * w.w      (y in {-1,+1})
// theta = [w_0 .. w_{d-1}, b?]   (the intercept is NOT penalised)
// ---------------------------------------------------------------------------------------------

pub fn sigmoid(t: f64) -> f64 {
    if t >= 0.0 {
        1.0 / (1.0 + (-t).exp())
    } else {
        let e = t.exp();
        e / (1.0 + e)
    }
}

fn log_sigmoid(t: f64) -> f64 {
    if t > 0.0 {
        -((-t).exp()).ln_1p()
    } else {
        t - t.exp().ln_1p()
    }
}

pub fn bin_score(x: &[f64], theta: &[f64], intercept: bool) -> f64 {
    let d = x.len();
    let mut s = if intercept { theta[d] } else { 0.0 };
    for j in 0..d {
        s += x[j] * theta[j];
    }
    s
}

pub fn bin_eval(x: &[Vec<f64>], y: &[f64], alpha: f64, intercept: bool, theta: &[f64]) -> Option<Eval> {
    let d = x[0].len();
    let p = d + intercept as usize;
    let mut f = 0.0;
    let mut g = vec![0.0; p];
    let mut h = vec![vec![0.0; p]; p];
    for (xi, &yi) in x.iter().zip(y) {
        let s = bin_score(xi, theta, intercept);
        f -= log_sigmoid(yi * s);
        let c = (sigmoid(yi * s) - 1.0) * yi;
        let sg = sigmoid(s);
        let wgt = sg * (1.0 - sg);
        for a in 0..p {
            let za = if a < d { xi[a] } else { 1.0 };
            g[a] += c * za;
            for b in 0..p {
                let zb = if b < d { xi[b] } else { 1.0 };
                h[a][b] += wgt * za * zb;
            }
        }
    }
    for j in 0..d {
        f += 0.5 * alpha * theta[j] * theta[j];
        g[j] += alpha * theta[j];
        h[j][j] += alpha;
    }
    if !f.is_finite() || g.iter().any(|v| !v.is_finite()) {
        return None;
    }
    Some(Eval { f, g, h })
}

// ---------------------------------------------------------------------------------------------
// multinomial logistic: J(W, b) = - sum_i log softmax(x_i W + b)[y_i] + alpha/2 * ||W||_F^2
// theta = W row-major (d x K), then b (K) when an intercept is fitted
// ---------------------------------------------------------------------------------------------

pub fn multi_scores(x: &[f64], theta: &[f64], k: usize, intercept: bool) -> Vec<f64> {
    let d = x.len();
    (0..k)
        .map(|c| {
            let mut s = if intercept { theta[d * k + c] } else { 0.0 };
            for j in 0..d {
                s += x[j] * theta[j * k + c];
            }
            s
        })
        .collect()
}

pub fn softmax(s: &[f64]) -> Vec<f64> {
    let m = s.iter().cloned().fold(f64::NEG_INFINITY, f64::max);
    let e: Vec<f64> = s.iter().map(|v| (v - m).exp()).collect();
    let t: f64 = e.iter().sum();
    e.iter().map(|v| v / t).collect()
}

pub fn multi_eval(x: &[Vec<f64>], y: &[usize], k: usize, alpha: f64, intercept: bool, theta: &[f64]) -> Option<Eval> {
    let d = x[0].len();
    let pz = d + intercept as usize;
    let np = pz * k;
    let mut f = 0.0;
    let mut g = vec![0.0; np];
    let mut h = vec![vec![0.0; np]; np];
    for (xi, &yi) in x.iter().zip(y) {
        let s = multi_scores(xi, theta, k, intercept);
        let m = s.iter().cloned().fold(f64::NEG_INFINITY, f64::max);
        let lse = m + s.iter().map(|v| (v - m).exp()).sum::<f64>().ln();
        f -= s[yi] - lse;
        let p: Vec<f64> = s.iter().map(|v| (v - lse).exp()).collect();
        for a in 0..pz {
            let za = if a < d { xi[a] } else { 1.0 };
            for c in 0..k {
                let ind = if c == yi { 1.0 } else { 0.0 };
                g[a * k + c] += za * (p[c] - ind);
                for b in 0..pz {
                    let zb = if b < d { xi[b] } else { 1.0 };
                    for c2 in 0..k {
                        let w = if c == c2 { p[c] - p[c] * p[c2] } else { -p[c] * p[c2] };
                        h[a * k + c][b * k + c2] += za * zb * w;
                    }
                }
            }
        }
    }
    for j in 0..d * k {
        f += 0.5 * alpha * theta[j] * theta[j];
        g[j] += alpha * theta[j];
        h[j][j] += alpha;
    }
    if !f.is_finite() || g.iter().any(|v| !v.is_finite()) {
        return None;
    }
    Some(Eval { f, g, h })
}

// ---------------------------------------------------------------------------------------------
// Tweedie GLM: J(w, b) = 1/2 * ( sum_i d_p(y_i, mu_i) + alpha * w.w ),  mu_i = h(x_i.w + b)
// theta = [w_0 .. w_{d-1}, b?]
// ---------------------------------------------------------------------------------------------

#[derive(Clone, Copy, Debug, PartialEq)]
pub enum RefLink {
    Identity,
    Log,
    Logit,
}

impl RefLink {
    pub fn inv(&self, eta: f64) -> f64 {
        match self {
            RefLink::Identity => eta,
            RefLink::Log => eta.exp(),
            RefLink::Logit => sigmoid(eta),
        }
    }
    pub fn inv_der(&self, eta: f64) -> f64 {
        match self {
            RefLink::Identity => 1.0,
            RefLink::Log => eta.exp(),
            RefLink::Logit => {
                let s = sigmoid(eta);
                s * (1.0 - s)
            }
        }
    }
    pub fn link(&self, mu: f64) -> f64 {
        match self {
            RefLink::Identity => mu,
            RefLink::Log => mu.ln(),
            RefLink::Logit => (mu / (1.0 - mu)).ln(),
        }
    }
}

/// Unit deviance of the Tweedie family (textbook form, e.g. Jorgensen 1997; the same formulas the
/// comments in distribution.rs quote).
pub fn unit_deviance(p: f64, y: f64, mu: f64) -> f64 {
    if p == 0.0 {
        (y - mu) * (y - mu)
    } else if p == 1.0 {
        let t = if y == 0.0 { 0.0 } else { y * (y / mu).ln() };
        2.0 * (t - y + mu)
    } else if p == 2.0 {
        2.0 * ((mu / y).ln() + y / mu - 1.0)
    } else {
        2.0 * (y.max(0.0).powf(2.0 - p) / ((1.0 - p) * (2.0 - p)) - y * mu.powf(1.0 - p) / (1.0 - p) + mu.powf(2.0 - p) / (2.0 - p))
    }
}

pub fn tw_objective(x: &[Vec<f64>], y: &[f64], p: f64, link: RefLink, alpha: f64, intercept: bool, theta: &[f64]) -> Option<(f64, Vec<f64>)> {
    let d = x[0].len();
    let np = d + intercept as usize;
    let mut dev = 0.0;
    let mut g = vec![0.0; np];
    for (xi, &yi) in x.iter().zip(y) {
        let eta = bin_score(xi, theta, intercept);
        let mu = link.inv(eta);
        if !mu.is_finite() {
            return None;
        }
        if p != 0.0 && !(mu > 0.0) {
            return None;
        }
        dev += unit_deviance(p, yi, mu);
        let var = if p == 0.0 { 1.0 } else { mu.powf(p) };
        let c = -(yi - mu) / var * link.inv_der(eta);
        for a in 0..np {
            let za = if a < d { xi[a] } else { 1.0 };
            g[a] += c * za;
        }
    }
    let mut f = 0.5 * dev;
    for j in 0..d {
        f += 0.5 * alpha * theta[j] * theta[j];
        g[j] += alpha * theta[j];
    }
    if !f.is_finite() || g.iter().any(|v| !v.is_finite()) {
        return None;
    }
    Some((f, g))
}

/// Objective, analytic gradient, Hessian by central differences of the analytic gradient.
pub fn tw_eval(x: &[Vec<f64>], y: &[f64], p: f64, link: RefLink, alpha: f64, intercept: bool, theta: &[f64]) -> Option<Eval> {
    let (f, g) = tw_objective(x, y, p, link, alpha, intercept, theta)?;
    let n = theta.len();
    let mut h = vec![vec![0.0; n]; n];
    for j in 0..n {
        let step = 1e-6 * theta[j].abs().max(1.0);
        let mut tp = theta.to_vec();
        tp[j] += step;
        let mut tm = theta.to_vec();
        tm[j] -= step;
        let (_, gp) = tw_objective(x, y, p, link, alpha, intercept, &tp)?;
        let (_, gm) = tw_objective(x, y, p, link, alpha, intercept, &tm)?;
        for i in 0..n {
            h[i][j] = (gp[i] - gm[i]) / (2.0 * step);
        }
    }
    for i in 0..n {
        for j in 0..i {
            let s = 0.5 * (h[i][j] + h[j][i]);
            h[i][j] = s;
            h[j][i] = s;
        }
    }
    Some(Eval { f, g, h })
}

// ---------------------------------------------------------------------------------------------
// exact (integer) test for weak linear separability of a two-class sample
// ---------------------------------------------------------------------------------------------

/// rows a_i = y_i * (x_i, [1]) with integer entries. Returns None when the design is rank
/// deficient or not integer valued, Some(true) when a non-zero theta with a_i.theta >= 0 for all i
/// exists (complete or quasi-complete separation: the unpenalised likelihood has no finite
/// maximiser), Some(false) otherwise. Complete for full column rank: the cone {theta : A theta >= 0}
/// is then pointed, and a non-trivial pointed cone has an extreme ray on which p-1 independent
/// constraints are active; every such ray is enumerated.
pub fn weakly_separable(x: &[Vec<f64>], y: &[f64], intercept: bool) -> Option<bool> {
    let d = x[0].len();
    let p = d + intercept as usize;
    // separability does not depend on a common positive factor: lattices scaled by 1/8 are tested as integers
    let mult = if x.iter().flatten().all(|v| v.fract() == 0.0) { 1.0 } else { 8.0 };
    let mut rows: Vec<Vec<i64>> = Vec::new();
    for (xi, &yi) in x.iter().zip(y) {
        let mut r = Vec::with_capacity(p);
        for &v in xi {
            let v = v * mult;
            if v.fract() != 0.0 || v.abs() > 1e6 {
                return None;
            }
            r.push(v as i64 * yi as i64);
        }
        if intercept {
            r.push(yi as i64);
        }
        if !rows.contains(&r) {
            rows.push(r);
        }
    }
    let dot = |a: &[i64], b: &[i64]| -> i64 { a.iter().zip(b).map(|(u, v)| u * v).sum() };
    let feasible = |t: &[i64]| -> bool { t.iter().any(|&v| v != 0) && rows.iter().all(|r| dot(r, t) >= 0) };
    let n = rows.len();
    match p {
        1 => {
            if rows.iter().all(|r| r[0] == 0) {
                return None;
            }
            Some(feasible(&[1]) || feasible(&[-1]))
        }
        2 => {
            let mut full = false;
            for i in 0..n {
                for j in i + 1..n {
                    if rows[i][0] * rows[j][1] - rows[i][1] * rows[j][0] != 0 {
                        full = true;
                    }
                }
            }
            if !full {
                return None;
            }
            for i in 0..n {
                let t = [-rows[i][1], rows[i][0]];
                let tn = [rows[i][1], -rows[i][0]];
                if feasible(&t) || feasible(&tn) {
                    return Some(true);
                }
            }
            Some(false)
        }
        3 => {
            let cross = |a: &[i64], b: &[i64]| -> [i64; 3] { [a[1] * b[2] - a[2] * b[1], a[2] * b[0] - a[0] * b[2], a[0] * b[1] - a[1] * b[0]] };
            let mut full = false;
            'o: for i in 0..n {
                for j in i + 1..n {
                    let c = cross(&rows[i], &rows[j]);
                    for k in j + 1..n {
                        if dot(&c, &rows[k]) != 0 {
                            full = true;
                            break 'o;
                        }
                    }
                }
            }
            if !full {
                return None;
            }
            for i in 0..n {
                for j in i + 1..n {
                    let c = cross(&rows[i], &rows[j]);
                    let cn = [-c[0], -c[1], -c[2]];
                    if feasible(&c) || feasible(&cn) {
                        return Some(true);
                    }
                }
            }
            Some(false)
        }
        _ => None,
    }
}
